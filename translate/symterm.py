"""Symbolic evaluation of the small, straight-line crypto-plumbing functions of replicat/repository.py
into terms of coq/Model/Crypto.v (used by units_c04 / units_c05 / units_c18).  Fail-closed: every
node shape that is not on the whitelist raises Untranslatable.

Conventions of the produced Coq text: the key ring is the variable `k` (k_shared/k_salt/k_mac/k_user),
serialisation / hex / base64 are the identity on terms (injective encodings), a dict literal with
constant keys becomes nested `Pair`s in key order, each `self.props.encrypt(x, key)` call takes the
next nonce variable n1, n2, ... (arguments are evaluated before the nonce is drawn, as in Python).
"""
import ast


class Untranslatable(Exception):
    pass


def attr_chain(node):
    """self.props.encrypt -> ['self', 'props', 'encrypt'];  None when not a pure attribute chain."""
    out = []
    while isinstance(node, ast.Attribute):
        out.append(node.attr)
        node = node.value
    if isinstance(node, ast.Name):
        out.append(node.id)
        return out[::-1]
    return None


class Obj(dict):
    """a JSON object / NamedTuple with constant keys (insertion ordered)"""


NONE = ('none',)


class SymEval:
    def __init__(self, encrypted, env):
        self.encrypted = encrypted
        self.env = dict(env)
        self.nonces = 0
        self.decrypts = []      # (ciphertext term, key term, tolerated: bool)
        self.try_catches = []   # stack of sets of exception names
        self.returned = None

    # ------------------------------------------------------------------ expressions
    def is_encrypted_test(self, node):
        return attr_chain(node) == ['self', 'props', 'encrypted']

    def expr(self, node):
        if isinstance(node, ast.Name):
            if node.id not in self.env:
                raise Untranslatable(f'unknown name {node.id}')
            return self.env[node.id]
        if isinstance(node, ast.Constant) and node.value is None:
            return NONE
        if isinstance(node, ast.Attribute):
            ch = attr_chain(node)
            if ch == ['self', 'props', 'userkey']:
                return '(k_user k)'
            raise Untranslatable(f'attribute {ast.unparse(node)}')
        if isinstance(node, ast.Subscript):
            base = self.expr(node.value)
            if isinstance(base, Obj) and isinstance(node.slice, ast.Constant) and node.slice.value in base:
                return base[node.slice.value]
            raise Untranslatable(f'subscript {ast.unparse(node)}')
        if isinstance(node, ast.Dict):
            o = Obj()
            for kx, vx in zip(node.keys, node.values):
                if not (isinstance(kx, ast.Constant) and isinstance(kx.value, str)):
                    raise Untranslatable('dict key')
                o[kx.value] = self.expr(vx)
            return o
        if isinstance(node, ast.IfExp):
            if not self.is_encrypted_test(node.test):
                raise Untranslatable('conditional expression on something else than props.encrypted')
            return self.expr(node.body if self.encrypted else node.orelse)
        if isinstance(node, ast.Call):
            return self.call(node)
        raise Untranslatable(f'expression {ast.dump(node)[:80]}')

    def term(self, node):
        v = self.expr(node)
        return self.as_term(v)

    def as_term(self, v):
        if isinstance(v, str):
            return v
        if isinstance(v, Obj):
            vals = [self.as_term(x) for x in v.values()]
            if len(vals) < 2:
                raise Untranslatable('object with fewer than two fields')
            out = vals[-1]
            for x in reversed(vals[:-1]):
                out = f'(Pair {x} {out})'
            return out
        raise Untranslatable(f'not a term: {v!r}')

    def call(self, node):
        ch = attr_chain(node.func)
        if node.keywords and ch != ['LocationParts']:
            raise Untranslatable(f'keywords in {ast.unparse(node)}')
        a = node.args
        if ch == ['self', 'props', 'encrypt'] and len(a) == 2:
            data, key = self.term(a[0]), self.term(a[1])
            self.nonces += 1
            return f'(Enc {key} n{self.nonces} {data})'
        if ch == ['self', 'props', 'decrypt'] and len(a) == 2:
            data, key = self.term(a[0]), self.term(a[1])
            tolerated = any('DecryptionError' in name for names in self.try_catches for name in names)
            self.decrypts.append((data, key, tolerated))
            return f'(PLAINTEXT_OF {data})'
        if ch == ['self', 'props', 'hash_digest'] and len(a) == 1:
            return f'(Hash {self.term(a[0])})'
        if ch == ['self', 'props', 'mac'] and len(a) == 1:
            return f'(Mac (k_mac k) {self.term(a[0])})'
        if ch == ['self', 'props', 'derive_shared_subkey'] and len(a) == 1:
            return f'(Derive (k_shared k) (k_salt k) {self.term(a[0])})'
        if ch in (['self', 'serialize'], ['self', 'deserialize']) and len(a) == 1:
            return self.expr(a[0])
        if ch == ['bytes', 'fromhex'] and len(a) == 1:
            return self.expr(a[0])
        if ch == ['LocationParts'] and not a:
            o = Obj()
            for kw in node.keywords:
                o[kw.arg] = self.expr(kw.value)
            return o
        if isinstance(node.func, ast.Attribute) and node.func.attr == 'hex' and not a:
            return self.expr(node.func.value)
        raise Untranslatable(f'call {ast.unparse(node)[:80]}')

    # ------------------------------------------------------------------ statements
    def assign(self, target, value):
        if isinstance(target, ast.Name):
            self.env[target.id] = value
        elif isinstance(target, ast.Subscript) and isinstance(target.value, ast.Name) \
                and isinstance(self.env.get(target.value.id), Obj) and isinstance(target.slice, ast.Constant):
            self.env[target.value.id][target.slice.value] = value
        else:
            raise Untranslatable(f'assignment target {ast.unparse(target)}')

    def block(self, stmts):
        for st in stmts:
            if self.returned is not None:
                raise Untranslatable('statement after return')
            if isinstance(st, ast.Assign):
                v = self.expr(st.value)
                for t in st.targets:
                    self.assign(t, v)
            elif isinstance(st, ast.If):
                if not self.is_encrypted_test(st.test):
                    raise Untranslatable(f'if on {ast.unparse(st.test)}')
                self.block(st.body if self.encrypted else st.orelse)
            elif isinstance(st, ast.Return):
                self.returned = self.expr(st.value)
            elif isinstance(st, ast.Try):
                if st.finalbody:
                    raise Untranslatable('finally')
                names = set()
                for h in st.handlers:
                    names.add(ast.unparse(h.type) if h.type is not None else '*')
                self.try_catches.append(names)
                self.block(st.body)
                self.try_catches.pop()
                # handlers: only "field = None" is accepted (the failure is tolerated and yields None)
                for h in st.handlers:
                    for hs in h.body:
                        if not (isinstance(hs, ast.Assign) and isinstance(hs.value, ast.Constant) and hs.value.value is None):
                            raise Untranslatable('exception handler does something else than assigning None')
                self.block(st.orelse)
            elif isinstance(st, ast.Expr) and isinstance(st.value, ast.Call) and (attr_chain(st.value.func) or [''])[0] in ('logger', 'logging'):
                continue
            else:
                raise Untranslatable(f'statement {ast.unparse(st)[:80]}')


def eval_function(fn, encrypted, env):
    ev = SymEval(encrypted, env)
    body = [s for s in fn.body if not (isinstance(s, ast.Expr) and isinstance(s.value, ast.Constant))]  # docstring
    ev.block(body)
    return ev


# ---------------------------------------------------------------------- flow analysis of `contents`
def _is_digest_mismatch(test, var, expected):
    """hash_digest(<var>) != <expected>   (either operand order) -> '!=' ; with == -> '==' ; else None"""
    if not (isinstance(test, ast.Compare) and len(test.ops) == 1 and len(test.comparators) == 1):
        return None
    l, r = test.left, test.comparators[0]

    def is_hash(n):
        return (isinstance(n, ast.Call) and attr_chain(n.func) == ['self', 'props', 'hash_digest'] and len(n.args) == 1
                and isinstance(n.args[0], ast.Name) and n.args[0].id == var)

    def is_exp(n):
        return isinstance(n, ast.Name) and n.id == expected
    if (is_hash(l) and is_exp(r)) or (is_hash(r) and is_exp(l)):
        if isinstance(test.ops[0], ast.NotEq):
            return '!='
        if isinstance(test.ops[0], ast.Eq):
            return '=='
    return None


def _mentions(node, name):
    return any(isinstance(n, ast.Name) and n.id == name for n in ast.walk(node))


class ContentsFlow:
    """Abstract interpretation of _download_snapshot_threadsafe over the provenance of `contents`:
    tags none / cached / downloaded / verified.  Records the tags possible where the contents are
    handed to _decrypt_snapshot_body and to _store_cached."""

    def __init__(self, var='contents', expected='expected_digest'):
        self.var, self.expected = var, expected
        self.use_tags = set()
        self.store_tags = set()
        self.used = False

    def source_of(self, value):
        if isinstance(value, ast.Constant) and value.value is None:
            return {'none'}
        if isinstance(value, ast.Call):
            ch = attr_chain(value.func)
            if ch == ['self', '_get_cached']:
                return {'cached'}
            if ch in (['self', '_download_threadsafe'], ['self', '_download']):
                return {'downloaded'}
        raise Untranslatable(f'unknown source of {self.var}: {ast.unparse(value)}')

    def verified(self, state):
        return {('verified' if t in ('cached', 'downloaded', 'verified') else t) for t in state if t != 'none'}

    def block(self, stmts, state):
        for st in stmts:
            if not state:
                return state
            state = self.stmt(st, state)
        return state

    def stmt(self, st, state):
        if isinstance(st, ast.Assign):
            if any(isinstance(t, ast.Name) and t.id == self.var for t in st.targets):
                if len(st.targets) != 1:
                    raise Untranslatable('multiple assignment to contents')
                return self.source_of(st.value)
            if _mentions(st.value, self.var):
                ch = isinstance(st.value, ast.Call) and attr_chain(st.value.func)
                if ch == ['self', '_decrypt_snapshot_body']:
                    self.use_tags |= state
                    self.used = True
                    return state
                raise Untranslatable(f'contents flows into {ast.unparse(st.value)[:60]}')
            return state
        if isinstance(st, ast.Expr):
            if isinstance(st.value, ast.Call):
                ch = attr_chain(st.value.func) or []
                if ch == ['self', '_store_cached']:
                    self.store_tags |= state
                    return state
                if ch[:1] in (['logger'], ['logging']):
                    return state
            if isinstance(st.value, ast.Constant):
                return state
            raise Untranslatable(f'statement {ast.unparse(st)[:60]}')
        if isinstance(st, ast.Pass):
            return state
        if isinstance(st, (ast.Raise, ast.Return)):
            if isinstance(st, ast.Return) and st.value is not None and _mentions(st.value, self.var):
                raise Untranslatable('contents returned directly')
            return set()
        if isinstance(st, ast.If):
            t = st.test
            if isinstance(t, ast.BoolOp) and isinstance(t.op, ast.And) and len(t.values) == 2:
                # if A and B: body else: orelse  ==  if A: (if B: body else: orelse) else: orelse
                inner = ast.If(test=t.values[1], body=st.body, orelse=st.orelse)
                return self.stmt(ast.If(test=t.values[0], body=[inner], orelse=st.orelse), state)
            kind = _is_digest_mismatch(t, self.var, self.expected)
            if kind is not None:
                ok = self.verified(state)
                if kind == '!=':
                    return self.block(st.body, set(state) - {'none'}) | self.block(st.orelse, ok)
                return self.block(st.body, ok) | self.block(st.orelse, set(state) - {'none'})
            if isinstance(t, ast.Compare) and len(t.ops) == 1 and isinstance(t.left, ast.Name) and t.left.id == self.var \
                    and isinstance(t.comparators[0], ast.Constant) and t.comparators[0].value is None:
                isnone, notnone = state & {'none'}, state - {'none'}
                if isinstance(t.ops[0], ast.Is):
                    return self.block(st.body, isnone) | self.block(st.orelse, notnone)
                if isinstance(t.ops[0], ast.IsNot):
                    return self.block(st.body, notnone) | self.block(st.orelse, isnone)
            if _mentions(t, self.var):
                raise Untranslatable(f'unknown test on contents: {ast.unparse(t)}')
            return self.block(st.body, set(state)) | self.block(st.orelse, set(state))
        if isinstance(st, ast.Try):
            if st.finalbody:
                raise Untranslatable('finally')
            # an exception raised by statement i leaves the state as it was before statement i
            pre, cur = set(), set(state)
            for s in st.body:
                pre |= cur
                if not cur:
                    break
                cur = self.stmt(s, cur)
            out = self.block(st.orelse, cur)
            for h in st.handlers:
                out |= self.block(h.body, set(pre))
            return out
        raise Untranslatable(f'statement {ast.unparse(st)[:60]}')


def coq_bool(b):
    return 'true' if b else 'false'
