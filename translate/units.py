"""The translated units (DESIGN.md 2.2).  Each returns the text of coq/Gen/<name>.v."""
import ast
from . import pyast
from .pyast import REPO

UNITS = []


def unit(name):
    def deco(fn):
        UNITS.append((name, fn))
        return fn
    return deco


def coq_str(s):
    assert all(32 <= ord(c) < 127 for c in s), 'non-ASCII constant'
    return '"' + s.replace('"', '""') + '"'


@unit('SrcFacts')
def src_facts():
    """Constants and structural facts read off the source."""
    out = ['From Coq Require Import String NArith ZArith List.', 'Import ListNotations.', 'Open Scope string_scope.', '']
    repo = pyast.module('replicat/repository.py')
    R = pyast.find_class(repo, 'Repository')
    out.append(f'Definition CHUNK_PREFIX : string := {coq_str(pyast.class_const(R, "CHUNK_PREFIX"))}.')
    out.append(f'Definition SNAPSHOT_PREFIX : string := {coq_str(pyast.class_const(R, "SNAPSHOT_PREFIX"))}.')
    ad = pyast.module('replicat/utils/adapters.py')
    G = pyast.find_class(ad, 'gclmulchunker')
    out.append(f'Definition chunker_alignment : nat := {int(pyast.class_const(G, "alignment"))}.')
    out.append(f'Definition chunker_MIN_LENGTH : N := {int(pyast.class_const(G, "MIN_LENGTH"))}%N.')
    out.append(f'Definition chunker_MAX_LENGTH : N := {int(pyast.class_const(G, "MAX_LENGTH"))}%N.')
    base = pyast.module('replicat/backends/base.py')
    out.append(f'Definition DEFAULT_STREAM_CHUNK_SIZE : N := {int(pyast.module_const(base, "DEFAULT_STREAM_CHUNK_SIZE"))}%N.')
    return '\n'.join(out) + '\n'


# per-property unit files translate/units_*.py register further units with @unit
import importlib as _il, pkgutil as _pk, translate as _t
for _m in sorted(_pk.iter_modules(_t.__path__), key=lambda m: m.name):
    if _m.name.startswith('units_'):
        _il.import_module('translate.' + _m.name)
