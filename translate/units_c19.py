"""C19 - option tables and pipeline-order facts (coq/Gen/C19Tables.v), read off replicat/utils/cli.py,
replicat/utils/config.py, replicat/__main__.py, replicat/utils/__init__.py and replicat/backends/*.py with the
ast module.  Fail closed: any shape that is not recognised raises."""
import ast
import logging

from . import pyast
from .units import unit, coq_str

CLI_TYPES = {'parse_repository': 'CoRepo', '_natural_number': 'CoNatCli', 'Path': 'CoPath', 'os.fsencode': 'CoBytes',
             '_read_bytes': 'CoReadFile'}
FILE_VALIDATORS = {'parse_repository': 'CoRepo', '_check_natural_number': 'CoNatFile', '_check_boolean': 'CoBoolFile',
                   'Path': 'CoPath', 'str.encode': 'CoBytes', '_read_bytes': 'CoReadFile', '_convert_log_level': 'CoLogLevel'}
CONTROL_DESTS = {'profile', 'configuration_file', 'verbose'}      # command-line only switches, not options with sources


def kw(call, name):
    for k in call.keywords:
        if k.arg == name:
            return k.value
    return None


def long_name(flags):
    longs = [f for f in flags if f.startswith('--')]
    if not longs:
        raise ValueError(f'no long flag among {flags}')
    return longs[0][2:]


def cli_arguments(tree):
    """add_argument calls on initial_parser / common_options_parser and on their mutually exclusive groups."""
    parsers = {'initial_parser', 'common_options_parser'}
    groups = {}                      # group variable -> parser
    args, members = [], {}
    for st in tree.body:
        if isinstance(st, ast.Assign) and isinstance(st.value, ast.Call) and isinstance(st.value.func, ast.Attribute) \
                and st.value.func.attr == 'add_mutually_exclusive_group' and isinstance(st.value.func.value, ast.Name) \
                and st.value.func.value.id in parsers:
            groups[st.targets[0].id] = st.value.func.value.id
            members[st.targets[0].id] = []
        if isinstance(st, ast.Expr) and isinstance(st.value, ast.Call) and isinstance(st.value.func, ast.Attribute) \
                and st.value.func.attr == 'add_argument' and isinstance(st.value.func.value, ast.Name):
            owner = st.value.func.value.id
            if owner not in parsers and owner not in groups:
                continue
            call = st.value
            flags = [a.value for a in call.args]
            if not all(isinstance(f, str) and f.startswith('-') for f in flags):
                raise ValueError('positional argument on a shared parser')
            name = long_name(flags)
            dest = kw(call, 'dest')
            dest = dest.value if dest is not None else name.replace('-', '_')
            action = kw(call, 'action')
            action = action.value if action is not None else None
            typ = kw(call, 'type')
            typ = ast.unparse(typ) if typ is not None else None
            const = kw(call, 'const')
            if dest in CONTROL_DESTS:
                co = None
            elif action == 'store_true':
                co = 'CoStoreTrue'
            elif action == 'store_const':
                if const is None or ast.unparse(const) != 'None':
                    raise ValueError(f'--{name}: store_const with a constant other than None')
                co = 'CoConstNone'
            elif action in (None,) and typ in CLI_TYPES:
                co = CLI_TYPES[typ]
            else:
                raise ValueError(f'--{name}: unsupported action/type {action}/{typ}')
            args.append({'name': name, 'flags': flags, 'dest': dest, 'co': co})
            if owner in groups:
                members[owner].append(name)
    return args, members


def config_rows(cfgtree):
    C = pyast.find_class(cfgtree, 'Config')
    ak = pyast.find_func(C, 'apply_known')
    rows, excl = [], []
    for st in ak.body:
        src = ast.unparse(st)
        if isinstance(st, ast.Expr) and isinstance(st.value, ast.Call):
            f = ast.unparse(st.value.func)
            if f == '_check_mutually_exclusive':
                a = st.value.args
                if ast.unparse(a[0]) != 'mapping' or len(a) != 3:
                    raise ValueError('unexpected _check_mutually_exclusive call')
                excl.append((a[1].value, a[2].value))
                continue
            if f == 'self.popset':
                a = st.value.args
                if ast.unparse(a[0]) != 'remaining' or len(a) != 3:
                    raise ValueError('unexpected popset call ' + src)
                v = ast.unparse(a[2])
                if v not in FILE_VALIDATORS:
                    raise ValueError('unknown validator ' + v)
                rows.append({'name': a[1].value, 'dest': kw(st.value, 'field').value, 'co': FILE_VALIDATORS[v]})
                continue
        if isinstance(st, ast.If) and ast.unparse(st.test) == "_check_boolean(remaining.pop('no-cache', False))":
            if ast.unparse(st.body[0]) != 'self.cache_directory = None' or len(st.body) != 1 or st.orelse:
                raise ValueError('unexpected no-cache handling')
            rows.append({'name': 'no-cache', 'dest': 'cache_directory', 'co': 'CoNoCacheFile'})
            continue
        if src in ('remaining = mapping.copy()', 'return remaining'):
            continue
        raise ValueError('Config.apply_known: unsupported statement ' + src)
    # the mutual exclusion checks come before any option is applied
    kinds = ['x' if ast.unparse(st).startswith('_check_mutually_exclusive') else 'o' for st in ak.body]
    if 'x' in kinds[kinds.index('o'):]:
        raise ValueError('a mutual exclusion check follows an applied option')
    ae = pyast.find_func(C, 'apply_env')
    env = []
    for st in ae.body:
        src = ast.unparse(st)
        if isinstance(st, ast.Expr) and ast.unparse(st.value.func) == 'self.getset':
            a = st.value.args
            if ast.unparse(a[0]) != 'os.environ' or ast.unparse(a[2]) not in FILE_VALIDATORS:
                raise ValueError('unexpected getset in apply_env')
            env.append({'var': a[1].value, 'dest': kw(st.value, 'field').value, 'co': FILE_VALIDATORS[ast.unparse(a[2])]})
        elif isinstance(st, ast.Try) and ast.unparse(st.body[0]).startswith('self.password = _get_environb('):
            env.append({'var': st.body[0].value.args[0].value, 'dest': 'password', 'co': 'CoBytes'})
        else:
            raise ValueError('Config.apply_env: unsupported statement ' + src)
    # built-in defaults of the dataclass fields
    consts = {}
    for st in cfgtree.body:
        if isinstance(st, ast.Assign) and isinstance(st.targets[0], ast.Name):
            consts[st.targets[0].id] = ast.unparse(st.value)
    builtin = {}
    for st in C.body:
        if isinstance(st, ast.AnnAssign):
            v = ast.unparse(st.value)
            v = consts.get(v, v)
            if v == "('local', os.getcwd())":
                b = 'ERepo "local" "<cwd>"'
            elif v.startswith('Path(user_cache_dir('):
                b = 'EPath "<default-cache>"'
            elif v == 'None':
                b = 'EVal VNull'
            elif v in ('True', 'False'):
                b = f'EVal (VBool {v.lower()})'
            elif v.startswith('logging.'):
                b = f'EVal (VInt {int(getattr(logging, v.split(".")[1]))})'
            else:
                b = f'EVal (VInt {int(v)})'
            builtin[st.target.id] = b
    return rows, excl, env, builtin


def order_of(fn, names):
    pos = {}
    for n in ast.walk(fn):
        if isinstance(n, ast.Call):
            f = ast.unparse(n.func)
            if f in names:
                if f in pos:
                    raise ValueError(f'{f} called more than once')
                pos[f] = (n.lineno, n.col_offset)
    if set(pos) != set(names):
        raise ValueError(f'calls not found: {set(names) - set(pos)}')
    return [names[f] for f in sorted(pos, key=pos.get)]


def backend_specs():
    out = []
    for mod in ('local', 's3c', 's3', 'b2'):
        tree = pyast.module(f'replicat/backends/{mod}.py')
        client = None
        for st in tree.body:
            if isinstance(st, ast.Assign) and isinstance(st.targets[0], ast.Name) and st.targets[0].id == 'Client':
                client = st.value.id
        cls = pyast.find_class(tree, client)
        short = next((k.value.value for k in cls.keywords if k.arg == 'short_name'), cls.name)
        init = next((n for n in cls.body if isinstance(n, ast.FunctionDef) and n.name == '__init__'), None)
        if init is None:
            raise ValueError(f'{mod}: Client class without its own __init__')
        params = []
        for a, d in zip(init.args.kwonlyargs, init.args.kw_defaults):
            if d is None:
                params.append((a.arg, 'None'))
            else:
                v = ast.literal_eval(d)
                if isinstance(v, bool):
                    lit = f'(VBool {str(v).lower()})'
                elif isinstance(v, int):
                    lit = f'(VInt {v})'
                elif isinstance(v, str):
                    lit = f'(VStr {coq_str(v)})'
                elif v is None:
                    lit = 'VNull'
                else:
                    raise ValueError(f'{mod}: unsupported default {v!r}')
                params.append((a.arg, f'(Some {lit})'))
        out.append((mod, short, params))
    return out


@unit('C19Tables')
def c19_tables():
    cli = pyast.module('replicat/utils/cli.py')
    cfg = pyast.module('replicat/utils/config.py')
    main = pyast.module('replicat/__main__.py')
    utils = pyast.module('replicat/utils/__init__.py')
    args, groups = cli_arguments(cli)
    rows, excl_file, env, builtin = config_rows(cfg)
    by_name = {a['name']: a for a in args}
    out = ['From Coq Require Import String ZArith List.', 'From Replicat Require Import Model.PyVal Model.Options.',
           'Import ListNotations.', 'Open Scope string_scope.', 'Open Scope Z_scope.', '']
    lines = []
    for r in rows:
        a = by_name.get(r['name'])
        if a is not None and a['dest'] != r['dest']:
            raise ValueError(f'{r["name"]}: command line writes {a["dest"]}, the file writes {r["dest"]}')
        o_cli = f'Some {a["co"]}' if a is not None and a['co'] else 'None'
        e = [x for x in env if x['dest'] == r['dest'] and r['name'] == r['dest']]
        o_env = f'Some {e[0]["co"]}' if e else 'None'
        lines.append(f'  {{| o_name := {coq_str(r["name"])}; o_dest := {coq_str(r["dest"])}; o_cli := {o_cli}; o_env := {o_env}; '
                     f'o_file := Some {r["co"]}; o_builtin := {builtin[r["dest"]]} |}}')
    for a in args:
        if a['co'] and a['name'] not in {r['name'] for r in rows}:
            raise ValueError(f'--{a["name"]} has no configuration-file counterpart')
    out += ['Definition general_rows : list optrow := [', ';\n'.join(lines), '].']
    out.append('Definition excl_file : list (string * string) := [' + '; '.join(f'({coq_str(a)}, {coq_str(b)})' for a, b in excl_file) + '].')
    names = {r['name'] for r in rows}
    pairs = [tuple(m) for m in groups.values() if len(m) == 2 and set(m) <= names]
    if any(len(m) != 2 for m in groups.values()):
        raise ValueError('a mutually exclusive group does not have two members')
    out.append('Definition excl_cli : list (string * string) := [' + '; '.join(f'({coq_str(a)}, {coq_str(b)})' for a, b in pairs) + '].')
    out.append('Definition general_flags : list (string * list string) := [' + '; '.join(
        f'({coq_str(a["name"])}, [{"; ".join(coq_str(f) for f in a["flags"])}])' for a in args) + '].')
    out.append('Definition general_env : list (string * string) := [' + '; '.join(f'({coq_str(x["dest"])}, {coq_str(x["var"])})' for x in env) + '].')
    # order of the sources in main()
    M = pyast.find_func(main, 'main')
    gen = order_of(M, {'cfg.apply_known': 'SrcFile', 'cfg.apply_env': 'SrcEnv', 'main_parser.parse_known_args': 'SrcCli'})
    bck = order_of(M, {'backend_cfg.apply_known': 'SrcFile', 'backend_cfg.apply_env': 'SrcEnv', 'main_parser.parse_known_args': 'SrcCli'})
    out.append(f'Definition general_source_order : list src := [{"; ".join(gen)}].')
    out.append(f'Definition backend_source_order : list src := [{"; ".join(bck)}].')
    # -r on the command line decides the backend: the override sits between apply_env and load_backend
    seq = order_of(M, {'cfg.apply_env': 'env', 'utils.load_backend': 'load'})
    ov = [n for n in ast.walk(M) if isinstance(n, ast.If) and ast.unparse(n.test) == 'args.repository is not None']
    ok = (seq == ['env', 'load'] and len(ov) == 1 and ast.unparse(ov[0].body[0]) == 'cfg.repository = args.repository'
          and ast.unparse(M).index('cfg.apply_env()') < ast.unparse(M).index('if args.repository is not None') < ast.unparse(M).index('utils.load_backend('))
    out.append(f'Definition cli_repository_selects_backend : bool := {"true" if ok else "false"}.')
    # parser-level defaults: cfg then backend_cfg, given to make_main_parser, whose sub-parsers call set_defaults
    msrc = ast.unparse(M)
    ok = ('defaults = cfg.dict()' in msrc and 'defaults.update(backend_cfg.dict())' in msrc and 'defaults=defaults' in msrc
          and 'cli.parser_for_backend(backend_type)' in msrc)
    mm = ast.unparse(pyast.find_func(cli, 'make_main_parser'))
    ok = ok and mm.count('.set_defaults(**defaults)') == mm.count('subparsers.add_parser(') and mm.count('parents=parent_parsers') == mm.count('subparsers.add_parser(')
    out.append(f'Definition config_values_become_parser_defaults : bool := {"true" if ok else "false"}.')
    # read_config: the default section updated by the profile
    rc = ast.unparse(pyast.find_func(cfg, 'read_config'))
    if 'defaults = sections[DEFAULTS_SECTION]' in rc and 'defaults.update(sections[profile])' in rc and 'return defaults' in rc:
        out.append('Definition file_merge_order : list section := [SecDefault; SecProfile].')
    else:
        raise ValueError('read_config has an unexpected shape')
    # backend options: hyphenated key + guess_type in the file, SHORTNAME_OPTION + guess_type in the environment,
    # --hyphenated-flag with type=guess_type on the command line
    B = pyast.find_class(cfg, 'BaseBackendConfig')
    ak, ae = ast.unparse(pyast.find_func(B, 'apply_known')), ast.unparse(pyast.find_func(B, 'apply_env'))
    beo = ast.unparse(pyast.find_func(cfg, 'backend_env_option'))
    pfb = ast.unparse(pyast.find_func(cli, 'parser_for_backend'))
    shape = ("hyphenated_name = field.name.replace('_', '-')" in ak and 'self.popset(remaining, hyphenated_name, guess_type, field=field.name)' in ak
             and 'env_name = backend_env_option(self.backend_type, field.name)' in ae
             and 'self.getset(os.environ, env_name, guess_type, field=field.name)' in ae
             and "return f'{backend_type.short_name}_{option_name}'.upper()" in beo
             and "name = name.replace('_', '-')" in pfb and "group.add_argument(f'--{name}', default=default, type=guess_type, help=help)" in pfb
             and 'arg.kind is not arg.KEYWORD_ONLY' in pfb)
    if not shape:
        raise ValueError('backend option handling has an unexpected shape')
    out.append('Definition backend_coercions : coercion * coercion * coercion := (CoGuessCli, CoGuessCfg, CoGuessCfg).')
    # guess_type: non-strings unchanged, keywords, literal_eval, else the string itself
    g = pyast.find_func(utils, 'guess_type')
    gs = [ast.unparse(s) for s in g.body]
    passes = gs[0].startswith('if not isinstance(value, str):') and 'return value' in gs[0]
    rest = gs[1:] if passes else gs
    if not (rest[0].startswith("if value.lower() in {'none', 'false', 'true'}:") and 'value = value.title()' in rest[0]
            and rest[1].startswith('try:') and 'return ast.literal_eval(value)' in rest[1]
            and 'except (ValueError, SyntaxError):' in rest[1] and len(rest) == 2):
        raise ValueError('guess_type has an unexpected shape')
    out.append(f'Definition guess_type_passes_non_str : bool := {"true" if passes else "false"}.')
    # the prefix of a backend's environment variables is its OWN class name unless the class statement passes short_name=
    base = pyast.module('replicat/backends/base.py')
    isc = pyast.find_func(pyast.find_class(base, 'Backend'), '__init_subclass__')
    own = [ast.unparse(st) for st in isc.body if isinstance(st, ast.If) and ast.unparse(st.test) == 'short_name is None']
    ok = (len(own) == 1 and own[0] == 'if short_name is None:\n    short_name = cls.__name__'
          and 'cls.short_name = short_name' in [ast.unparse(st) for st in isc.body]
          and [a.arg for a in isc.args.args][:1] == ['short_name'] and ast.unparse(isc.args.defaults[0]) == 'None'
          and len(isc.args.defaults) == len(isc.args.args))
    out.append(f'Definition env_prefix_is_own_class_name : bool := {"true" if ok else "false"}.')
    specs = backend_specs()
    out.append('Definition backends : list (string * string * list (string * option value)) := [')
    out.append(';\n'.join(f'  ({coq_str(m)}, {coq_str(s)}, [{"; ".join(f"({coq_str(p)}, {d})" for p, d in ps)}])' for m, s, ps in specs))
    out.append('].')
    return '\n'.join(out) + '\n'
