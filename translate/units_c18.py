"""C18 source facts -> coq/Gen/CacheFacts.v : how _download_snapshot_threadsafe / _load_snapshots use the
local cache (DESIGN.md C18).  Fail closed."""
import ast
from . import pyast
from .units import unit
from .symterm import Untranslatable, attr_chain, coq_bool
from .units_c04 import download_snapshot_flow, _repo_class


def _calls(node, chain):
    return [n for n in ast.walk(node) if isinstance(n, ast.Call) and attr_chain(n.func) == chain]


def only_listed_paths_loaded():
    """_get_cached is reached only through _download_snapshot_threadsafe <- _download_snapshot <- the loop over
    backend.list_files(SNAPSHOT_PREFIX) in _load_snapshots"""
    R = _repo_class()
    users = [f.name for f in ast.walk(R) if isinstance(f, (ast.FunctionDef, ast.AsyncFunctionDef)) and _calls(f, ['self', '_get_cached'])
             and not any(isinstance(g, (ast.FunctionDef, ast.AsyncFunctionDef)) and g is not f and _calls(g, ['self', '_get_cached']) for g in ast.walk(f))]
    if users != ['_download_snapshot_threadsafe']:
        return False
    callers = [f.name for f in ast.walk(R) if isinstance(f, (ast.FunctionDef, ast.AsyncFunctionDef)) and f.name != '_load_snapshots'
               and _calls(f, ['self', '_download_snapshot_threadsafe'])]
    if callers != ['_download_snapshot']:
        return False
    ls = pyast.find_func(R, '_load_snapshots')
    loops = [n for n in ast.walk(ls) if isinstance(n, ast.AsyncFor)]
    for lp in loops:
        it = lp.iter
        if (isinstance(it, ast.Call) and attr_chain(it.func) == ['self', '_aiter'] and len(it.args) == 2
                and attr_chain(it.args[0]) == ['self', 'backend', 'list_files'] and attr_chain(it.args[1]) == ['self', 'SNAPSHOT_PREFIX']
                and isinstance(lp.target, ast.Name)):
            subs = [c for c in ast.walk(lp) if isinstance(c, ast.Call) and any(isinstance(a, ast.Name) and a.id == '_download_snapshot' for a in c.args)]
            if subs and all(isinstance(c.args[-1], ast.Name) and c.args[-1].id == lp.target.id for c in subs):
                # and no other use of _download_snapshot in _load_snapshots
                uses = [n for n in ast.walk(ls) if isinstance(n, ast.Name) and n.id == '_download_snapshot']
                return len(uses) == len(subs)
    return False


@unit('CacheFacts')
def cache_facts():
    flow = download_snapshot_flow()
    covers_cached = 'cached' not in flow.use_tags and 'none' not in flow.use_tags
    stores_verified = bool(flow.store_tags) and flow.store_tags <= {'verified'}
    out = ['From Coq Require Import Bool.', '',
           '(* _download_snapshot_threadsafe: bytes read from the cache reach _decrypt_snapshot_body only after',
           '   hash_digest(contents) was compared with the expected digest *)',
           f'Definition digest_check_covers_cached : bool := {coq_bool(covers_cached)}.',
           '(* only bytes that passed the comparison are written into the cache *)',
           f'Definition cache_stores_only_verified : bool := {coq_bool(stores_verified)}.',
           '(* the cache is consulted only for paths returned by backend.list_files(SNAPSHOT_PREFIX) *)',
           f'Definition cache_read_only_for_listed : bool := {coq_bool(only_listed_paths_loaded())}.']
    return '\n'.join(out) + '\n'
