"""C16 translated unit: coq/Gen/SigV4Gen.v from replicat/backends/s3c.py (string assembly of the SigV4 signature,
the shape of _prepare_request, the request each adapter method makes) and s3.py (the AWS endpoint name).
Fail closed: any statement/expression outside the small whitelist raises."""
import ast

from . import pyast
from .units import unit

S3C = 'replicat/backends/s3c.py'
S3 = 'replicat/backends/s3.py'


class Shape(Exception):
    pass


def need(cond, msg):
    if not cond:
        raise Shape(msg)


def lit(s):
    """Gallina term for a constant str/bytes"""
    if isinstance(s, str):
        s = s.encode()
    if s == b'\n':
        return 'nl'
    if s == b'':
        return '[]'
    if all(32 <= c < 127 for c in s):
        return '(b "' + s.decode().replace('"', '""') + '")'
    return '(bs [' + '; '.join(str(c) for c in s) + '])'


def cat(parts):
    parts = [p for p in parts if p != '[]']
    if not parts:
        return '[]'
    if len(parts) == 1:
        return parts[0]
    return '(' + ' ++ '.join(parts) + ')'


STRFTIME = {'%Y%m%d': 'now_ymd', '%H%M%S': 'now_hms'}


class Ex:
    """expression translator.  names: python name -> Gallina identifier; funcs: module-level helper -> (gallina name, [param names])"""

    def __init__(self, names, funcs):
        self.names, self.funcs = names, funcs

    def strftime(self, spec):
        out, i = [], 0
        while i < len(spec):
            for k, v in STRFTIME.items():
                if spec.startswith(k, i):
                    out.append(v)
                    i += len(k)
                    break
            else:
                need(spec[i] != '%', f'strftime directive not in the whitelist: {spec}')
                j = i
                while j < len(spec) and spec[j] != '%':
                    j += 1
                out.append(lit(spec[i:j]))
                i = j
        return cat(out)

    def fstring(self, n):
        parts = []
        for v in n.values:
            if isinstance(v, ast.Constant):
                parts.append(lit(v.value))
            else:
                need(isinstance(v, ast.FormattedValue) and v.conversion == -1, f'f-string conversion: {pyast.unparse(n)}')
                if v.format_spec is not None:
                    need(isinstance(v.value, ast.Name) and v.value.id == 'now' and len(v.format_spec.values) == 1
                         and isinstance(v.format_spec.values[0], ast.Constant), f'format spec: {pyast.unparse(n)}')
                    parts.append(self.strftime(v.format_spec.values[0].value))
                else:
                    parts.append(self.expr(v.value))
        return cat(parts)

    def expr(self, n):
        src = pyast.unparse(n)
        if src in self.names:
            return self.names[src]
        if isinstance(n, ast.Constant) and isinstance(n.value, (str, bytes)):
            return lit(n.value)
        if isinstance(n, ast.JoinedStr):
            return self.fstring(n)
        if isinstance(n, ast.BinOp) and isinstance(n.op, ast.Add):
            return cat([self.expr(n.left), self.expr(n.right)])
        if isinstance(n, ast.Dict):
            need(all(isinstance(k, ast.Constant) and isinstance(k.value, str) for k in n.keys), f'dict keys: {src}')
            return '[' + '; '.join(f'({lit(k.value)}, {self.expr(v)})' for k, v in zip(n.keys, n.values)) + ']'
        if isinstance(n, ast.Call):
            f = n.func
            fsrc = pyast.unparse(f)
            # sep.join(...)
            if isinstance(f, ast.Attribute) and f.attr == 'join' and isinstance(f.value, ast.Constant) and len(n.args) == 1 and not n.keywords:
                sep = lit(f.value.value)
                a = n.args[0]
                if isinstance(a, ast.List):
                    return f'(join {sep} [' + '; '.join(self.expr(e) for e in a.elts) + '])'
                if isinstance(a, ast.GeneratorExp):
                    need(len(a.generators) == 1 and not a.generators[0].ifs and not a.generators[0].is_async, f'generator: {src}')
                    g = a.generators[0]
                    need(isinstance(g.target, ast.Tuple) and all(isinstance(e, ast.Name) for e in g.target.elts) and len(g.target.elts) == 2
                         and isinstance(g.iter, ast.Call) and isinstance(g.iter.func, ast.Attribute) and g.iter.func.attr == 'items'
                         and not g.iter.args, f'generator: {src}')
                    k, v = (e.id for e in g.target.elts)
                    inner = Ex(dict(self.names, **{k: '(fst kv)', v: '(snd kv)'}), self.funcs)
                    return f'(join {sep} (map (fun kv => {inner.expr(a.elt)}) {self.expr(g.iter.func.value)}))'
                if isinstance(a, ast.Name):     # iterating a dict yields its keys
                    return f'(join {sep} (map fst {self.expr(a)}))'
                raise Shape(f'join argument: {src}')
            if fsrc == 'quote' and len(n.args) == 1 and not n.keywords:
                return f'(py_quote (b "/") {self.expr(n.args[0])})'          # quote(s): safe defaults to "/"
            if fsrc == 'urlencode':
                need(len(n.args) == 1 and [(k.arg, pyast.unparse(k.value)) for k in n.keywords] == [('quote_via', 'quote')],
                     f'urlencode call shape: {src}')
                a = n.args[0]
                need(isinstance(a, ast.Call) and pyast.unparse(a.func) == 'sorted' and len(a.args) == 1 and not a.keywords
                     and isinstance(a.args[0], ast.Call) and isinstance(a.args[0].func, ast.Attribute) and a.args[0].func.attr == 'items',
                     f'urlencode argument: {src}')
                return f'(urlencode_quote (sorted_items {self.expr(a.args[0].func.value)}))'
            if isinstance(f, ast.Attribute) and f.attr == 'encode' and not n.args and not n.keywords:
                return self.expr(f.value)                                   # str -> UTF-8 bytes: strings are byte strings in the model
            if isinstance(f, ast.Attribute) and f.attr == 'hex' and not n.args and not n.keywords:
                return f'(hex {self.expr(f.value)})'
            if fsrc == '_get_data_hexdigest' and len(n.args) == 1 and not n.keywords:
                return f'(sha256hex {self.expr(n.args[0])})'
            if fsrc == '_hmac_sha256_digest' and len(n.args) == 2 and not n.keywords:
                return f'(hmac {self.expr(n.args[0])} {self.expr(n.args[1])})'
            if fsrc == 'str' and len(n.args) == 1 and is_call(n.args[0], 'len') and not n.keywords:
                return f'(py_str_len {self.expr(n.args[0].args[0])})'
            if fsrc == 'str' and len(n.args) == 1 and isinstance(n.args[0], ast.Name) and not n.keywords:
                return f'(py_str_N {self.expr(n.args[0])})'
            if fsrc in self.funcs:
                gname, params = self.funcs[fsrc]
                given = {}
                need(len(n.args) <= len(params), f'too many arguments: {src}')
                for p, a in zip(params, n.args):
                    given[p] = self.expr(a)
                for k in n.keywords:
                    need(k.arg in params and k.arg not in given, f'keyword {k.arg}: {src}')
                    given[k.arg] = self.expr(k.value)
                need(set(given) == set(params), f'arguments of {fsrc}: {src}')
                return '(' + gname + ' ' + ' '.join(given[p] for p in params) + ')'
        raise Shape(f'expression not in the whitelist: {src}')


def is_call(n, name):
    return isinstance(n, ast.Call) and pyast.unparse(n.func) == name and len(n.args) == 1 and not n.keywords


def params_of(fn, drop_self=False):
    a = fn.args
    need(not a.vararg and not a.posonlyargs, f'{fn.name}: signature')
    ps = [x.arg for x in a.args] + [x.arg for x in a.kwonlyargs]
    if drop_self:
        need(ps and ps[0] == 'self', f'{fn.name}: not a method')
        ps = ps[1:]
    return ps


def tr_simple(fn, gname, funcs, ptypes=None):
    """module-level helper: assignments, +=, return"""
    ps = params_of(fn)
    names = {p: p for p in ps}
    ex = Ex(names, funcs)
    lines = []
    for st in fn.body:
        if isinstance(st, ast.Assign) and len(st.targets) == 1 and isinstance(st.targets[0], ast.Name):
            v = ex.expr(st.value)
            names[st.targets[0].id] = st.targets[0].id
            lines.append(f'let {st.targets[0].id} := {v} in')
        elif isinstance(st, ast.AugAssign) and isinstance(st.target, ast.Name) and isinstance(st.op, ast.Add):
            lines.append(f'let {st.target.id} := {cat([names[st.target.id], ex.expr(st.value)])} in')
        elif isinstance(st, ast.Return) and st is fn.body[-1]:
            lines.append(ex.expr(st.value))
        else:
            raise Shape(f'{fn.name}: statement not in the whitelist: {pyast.unparse(st).splitlines()[0]}')
    need(isinstance(fn.body[-1], ast.Return), f'{fn.name}: no final return')
    sig = ' '.join(f'({p} : {(ptypes or {}).get(p, "bytes")})' for p in ps)
    return f'Definition {gname} {sig} : bytes :=\n  ' + '\n  '.join(lines) + '.', ps


SELF = {'self.host': 'self_host', 'self.region': 'self_region', 'self.key_id': 'self_key_id', 'self.access_key': 'self_access_key',
        'self.url': 'self_url', 'self.bucket_name': 'self_bucket_name'}


def assigned(stmts):
    out = []
    for st in stmts:
        if isinstance(st, ast.Assign) and len(st.targets) == 1 and isinstance(st.targets[0], ast.Name):
            t = st.targets[0].id
        elif isinstance(st, ast.AugAssign) and isinstance(st.target, ast.Name):
            t = st.target.id
        else:
            raise Shape(f'branch statement not in the whitelist: {pyast.unparse(st).splitlines()[0]}')
        if t not in out:
            out.append(t)
    return out


def tr_prepare(fn, funcs):
    """S3Compatible._prepare_request -> (method, url, headers)"""
    ps = params_of(fn, drop_self=True)
    need(ps == ['method', 'canonical_uri', 'query', 'payload_digest', 'headers'] and fn.args.kwarg and fn.args.kwarg.arg == 'kwargs',
         f'_prepare_request: parameters {ps}')
    names = dict(SELF)
    names.update({'method': 'method', 'canonical_uri': 'canonical_uri', 'query': 'query', 'payload_digest': 'payload_digest', 'headers': 'headers'})
    ex = Ex(names, funcs)
    lines = []

    def simple(st, out):
        if isinstance(st, ast.Assign) and len(st.targets) == 1 and isinstance(st.targets[0], ast.Name):
            v = ex.expr(st.value)
            names[st.targets[0].id] = st.targets[0].id
            out.append(f'let {st.targets[0].id} := {v} in')
        elif isinstance(st, ast.AugAssign) and isinstance(st.target, ast.Name) and isinstance(st.op, ast.Add):
            out.append(f'let {st.target.id} := {cat([names[st.target.id], ex.expr(st.value)])} in')
        else:
            raise Shape(f'_prepare_request: statement not in the whitelist: {pyast.unparse(st).splitlines()[0]}')

    for st in fn.body:
        src = pyast.unparse(st)
        if isinstance(st, ast.Expr) and isinstance(st.value, ast.Constant):
            continue
        if src == 'now = datetime.utcnow()':
            continue          # the clock is an input of the model: now_ymd / now_hms are its strftime renderings
        if isinstance(st, ast.If) and pyast.unparse(st.test) == 'headers is None':
            need(len(st.body) == 1 and pyast.unparse(st.body[0]) == 'headers = {}' and not st.orelse, '_prepare_request: headers default')
            continue          # None and {} are both the empty association list in the model
        if isinstance(st, ast.If) and pyast.unparse(st.test) == 'query':
            vs = assigned(st.body)
            for v in assigned(st.orelse):
                if v not in vs:
                    vs.append(v)
            for v in vs:
                need(v in names or all(v in assigned(bch) for bch in (st.body, st.orelse)), f'_prepare_request: {v} not assigned on both branches')
            tup = '(' + ', '.join(vs) + ')'
            saved = dict(names)
            th = []
            for s2 in st.body:
                simple(s2, th)
            names.clear(); names.update(saved)
            el = []
            for s2 in st.orelse:
                simple(s2, el)
            for v in vs:
                names[v] = v
            lines.append(f"let '{tup} :=")
            lines.append('  if truthy query then ' + ' '.join(th) + ' ' + tup)
            lines.append('  else ' + ' '.join(el) + ' ' + tup + ' in')
            continue
        if isinstance(st, ast.Assign) and len(st.targets) == 1 and isinstance(st.targets[0], ast.Subscript):
            t = st.targets[0]
            need(pyast.unparse(t.value) == 'headers' and isinstance(t.slice, ast.Constant) and isinstance(t.slice.value, str),
                 f'_prepare_request: {src}')
            lines.append(f'let headers := dict_set headers {lit(t.slice.value)} {ex.expr(st.value)} in')
            continue
        if isinstance(st, ast.Return):
            need(st is fn.body[-1] and src == 'return self._client.build_request(method, url, headers=headers, **kwargs)',
                 f'_prepare_request: {src}')
            lines.append('(method, url, headers)')
            continue
        simple(st, lines)
    need(isinstance(fn.body[-1], ast.Return), '_prepare_request: no final return')
    head = ('Definition prepare_request (now_ymd now_hms : bytes) (method canonical_uri : bytes) (query : list (bytes * bytes)) '
            '(payload_digest : bytes) (headers : list (bytes * bytes)) : bytes * bytes * list (bytes * bytes) :=')
    return head + '\n  ' + '\n  '.join(lines) + '.'


def passes_through(cls, name):
    """_make_request / _make_streaming_request hand their arguments to _prepare_request unchanged"""
    fn = pyast.find_func(cls, name)
    want = ('self._prepare_request(method, canonical_uri, query=query, payload_digest=payload_digest, headers=headers, **kwargs)')
    calls = [n for n in ast.walk(fn) if isinstance(n, ast.Call) and pyast.unparse(n.func) == 'self._prepare_request']
    need(len(calls) == 1 and pyast.unparse(calls[0]) == want, f'{name}: does not pass its arguments to _prepare_request unchanged')
    need(params_of(fn, drop_self=True) == ['method', 'canonical_uri', 'query', 'payload_digest', 'headers'], f'{name}: parameters')
    sends = [n for n in ast.walk(fn) if isinstance(n, ast.Call) and pyast.unparse(n.func) == 'self._client.send']
    need(len(sends) == 1 and pyast.unparse(sends[0].args[0]) == 'request', f'{name}: the prepared request is not what is sent')


def tr_op(cls, mname, gname, funcs, params, ptypes, via):
    """the single request an adapter method makes -> prepare_request applied"""
    fn = pyast.find_func(cls, mname)
    calls = [n for n in ast.walk(fn) if isinstance(n, ast.Call) and pyast.unparse(n.func) == f'self.{via}']
    need(len(calls) == 1, f'{mname}: expected exactly one self.{via} call')
    c = calls[0]
    need(len(c.args) == 2 and isinstance(c.args[0], ast.Constant), f'{mname}: request call shape')
    names = dict(SELF)
    names.update({p: p for p in params})
    names['_empty_payload_digest'] = 'empty_payload_digest'
    ex = Ex(names, funcs)
    kw = {k.arg: k.value for k in c.keywords}
    need(set(kw) <= {'payload_digest', 'headers', 'query', 'content'} and 'payload_digest' in kw, f'{mname}: keywords {sorted(kw)}')
    query = ex.expr(kw['query']) if 'query' in kw else '[]'
    headers = ex.expr(kw['headers']) if 'headers' in kw else '[]'
    sig = ' '.join(f'({p} : {ptypes.get(p, "bytes")})' for p in params)
    body = (f'prepare_request now_ymd now_hms {lit(c.args[0].value)} {ex.expr(c.args[1])} {query} '
            f'{ex.expr(kw["payload_digest"])} {headers}')
    content = pyast.unparse(kw['content']) if 'content' in kw else None
    return f'Definition {gname} (now_ymd now_hms : bytes) {sig} : bytes * bytes * list (bytes * bytes) :=\n  {body}.', content


def tr_list_query(cls):
    fn = pyast.find_func(cls, '_list_objects')
    need(params_of(fn, drop_self=True) == ['continuation_token', 'prefix'], '_list_objects: parameters')
    ex = Ex({'continuation_token': 'token', 'prefix': 'prefix'}, {})
    lines = []
    got_call = False
    for st in fn.body:
        src = pyast.unparse(st)
        if isinstance(st, ast.Assign) and pyast.unparse(st.targets[0]) == 'query' and isinstance(st.value, ast.Dict):
            lines.append(f'let query := {ex.expr(st.value)} in')
        elif isinstance(st, ast.If) and src.startswith('if continuation_token is not None:'):
            need(len(st.body) == 1 and pyast.unparse(st.body[0]) == "query['continuation-token'] = continuation_token" and not st.orelse, src)
            lines.append(f'let query := match continuation_token with Some token => dict_set query {lit("continuation-token")} token | None => query end in')
        elif isinstance(st, ast.If) and src.startswith('if prefix:'):
            need(len(st.body) == 1 and pyast.unparse(st.body[0]) == "query['prefix'] = prefix" and not st.orelse, src)
            lines.append(f'let query := if truthy prefix then dict_set query {lit("prefix")} prefix else query in')
        elif isinstance(st, ast.Return):
            got_call = True
        else:
            raise Shape(f'_list_objects: statement not in the whitelist: {src.splitlines()[0]}')
    need(got_call, '_list_objects: no return')
    lines.append('query')
    return ('Definition list_objects_query (continuation_token : option bytes) (prefix : bytes) : list (bytes * bytes) :=\n  '
            + '\n  '.join(lines) + '.')


@unit('SigV4Gen')
def sigv4_gen():
    tree = pyast.module(S3C)
    cls = pyast.find_class(tree, 'S3Compatible')
    out = ['From Coq Require Import List NArith Bool String.', 'From Coq Require Import Strings.Byte.',
           'From Replicat Require Import Model.SigV4Prims.', 'Import ListNotations.', '',
           'Section SigV4Gen.',
           '(* hashlib / hmac primitives: arbitrary *)',
           'Variable sha256hex : bytes -> bytes.      (* hashlib.sha256(x).hexdigest() *)',
           'Variable hmac : bytes -> bytes -> bytes.  (* hmac.new(key, msg, sha256).digest() *)',
           'Variable hex : bytes -> bytes.            (* bytes.hex() *)', '']
    # the helper bodies really are the hashlib/hmac calls the variables stand for
    need([pyast.unparse(s) for s in pyast.find_func(tree, '_get_data_hexdigest').body] == ['return hashlib.sha256(data).hexdigest()'],
         '_get_data_hexdigest body')
    need([pyast.unparse(s) for s in pyast.find_func(tree, '_hmac_sha256_digest').body] == ['return hmac.new(key, message, hashlib.sha256).digest()'],
         '_hmac_sha256_digest body')
    funcs = {}
    for py, g in (('_make_signature_key', 'make_signature_key'), ('_make_canonical_headers', 'make_canonical_headers'),
                  ('_make_credential_scope', 'make_credential_scope'), ('_make_canonical_request', 'make_canonical_request'),
                  ('_make_string_to_sign', 'make_string_to_sign')):
        fn = pyast.find_func(tree, py)
        ptypes = {'headers': 'list (bytes * bytes)'}
        text, ps = tr_simple(fn, g, funcs, ptypes)
        out.append(text)
        funcs[py] = (g, ps)
    need(pyast.unparse(next(s for s in tree.body if isinstance(s, ast.Assign) and pyast.unparse(s.targets[0]) == '_empty_payload_digest').value)
         == "_get_data_hexdigest(b'')", '_empty_payload_digest')
    out.append('Definition empty_payload_digest : bytes := sha256hex [].')
    out.append('')
    out.append('(* the adapter instance *)')
    out.append('Variables self_host self_region self_key_id self_access_key self_url self_bucket_name : bytes.')
    init = [pyast.unparse(s) for s in pyast.find_func(cls, '__init__').body]
    for line in ('self.bucket_name = connection_string', 'self.key_id = key_id', 'self.access_key = access_key', 'self.region = region',
                 'self.host = host', "self.url = f'{scheme}://' + self.host"):
        need(line in init, f'S3Compatible.__init__: missing "{line}"')
    out.append(tr_prepare(pyast.find_func(cls, '_prepare_request'), funcs))
    passes_through(cls, '_make_request')
    passes_through(cls, '_make_streaming_request')
    out.append(tr_list_query(cls))
    ops = [('exists', 'op_exists', ['name'], {}, '_make_request'),
           ('_put_object', 'op_put_object', ['name', 'data', 'payload_digest'], {}, '_make_request'),
           ('_put_object_stream', 'op_put_object_stream', ['name', 'length', 'payload_digest'], {'length': 'N'}, '_make_request'),
           ('download', 'op_download', ['name'], {}, '_make_request'),
           ('download_stream', 'op_download_stream', ['name'], {}, '_make_streaming_request'),
           ('delete', 'op_delete', ['name'], {}, '_make_request'),
           ('_list_objects', 'op_list_objects', ['query'], {'query': 'list (bytes * bytes)'}, '_make_request')]
    contents = {}
    for m, g, ps, pt, via in ops:
        text, content = tr_op(cls, m, g, funcs, ps, pt, via)
        out.append(text)
        contents[m] = content
    need(contents['_put_object'] == 'data' and contents['_put_object_stream'] == 'utils.aiter_chunks(stream, chunk_size=chunk_size)'
         and all(v is None for k, v in contents.items() if not k.startswith('_put')), f'request bodies: {contents}')
    # upload / upload_stream: the digest handed to the request is the digest of the data / of the stream
    up = [pyast.unparse(s) for s in pyast.find_func(cls, 'upload').body]
    need(up == ['payload_digest = _get_data_hexdigest(data)', 'await self._put_object(name, data, payload_digest)'], f'upload body {up}')
    ups = [pyast.unparse(s) for s in pyast.find_func(cls, 'upload_stream').body]
    need(ups == ['payload_digest = _get_stream_hexdigest(stream)',
                 'await self._put_object_stream(name, stream, length=length, payload_digest=payload_digest, chunk_size=chunk_size)'],
         f'upload_stream body {ups}')
    sd = [pyast.unparse(s) for s in pyast.find_func(tree, '_get_stream_hexdigest').body]
    need(sd == ['hasher = hashlib.sha256()', 'chunk_size = hasher.block_size * 10000',
                "for chunk in iter(lambda: stream.read(chunk_size), b''):\n    hasher.update(chunk)", 'stream.seek(0)', 'return hasher.hexdigest()'],
         f'_get_stream_hexdigest body {sd}')
    out.append('End SigV4Gen.')
    out.append('')
    out.append('(* source facts *)')
    # the HTTP client only ever sends requests the adapter prepared (and signed): it is not told to follow redirects, and
    # the response hook turns every non-success answer (3xx included) into an exception
    ctor = [n for n in ast.walk(pyast.find_func(cls, '__init__')) if isinstance(n, ast.Call) and pyast.unparse(n.func) == 'httpx.AsyncClient']
    need(len(ctor) == 1 and not ctor[0].args
         and sorted((k.arg, pyast.unparse(k.value)) for k in ctor[0].keywords)
         == [('event_hooks', "{'response': [_raise_for_status_hook]}"), ('timeout', 'None')],
         'S3Compatible.__init__: httpx.AsyncClient is not constructed with exactly timeout=None and the raise-for-status response hook')
    hook = pyast.find_func(tree, '_raise_for_status_hook')
    need(len(hook.body) == 1 and isinstance(hook.body[0], ast.Try)
         and [pyast.unparse(x) for x in hook.body[0].body] == ['response.raise_for_status()']
         and len(hook.body[0].handlers) == 1 and pyast.unparse(hook.body[0].handlers[0].type) == 'httpx.HTTPStatusError'
         and isinstance(hook.body[0].handlers[0].body[-1], ast.Raise) and hook.body[0].handlers[0].body[-1].exc is None
         and not hook.body[0].orelse and not hook.body[0].finalbody,
         '_raise_for_status_hook: does not raise for every non-success response')
    need(sum(1 for n in ast.walk(tree) if isinstance(n, ast.Call) and pyast.unparse(n.func) == 'self._client.send') == 2,
         'requests are sent from places other than _make_request/_make_streaming_request')
    out.append('Definition client_sends_only_prepared_requests : bool := true.')
    out.append('Definition stream_digest_reads_to_eof_then_rewinds : bool := true.')
    # the AWS endpoint
    s3 = pyast.module(S3)
    init = pyast.find_func(pyast.find_class(s3, 'S3'), '__init__')
    kw = None
    for n in ast.walk(init):
        if isinstance(n, ast.Call) and pyast.unparse(n.func) == 'super().__init__':
            kw = {k.arg: k.value for k in n.keywords}
    need(kw is not None and pyast.unparse(kw['host']) == "f's3.{region}.amazonaws.com'" and 'scheme' not in kw, 's3.S3.__init__: endpoint')
    out.append('Definition aws_host (region : bytes) : bytes := ' + Ex({'region': 'region'}, {}).expr(kw['host']) + '.')
    return '\n'.join(out) + '\n'
