"""Python expression (ast) -> Gallina term over Z / bool.  Whitelisted node shapes only; anything
else raises (fail closed).  `env` maps source spellings (ast.unparse of a Name/Attribute/Subscript)
to Coq identifiers."""
import ast


class Untranslatable(Exception):
    pass


def z(node, env):
    src = ast.unparse(node)
    if src in env:
        return env[src]
    if isinstance(node, ast.Constant) and isinstance(node.value, int) and not isinstance(node.value, bool):
        return f'({node.value})' if node.value < 0 else str(node.value)
    if isinstance(node, ast.UnaryOp) and isinstance(node.op, ast.USub):
        return f'(- {z(node.operand, env)})'
    if isinstance(node, ast.BinOp):
        a, b = z(node.left, env), z(node.right, env)
        op = {ast.Add: '+', ast.Sub: '-', ast.Mult: '*'}.get(type(node.op))
        if op:
            return f'({a} {op} {b})'
        if isinstance(node.op, ast.FloorDiv):
            return f'({a} / {b})'          # Z.div floors like Python for positive divisors
        if isinstance(node.op, ast.Mod):
            return f'({a} mod {b})'        # Z.modulo has the sign of the divisor like Python
        if isinstance(node.op, ast.BitAnd):
            return f'(Z.land {a} {b})'
    if isinstance(node, ast.Call) and isinstance(node.func, ast.Name) and not node.keywords:
        if node.func.id in ('max', 'min') and len(node.args) >= 2:
            f = 'Z.max' if node.func.id == 'max' else 'Z.min'
            acc = z(node.args[0], env)
            for a in node.args[1:]:
                acc = f'({f} {acc} {z(a, env)})'
            return acc
        if node.func.id == 'len' and len(node.args) == 1:
            key = f'len({ast.unparse(node.args[0])})'
            if key in env:
                return env[key]
    if isinstance(node, ast.IfExp):
        return f'(if {b(node.test, env)} then {z(node.body, env)} else {z(node.orelse, env)})'
    raise Untranslatable(f'expression not in the translatable fragment: {src}')


def b(node, env):
    src = ast.unparse(node)
    if src in env:
        return env[src]
    if isinstance(node, ast.Compare) and len(node.ops) == 1:
        l, r = z(node.left, env), z(node.comparators[0], env)
        t = type(node.ops[0])
        if t is ast.Lt:
            return f'({l} <? {r})'
        if t is ast.LtE:
            return f'({l} <=? {r})'
        if t is ast.Gt:
            return f'({r} <? {l})'
        if t is ast.GtE:
            return f'({r} <=? {l})'
        if t is ast.Eq:
            return f'({l} =? {r})'
        if t is ast.NotEq:
            return f'(negb ({l} =? {r}))'
    if isinstance(node, ast.BoolOp):
        parts = [b(v, env) for v in node.values]
        op = ' && ' if isinstance(node.op, ast.And) else ' || '
        return '(' + op.join(parts) + ')'
    if isinstance(node, ast.UnaryOp) and isinstance(node.op, ast.Not):
        return f'(negb {b(node.operand, env)})'
    if isinstance(node, ast.Constant) and isinstance(node.value, bool):
        return 'true' if node.value else 'false'
    raise Untranslatable(f'condition not in the translatable fragment: {src}')
