"""C14 translated units.

LocationGen: the four location functions and the two digest -> (name, tag) functions of
replicat/repository.py as Gallina over Lib/PyStr.
BodyGen: _encrypt_snapshot_body / _decrypt_snapshot_body as symbolic terms (which key encrypts which
field), the chunk encryption key, restore_metadata, type_hint / type_reverse and the facts about
serialize / deserialize / mac / derive_shared_subkey / the use of metadata in restore.

Everything is read off the AST; any other shape raises (fail closed)."""
import ast
from . import pyast
from .units import unit, coq_str


class Shape(Exception):
    pass


def need(cond, msg):
    if not cond:
        raise Shape(msg)


def _body(fn):
    """function body without the docstring and logger calls"""
    out = []
    for n in fn.body:
        if isinstance(n, ast.Expr) and isinstance(n.value, ast.Constant) and isinstance(n.value.value, str):
            continue
        if isinstance(n, ast.Expr) and isinstance(n.value, ast.Call) and ast.unparse(n.value.func).startswith('logger.'):
            continue
        out.append(n)
    return out


def _const_str(node):
    need(isinstance(node, ast.Constant) and isinstance(node.value, str), f'string constant expected: {ast.unparse(node)}')
    return node.value


def _char(node):
    s = _const_str(node)
    need(len(s) == 1, f'one-character separator expected: {s!r}')
    return coq_str(s) + '%char'


def _nat(node):
    need(isinstance(node, ast.Constant) and isinstance(node.value, int) and not isinstance(node.value, bool) and node.value >= 0,
         f'non-negative integer constant expected: {ast.unparse(node)}')
    return node.value


# ------------------------------------------------------------------ str expressions
CONSTS = {'self.CHUNK_PREFIX': 'CHUNK_PREFIX', 'self.SNAPSHOT_PREFIX': 'SNAPSHOT_PREFIX'}


def sexpr(node, env):
    """Python str expression -> Gallina term of type string"""
    src = ast.unparse(node)
    if src in CONSTS:
        return CONSTS[src]
    if isinstance(node, ast.Name):
        need(env.get(node.id) == 'str', f'unknown str variable {node.id}')
        return node.id
    if isinstance(node, ast.Constant) and isinstance(node.value, str):
        return coq_str(node.value)
    if isinstance(node, ast.Subscript) and isinstance(node.slice, ast.Slice):
        sl = node.slice
        need(sl.step is None, 'slice step')
        lo = f'(Some {_nat(sl.lower)})' if sl.lower is not None else 'None'
        hi = f'(Some {_nat(sl.upper)})' if sl.upper is not None else 'None'
        return f'(py_slice {sexpr(node.value, env)} {lo} {hi})'
    if isinstance(node, ast.JoinedStr):
        parts = []
        for v in node.values:
            if isinstance(v, ast.FormattedValue):
                need(v.conversion == -1 and v.format_spec is None, 'format conversion/spec in f-string')
                parts.append(sexpr(v.value, env))
            else:
                parts.append(coq_str(_const_str(v)))
        need(parts, 'empty f-string')
        return '(' + ' ++ '.join(parts) + ')'
    if isinstance(node, ast.BinOp) and isinstance(node.op, ast.Add):
        return f'({sexpr(node.left, env)} ++ {sexpr(node.right, env)})'
    if isinstance(node, ast.Call) and ast.unparse(node.func) == 'posixpath.join' and not node.keywords and node.args:
        need(not any(isinstance(a, ast.Starred) for a in node.args), 'starred argument')
        first, rest = node.args[0], node.args[1:]
        return f'(posix_join {sexpr(first, env)} [' + '; '.join(sexpr(a, env) for a in rest) + '])'
    raise Shape(f'str expression not in the translatable fragment: {src}')


def oexpr(node, env):
    """Python str expression that may raise IndexError -> Gallina term of type option string"""
    if isinstance(node, ast.Subscript) and not isinstance(node.slice, ast.Slice) and isinstance(node.value, ast.Name) \
            and env.get(node.value.id) == 'list':
        return f'(py_index {node.value.id} {_nat(node.slice)})'
    if isinstance(node, ast.BinOp) and isinstance(node.op, ast.Add):
        return f'(oconcat {oexpr(node.left, env)} {oexpr(node.right, env)})'
    return f'(Some {sexpr(node, env)})'


def _kwonly(fn, names):
    a = fn.args
    need([x.arg for x in a.args] == ['self'] and [x.arg for x in a.kwonlyargs] == names and not a.vararg and not a.kwarg
         and not a.posonlyargs, f'{fn.name}: signature (self, *, {", ".join(names)}) expected')


def _posonly(fn, names):
    a = fn.args
    need([x.arg for x in a.posonlyargs] == ['self'] + names and not a.args and not a.kwonlyargs and not a.vararg and not a.kwarg,
         f'{fn.name}: signature (self, {", ".join(names)}, /) expected')


def get_location(fn, gname):
    _kwonly(fn, ['name', 'tag'])
    body = _body(fn)
    need(len(body) == 1 and isinstance(body[0], ast.Return), f'{fn.name}: a single return expected')
    env = {'name': 'str', 'tag': 'str'}
    return f'Definition {gname} (name tag : string) : string :=\n  {sexpr(body[0].value, env)}.'


def parse_location(fn, gname):
    _posonly(fn, ['location'])
    body = _body(fn)
    need(len(body) >= 2, f'{fn.name}: guard and return expected')
    env = {'location': 'str'}
    g = body[0]
    need(isinstance(g, ast.If) and not g.orelse and len(g.body) == 1 and isinstance(g.body[0], ast.Raise)
         and isinstance(g.test, ast.UnaryOp) and isinstance(g.test.op, ast.Not), f'{fn.name}: "if not ...startswith(...): raise" expected')
    t = g.test.operand
    need(isinstance(t, ast.Call) and isinstance(t.func, ast.Attribute) and t.func.attr == 'startswith' and len(t.args) == 1
         and not t.keywords, f'{fn.name}: startswith guard expected')
    lines = [f'Definition {gname} (location : string) : option (string * string) :=',
             f'  if negb (startswith {sexpr(t.args[0], env)} {sexpr(t.func.value, env)}) then None else']
    for st in body[1:-1]:
        need(isinstance(st, ast.Assign) and len(st.targets) == 1 and isinstance(st.value, ast.Call)
             and isinstance(st.value.func, ast.Attribute) and not st.value.keywords, f'{fn.name}: unexpected statement {ast.unparse(st)}')
        call, tgt = st.value, st.targets[0]
        recv = sexpr(call.func.value, env)
        if call.func.attr == 'rpartition':
            need(isinstance(tgt, ast.Tuple) and len(tgt.elts) == 3 and all(isinstance(e, ast.Name) for e in tgt.elts)
                 and tgt.elts[1].id == '_' and len(call.args) == 1, f'{fn.name}: "head, _, tail = x.rpartition(c)" expected')
            rp = f'(rpartition {_char(call.args[0])} {recv})'
            h, tl = tgt.elts[0].id, tgt.elts[2].id
            lines.append(f'  let {h} := rp_head {rp} in')
            lines.append(f'  let {tl} := rp_tail {rp} in')
            env[h] = env[tl] = 'str'
        elif call.func.attr == 'rsplit':
            need(isinstance(tgt, ast.Name) and len(call.args) == 2, f'{fn.name}: "parts = x.rsplit(c, n)" expected')
            lines.append(f'  let {tgt.id} := rsplit {_char(call.args[0])} {_nat(call.args[1])} {recv} in')
            env[tgt.id] = 'list'
        else:
            raise Shape(f'{fn.name}: unexpected call {ast.unparse(call)}')
    r = body[-1]
    need(isinstance(r, ast.Return) and isinstance(r.value, ast.Call) and ast.unparse(r.value.func) == 'LocationParts'
         and not r.value.args and [k.arg for k in r.value.keywords] == ['name', 'tag'], f'{fn.name}: return LocationParts(name=, tag=) expected')
    kw = {k.arg: k.value for k in r.value.keywords}
    lines.append(f'  opair {oexpr(kw["name"], env)} {oexpr(kw["tag"], env)}.')
    return '\n'.join(lines)


# ------------------------------------------------------------------ bytes expressions (digest -> parts)
def bexpr(node, env):
    """Python bytes expression over self.props.mac / conditional on self.props.encrypted -> Gallina of type B"""
    if isinstance(node, ast.Name):
        need(node.id in env, f'unknown bytes variable {node.id}')
        return env[node.id]
    if isinstance(node, ast.Call) and ast.unparse(node.func) == 'self.props.mac' and len(node.args) == 1 and not node.keywords:
        return f'(mac {bexpr(node.args[0], env)})'
    if isinstance(node, ast.IfExp) and ast.unparse(node.test) == 'self.props.encrypted':
        return f'(if encrypted then {bexpr(node.body, env)} else {bexpr(node.orelse, env)})'
    raise Shape(f'bytes expression not in the translatable fragment: {ast.unparse(node)}')


def _assign_all(stmts, env):
    env = dict(env)
    assigned = []
    for st in stmts:
        need(isinstance(st, ast.Assign) and all(isinstance(t, ast.Name) for t in st.targets), f'assignment expected: {ast.unparse(st)}')
        v = bexpr(st.value, env)
        for t in st.targets:
            env[t.id] = v
            assigned.append(t.id)
    return env, assigned


def digest_parts(fn, gname):
    _posonly(fn, ['digest'])
    env = {'digest': 'digest'}
    body = _body(fn)
    for st in body[:-1]:
        if isinstance(st, ast.If):
            need(ast.unparse(st.test) == 'self.props.encrypted', 'condition must be self.props.encrypted')
            e1, a1 = _assign_all(st.body, env)
            e2, a2 = _assign_all(st.orelse, env)
            need(sorted(set(a1)) == sorted(set(a2)) and a1, 'both branches must assign the same names')
            for n in dict.fromkeys(a1):
                env[n] = f'(if encrypted then {e1[n]} else {e2[n]})'
        else:
            env, _ = _assign_all([st], env)
    r = body[-1]
    need(isinstance(r, ast.Return) and isinstance(r.value, ast.Call) and ast.unparse(r.value.func) == 'LocationParts'
         and not r.value.args and [k.arg for k in r.value.keywords] == ['name', 'tag'], f'{fn.name}: return LocationParts(name=, tag=) expected')
    out = []
    for k in r.value.keywords:
        v = k.value
        need(isinstance(v, ast.Call) and isinstance(v.func, ast.Attribute) and v.func.attr == 'hex' and not v.args and not v.keywords,
             f'{fn.name}: .hex() of a bytes value expected for {k.arg}')
        out.append(f'hex {bexpr(v.func.value, env)}')
    return (f'Definition {gname} {{B : Type}} (mac : B -> B) (hex : B -> string) (encrypted : bool) (digest : B) : string * string :=\n'
            f'  ({out[0]}, {out[1]}).')


@unit('LocationGen')
def location_gen():
    repo = pyast.module('replicat/repository.py')
    R = pyast.find_class(repo, 'Repository')
    out = ['From Coq Require Import String Ascii List.', 'From Replicat Require Import Lib.PyStr.', 'Import ListNotations.',
           'Local Open Scope string_scope.', '']
    out.append(f'Definition CHUNK_PREFIX : string := {coq_str(pyast.class_const(R, "CHUNK_PREFIX"))}.')
    out.append(f'Definition SNAPSHOT_PREFIX : string := {coq_str(pyast.class_const(R, "SNAPSHOT_PREFIX"))}.')
    out.append(get_location(pyast.find_func(R, 'get_chunk_location'), 'gen_get_chunk_location'))
    out.append(parse_location(pyast.find_func(R, 'parse_chunk_location'), 'gen_parse_chunk_location'))
    out.append(get_location(pyast.find_func(R, 'get_snapshot_location'), 'gen_get_snapshot_location'))
    out.append(parse_location(pyast.find_func(R, 'parse_snapshot_location'), 'gen_parse_snapshot_location'))
    out.append(digest_parts(pyast.find_func(R, '_chunk_digest_to_location_parts'), 'gen_chunk_parts'))
    out.append(digest_parts(pyast.find_func(R, '_snapshot_digest_to_location_parts'), 'gen_snapshot_parts'))
    # the callers: chunk location from the digest of the plaintext chunk, snapshot location from the digest of the object
    c2l = _body(pyast.find_func(R, '_chunk_digest_to_location'))
    need([ast.unparse(s) for s in c2l] == ['name, tag = self._chunk_digest_to_location_parts(digest)',
                                           'return self.get_chunk_location(name=name, tag=tag)'], '_chunk_digest_to_location shape')
    snap = ast.unparse(pyast.find_func(R, 'snapshot'))
    i = [snap.find(s) for s in ('serialized_snapshot = self._encrypt_snapshot_body(snapshot_body)',
                                'digest = self.props.hash_digest(serialized_snapshot)',
                                'name, tag = self._snapshot_digest_to_location_parts(digest)',
                                'location = self.get_snapshot_location(name=name, tag=tag)',
                                'await self._upload_data(location, serialized_snapshot)')]
    need(all(x >= 0 for x in i) and i == sorted(i), 'snapshot(): object name must be the digest of the uploaded bytes')
    need('location=self._chunk_digest_to_location(digest)' in snap and 'digest = self.props.hash_digest(output_chunk)' in snap,
         'snapshot(): chunk location must come from the digest of the plaintext chunk')
    out.append('Definition gen_locations_from_digests : bool := true.')
    return '\n'.join(out) + '\n'


# ------------------------------------------------------------------ snapshot body: a tiny monadic compiler
class St:
    """fresh-name and randomness counters along one control path"""

    def __init__(self, nv=0, nr=0):
        self.nv, self.nr = nv, nr

    def fresh(self, p):
        self.nv += 1
        return f'{p}{self.nv}'

    def rand(self):
        self.nr += 1
        return f'r{self.nr}'

    def copy(self):
        return St(self.nv, self.nr)


class BodyCompiler:
    PURE = {'self.props.derive_shared_subkey': 'derive', 'self.props.hash_digest': 'hash'}

    def __init__(self):
        self.max_rand = 0

    # expression in CPS: k(atom, type, st) -> term text
    def expr(self, node, env, st, k):
        src = ast.unparse(node)
        if isinstance(node, ast.Name):
            need(node.id in env, f'unknown variable {node.id}')
            return k(node.id, env[node.id], st)
        if src == 'self.props.userkey':
            return k('userkey', 'B', st)
        if isinstance(node, ast.Constant) and node.value is None:
            return k('JNull', 'V', st)
        if isinstance(node, ast.Dict):
            need(all(k_ is not None for k_ in node.keys), 'dict unpacking')
            keys = [_const_str(k_) for k_ in node.keys]

            def go(i, acc, st):
                if i == len(keys):
                    return k('(JObj [' + '; '.join(f'({coq_str(kk)}, {a})' for kk, a in zip(keys, acc)) + '])', 'V', st)
                return self.want(node.values[i], 'V', env, st, lambda a, st2: go(i + 1, acc + [a], st2))
            return go(0, [], st)
        if isinstance(node, ast.Call) and not node.keywords:
            f = ast.unparse(node.func)
            if f == 'self.serialize' and len(node.args) == 1:
                return self.want(node.args[0], 'V', env, st, lambda a, st2: k(f'(serialize {a})', 'B', st2))
            if f in self.PURE and len(node.args) == 1:
                return self.want(node.args[0], 'B', env, st, lambda a, st2: k(f'({self.PURE[f]} {a})', 'B', st2))
            if f == 'self.props.encrypt' and len(node.args) == 2:
                def enc(a, st2):
                    def enc2(b, st3):
                        r = st3.rand()
                        self.max_rand = max(self.max_rand, st3.nr)
                        return k(f'(encrypt {r} {a} {b})', 'B', st3)
                    return self.want(node.args[1], 'B', env, st2, enc2)
                return self.want(node.args[0], 'B', env, st, enc)
            if f in ('self.deserialize', 'self.props.decrypt'):
                return self.opt_call(node, env, st, lambda o, ty, st2: self.bind(o, ty, st2, k))
        raise Shape(f'expression not in the translatable fragment: {src}')

    def bind(self, o, ty, st, k):
        x = st.fresh('b' if ty == 'B' else 'v')
        return f'obind {o} (fun {x} =>\n  {k(x, ty, st)})'

    def opt_call(self, node, env, st, k):
        """deserialize(x) / decrypt(x, key): k(option-typed term, result type, st)"""
        f = ast.unparse(node.func)
        if f == 'self.deserialize':
            need(len(node.args) == 1, 'deserialize arity')
            return self.want(node.args[0], 'B', env, st, lambda a, st2: k(f'(deserialize {a})', 'V', st2))
        need(f == 'self.props.decrypt' and len(node.args) == 2, f'unexpected call {f}')
        return self.want(node.args[0], 'B', env, st,
                         lambda a, st2: self.want(node.args[1], 'B', env, st2, lambda b, st3: k(f'(decrypt {a} {b})', 'B', st3)))

    def want(self, node, ty, env, st, k):
        """evaluate node to an atom of type ty (B bytes / V value); k(atom, st)"""
        if isinstance(node, ast.Subscript) and isinstance(node.value, ast.Name) and env.get(node.value.id) == 'V' \
                and not isinstance(node.slice, ast.Slice):
            key = coq_str(_const_str(node.slice))
            fn = 'field_bytes' if ty == 'B' else 'field'
            return self.bind(f'({fn} {key} {node.value.id})', ty, st, lambda x, _t, st2: k(x, st2))

        def coerce(a, t, st2):
            if t == ty:
                return k(a, st2)
            need(t == 'B' and ty == 'V', f'a JSON value used where bytes are needed: {ast.unparse(node)}')
            return k(f'(JBytes {a})', st2)
        return self.expr(node, env, st, coerce)

    def opt_value(self, node, env, st):
        """an expression as a term of type option jv (used for the two arms of the try)"""
        if isinstance(node, ast.Call) and ast.unparse(node.func) == 'self.deserialize':
            return self.opt_call(node, env, st, lambda o, ty, st2: o)
        return self.want(node, 'V', env, st, lambda a, st2: f'(Some {a})')

    def block(self, stmts, env, st):
        need(stmts, 'function falls off the end without a return')
        s, rest = stmts[0], stmts[1:]
        if isinstance(s, ast.Return):
            need(s.value is not None, 'bare return')
            return self.expr(s.value, env, st, lambda a, ty, st2: f'Some {a}')
        if isinstance(s, ast.Assign) and len(s.targets) == 1:
            t = s.targets[0]
            if isinstance(t, ast.Name):
                def k(a, ty, st2):
                    env2 = dict(env)
                    env2[t.id] = ty
                    return f'let {t.id} := {a} in\n  {self.block(rest, env2, st2)}'
                return self.expr(s.value, env, st, k)
            if isinstance(t, ast.Subscript) and isinstance(t.value, ast.Name) and env.get(t.value.id) == 'V':
                key, obj = coq_str(_const_str(t.slice)), t.value.id
                return self.want(s.value, 'V', env, st,
                                 lambda a, st2: f'let {obj} := set_field {key} {a} {obj} in\n  {self.block(rest, env, st2)}')
        if isinstance(s, ast.If):
            need(ast.unparse(s.test) == 'self.props.encrypted', 'condition must be self.props.encrypted')
            a = self.block(list(s.body) + rest, env, st.copy())
            b = self.block(list(s.orelse) + rest, env, st.copy())
            return f'if encrypted then\n  {a}\n  else\n  {b}'
        if isinstance(s, ast.Try):
            need(len(s.body) == 1 and len(s.handlers) == 1 and len(s.orelse) == 1 and not s.finalbody, 'try/except/else with one statement each expected')
            h = s.handlers[0]
            need(ast.unparse(h.type) == 'exceptions.DecryptionError' and h.name is None and len(h.body) == 1, 'except exceptions.DecryptionError expected')
            tb, hb, eb = s.body[0], h.body[0], s.orelse[0]
            need(isinstance(tb, ast.Assign) and len(tb.targets) == 1 and isinstance(tb.targets[0], ast.Name)
                 and isinstance(tb.value, ast.Call) and ast.unparse(tb.value.func) == 'self.props.decrypt', 'try body must be "x = self.props.decrypt(...)"')
            for x in (hb, eb):
                need(isinstance(x, ast.Assign) and len(x.targets) == 1 and isinstance(x.targets[0], ast.Subscript), 'handler/else must assign a field')
            need(ast.unparse(hb.targets[0]) == ast.unparse(eb.targets[0]), 'handler and else must assign the same field')
            tgt = hb.targets[0]
            need(isinstance(tgt.value, ast.Name) and env.get(tgt.value.id) == 'V', 'field of a JSON object expected')
            key, obj, var = coq_str(_const_str(tgt.slice)), tgt.value.id, tb.targets[0].id

            def k(o, ty, st2):
                env_ok = dict(env)
                env_ok[var] = 'B'
                fail = self.opt_value(hb.value, env, st2.copy())
                ok = self.opt_value(eb.value, env_ok, st2.copy())
                x = st2.fresh('v')
                return (f'obind (match {o} with\n    | None => {fail}\n    | Some {var} => {ok}\n    end) (fun {x} =>\n  '
                        f'let {obj} := set_field {key} {x} {obj} in\n  {self.block(rest, env, st2)})')
            return self.opt_call(tb.value, env, st, k)
        raise Shape(f'statement not in the translatable fragment: {ast.unparse(s)}')


SECTION_HDR = '''Section BodyGen.
Context {B Num R : Type}.
Notation jv := (jv B Num).
Variables (serialize : jv -> B) (deserialize : B -> option jv).
Variables (encrypt : R -> B -> B -> B) (decrypt : B -> B -> option B).
Variables (hash derive : B -> B) (userkey : B).
'''


def _metadata_pair(node):
    need(isinstance(node, ast.Tuple) and len(node.elts) == 2, 'pair of metadata fields expected')
    keys = []
    for e in node.elts:
        need(isinstance(e, ast.Subscript) and ast.unparse(e.value) == 'metadata', f'metadata[...] expected: {ast.unparse(e)}')
        keys.append(coq_str(_const_str(e.slice)))
    return f'opair (metadata {keys[0]}) (metadata {keys[1]})'


def _utime(call, pair_var):
    need(isinstance(call, ast.Expr) and isinstance(call.value, ast.Call) and ast.unparse(call.value.func) == 'os.utime'
         and len(call.value.args) == 1 and ast.unparse(call.value.args[0]) == 'path' and len(call.value.keywords) == 1,
         f'os.utime(path, ns=|times=) expected: {ast.unparse(call)}')
    kw = call.value.keywords[0]
    ctor = {'ns': 'UtimeNs', 'times': 'UtimeTimes'}.get(kw.arg)
    need(ctor is not None, f'unknown os.utime keyword {kw.arg}')
    return ctor, kw.value


def restore_metadata_gen(fn):
    _posonly(fn, ['path', 'metadata'])
    body = _body(fn)
    need(len(body) == 1 and isinstance(body[0], ast.Try), 'restore_metadata: a single try statement expected')
    t = body[0]
    need(len(t.body) == 1 and len(t.handlers) == 1 and len(t.orelse) == 1 and not t.finalbody, 'try/except/else with one statement each expected')
    a = t.body[0]
    need(isinstance(a, ast.Assign) and len(a.targets) == 1 and isinstance(a.targets[0], ast.Name), 'try body must assign the ns pair')
    var = a.targets[0].id
    first = _metadata_pair(a.value)
    h = t.handlers[0]
    need(ast.unparse(h.type) == 'KeyError' and len(h.body) == 1, 'except KeyError expected')
    c_fail, v_fail = _utime(h.body[0], var)
    c_ok, v_ok = _utime(t.orelse[0], var)
    need(isinstance(v_ok, ast.Name) and v_ok.id == var, 'else branch must pass the pair read in the try body')
    second = _metadata_pair(v_fail)
    return ('Definition gen_restore_metadata {T : Type} (metadata : string -> option T) : option (utime_call T) :=\n'
            f'  match {first} with\n  | Some {var} => Some ({c_ok} (fst {var}) (snd {var}))\n'
            f'  | None => obind ({second}) (fun t => Some ({c_fail} (fst t) (snd t)))\n  end.')


def json_gen(out):
    ut = pyast.module('replicat/utils/__init__.py')
    th = pyast.find_func(ut, 'type_hint')
    b = _body(th)
    need(len(b) == 2 and isinstance(b[0], ast.If) and not b[0].orelse and ast.unparse(b[0].test) == 'isinstance(object, collections.abc.ByteString)'
         and len(b[0].body) == 1 and isinstance(b[0].body[0], ast.Return) and ast.unparse(b[1]) == 'raise TypeError', 'type_hint shape')
    d = b[0].body[0].value
    need(isinstance(d, ast.Dict) and len(d.keys) == 1, 'type_hint must return a one-key dict')
    key = _const_str(d.keys[0])
    v = d.values[0]
    need(isinstance(v, ast.Call) and ast.unparse(v.func) == 'str' and len(v.args) == 2 and ast.unparse(v.args[1]) == "'ascii'"
         and isinstance(v.args[0], ast.Call) and ast.unparse(v.args[0].func).startswith('base64.') and ast.unparse(v.args[0].args[0]) == 'object'
         and len(v.args[0].args) == 1 and not v.args[0].keywords, 'type_hint value must be str(base64.<enc>(object), "ascii")')
    encoder = ast.unparse(v.args[0].func)[len('base64.'):]
    out.append(f'Definition gen_type_hint (b : B) : jv := JObj [({coq_str(key)}, JStr (b64 b))].')
    out.append(f'Definition gen_b64_encoder : string := {coq_str(encoder)}.')
    tr = pyast.find_func(ut, 'type_reverse')
    b = _body(tr)
    need(len(b) == 2 and isinstance(b[0], ast.If) and not b[0].orelse and ast.unparse(b[0].body[0]) == 'return object'
         and isinstance(b[0].test, ast.Compare) and len(b[0].test.ops) == 1 and isinstance(b[0].test.ops[0], ast.NotEq)
         and ast.unparse(b[0].test.left) == 'len(object)', 'type_reverse: "if len(object) != n: return object" expected')
    n = _nat(b[0].test.comparators[0])
    t = b[1]
    need(isinstance(t, ast.Try) and len(t.body) == 1 and len(t.handlers) == 1 and len(t.orelse) == 1 and not t.finalbody, 'type_reverse: try/except/else expected')
    a = t.body[0]
    need(isinstance(a, ast.Assign) and isinstance(a.targets[0], ast.Name) and isinstance(a.value, ast.Subscript)
         and ast.unparse(a.value.value) == 'object', 'type_reverse: "encoded = object[key]" expected')
    var, rkey = a.targets[0].id, _const_str(a.value.slice)
    need(ast.unparse(t.handlers[0].type) == 'KeyError' and ast.unparse(t.handlers[0].body[0]) == 'return object', 'type_reverse: except KeyError: return object')
    r = t.orelse[0]
    need(isinstance(r, ast.Return) and isinstance(r.value, ast.Call) and ast.unparse(r.value.func).startswith('base64.')
         and [ast.unparse(x) for x in r.value.args] == [var] and not r.value.keywords, 'type_reverse: return base64.<dec>(encoded) expected')
    decoder = ast.unparse(r.value.func)[len('base64.'):]
    out.append('Definition gen_type_reverse (object : list (string * jv)) : jv :=\n'
               f'  if negb (Nat.eqb (length object) {n}) then JObj object else\n'
               f'  match lookup {coq_str(rkey)} object with\n  | None => JObj object\n'
               f'  | Some {var} => b64decode_value unb64 (JObj object) {var}\n  end.')
    out.append(f'Definition gen_b64_decoder : string := {coq_str(decoder)}.')
    # serialize / deserialize wiring
    repo = pyast.module('replicat/repository.py')
    R = pyast.find_class(repo, 'Repository')
    src = {n: [ast.unparse(s) for s in _body(pyast.find_func(R, n))] for n in
           ('default_serialization_hook', 'serialize', 'object_deserialization_hook', 'deserialize')}
    need(src['default_serialization_hook'] == ['return utils.type_hint(data)'], 'default_serialization_hook')
    need(src['object_deserialization_hook'] == ['return utils.type_reverse(data)'], 'object_deserialization_hook')
    need(src['serialize'] == ["string = json.dumps(object, separators=(',', ':'), default=self.default_serialization_hook)",
                              "return bytes(string, 'ascii')"], 'serialize shape')
    need(src['deserialize'] == ['return json.loads(data, object_hook=self.object_deserialization_hook)'], 'deserialize shape')
    out.append('Definition gen_serialize_wiring_ok : bool := true.')


@unit('BodyGen')
def body_gen():
    repo = pyast.module('replicat/repository.py')
    R = pyast.find_class(repo, 'Repository')
    out = ['From Coq Require Import String Ascii List Bool.', 'From Replicat Require Import Lib.PyStr Model.Json Model.SnapBody.',
           'Import ListNotations.', 'Local Open Scope string_scope.', '', SECTION_HDR]
    # _encrypt_snapshot_body
    fn = pyast.find_func(R, '_encrypt_snapshot_body')
    need([a.arg for a in fn.args.args] == ['self', 'snapshot_body'], '_encrypt_snapshot_body signature')
    c = BodyCompiler()
    term = c.block(_body(fn), {'snapshot_body': 'V'}, St())
    need(c.max_rand == 2, f'_encrypt_snapshot_body: two encryptions expected, found {c.max_rand}')
    out.append(f'Definition gen_encrypt_snapshot_body (encrypted : bool) (r1 r2 : R) (snapshot_body : jv) : option B :=\n  {term}.')
    # _decrypt_snapshot_body
    fn = pyast.find_func(R, '_decrypt_snapshot_body')
    need([a.arg for a in fn.args.args] == ['self', 'contents'], '_decrypt_snapshot_body signature')
    c = BodyCompiler()
    term = c.block(_body(fn), {'contents': 'B'}, St())
    need(c.max_rand == 0, '_decrypt_snapshot_body must not encrypt')
    out.append(f'Definition gen_decrypt_snapshot_body (encrypted : bool) (contents : B) : option jv :=\n  {term}.')
    # chunk encryption in snapshot()._chunk_producer and restore()._download_chunk
    prod = pyast.find_func(pyast.find_func(R, 'snapshot'), '_chunk_producer')
    enc_assign = [n for n in ast.walk(prod) if isinstance(n, ast.Assign) and ast.unparse(n.targets[0]) == 'encrypted_contents'
                  and isinstance(n.value, ast.Call)]
    dig_assign = [n for n in ast.walk(prod) if isinstance(n, ast.Assign) and ast.unparse(n.targets[0]) == 'digest']
    need(len(enc_assign) == 1 and len(dig_assign) == 1, '_chunk_producer: digest / encrypted_contents assignments')
    c = BodyCompiler()
    term = c.block([dig_assign[0], enc_assign[0], ast.Return(value=ast.Name(id='encrypted_contents'))], {'output_chunk': 'B'}, St())
    need(c.max_rand == 1, 'one encryption per chunk expected')
    out.append(f'Definition gen_chunk_ciphertext (r1 : R) (output_chunk : B) : option B :=\n  {term}.')
    dl = pyast.find_func(pyast.find_func(R, 'restore'), '_download_chunk')
    dec_assign = [n for n in ast.walk(dl) if isinstance(n, ast.Assign) and ast.unparse(n.targets[0]) == 'decrypted_contents'
                  and isinstance(n.value, ast.Call)]
    need(len(dec_assign) == 1, '_download_chunk: decrypted_contents assignment')
    c = BodyCompiler()
    term = c.block([dec_assign[0], ast.Return(value=ast.Name(id='decrypted_contents'))], {'contents': 'B', 'digest': 'B'}, St())
    out.append(f'Definition gen_chunk_plaintext (digest contents : B) : option B :=\n  {term}.')
    src_dl = ast.unparse(dl)
    need('if self.props.hash_digest(decrypted_contents) != digest:' in src_dl, '_download_chunk must verify the digest of the plaintext')
    need('location = self._chunk_digest_to_location(digest)' in src_dl, '_download_chunk: location from digest')
    out.append('Definition gen_chunk_verified_after_decryption : bool := true.')
    out.append('End BodyGen.\n')
    # byte-string tagging
    out.append('Section JsonGen.\nContext {B Num : Type}.\nNotation jv := (jv B Num).\nVariables (b64 : B -> string) (unb64 : string -> B).')
    json_gen(out)
    out.append('End JsonGen.\n')
    # restore_metadata and the uses of metadata inside restore()
    out.append(restore_metadata_gen(pyast.find_func(R, 'restore_metadata')))
    rs = pyast.find_func(R, 'restore')
    import re
    simple = sorted(' '.join(ast.unparse(n).split()) for n in ast.walk(rs) if isinstance(n, ast.stmt) and not hasattr(n, 'body'))
    uses = [u for u in simple if re.search(r"\bmetadata\b", u)]
    need(uses == sorted(["restore_path, metadata, size = files_metadata.pop(file_path)",
                         "self.restore_metadata(restore_path, metadata)",
                         "self.restore_metadata(restore_to, file_data['metadata'])",
                         "files_metadata[file_path] = (restore_to, file_data['metadata'], chunk_position)"]),
         f'restore(): metadata must only be handed to restore_metadata; found {uses}')
    carriers = [u for u in simple if 'files_metadata' in u and not u.startswith('finished_tracker = tqdm(')]
    need(carriers == sorted(["restore_to, _, _ = files_metadata[file_path]",
                             "restore_path, metadata, size = files_metadata.pop(file_path)",
                             "files_metadata[file_path] = (restore_to, file_data['metadata'], chunk_position)",
                             "files_metadata = {}"]),
         f'restore(): unexpected use of files_metadata; found {carriers}')
    out.append('Definition gen_metadata_only_finalises : bool := true.')
    # which private fields key the MAC and the shared KDF
    P = pyast.find_class(repo, 'RepositoryProps')
    mac = [ast.unparse(s) for s in _body(pyast.find_func(P, 'mac')) if not isinstance(s, ast.Assert)]
    need(mac == ["return self.authenticator.mac(data, params=self.private['mac_params'])"], 'RepositoryProps.mac shape')
    sub = [ast.unparse(s) for s in _body(pyast.find_func(P, 'derive_shared_subkey')) if not isinstance(s, ast.Assert)]
    need(sub == ["return self.shared_kdf.derive(self.private['shared_key'], context=ctx, params=self.private['shared_kdf_params'])"],
         'RepositoryProps.derive_shared_subkey shape')
    out.append('Definition gen_mac_and_subkey_fields : list string := ["mac_params"; "shared_key"; "shared_kdf_params"].')
    return '\n'.join(out) + '\n'
