"""C17 - source facts for the settings model (coq/Gen/C17Adapters.v), read off replicat/utils/adapters.py and
replicat/repository.py with the ast module.  Fail closed: any shape that is not recognised raises."""
import ast
import hashlib

from . import pyast
from .units import unit, coq_str

KINDS = {'CipherAdapter': 'KCipher', 'KDFAdapter': 'KKdf', 'MACAdapter': 'KMac', 'HashAdapter': 'KHash',
         'ChunkerAdapter': 'KChunker'}
CMP = {ast.Lt: 'OLt', ast.LtE: 'OLe', ast.Gt: 'OGt', ast.GtE: 'OGe'}
BIN = {ast.Add: 'EAdd', ast.Sub: 'ESub', ast.Mult: 'EMul', ast.FloorDiv: 'EFloorDiv'}


def zlit(n):
    assert isinstance(n, int) and not isinstance(n, bool), f'not an int literal: {n!r}'
    return f'({n})' if n < 0 else str(n)


def const_int(node, consts):
    """Integer constant expression (literals, class constants, << * + - **)."""
    if isinstance(node, ast.Constant) and isinstance(node.value, int) and not isinstance(node.value, bool):
        return node.value
    if isinstance(node, ast.Name) and node.id in consts:
        return consts[node.id]
    if isinstance(node, ast.BinOp) and isinstance(node.op, (ast.LShift, ast.Mult, ast.Add, ast.Sub, ast.Pow)):
        a, b = const_int(node.left, consts), const_int(node.right, consts)
        return {ast.LShift: a << b, ast.Mult: a * b, ast.Add: a + b, ast.Sub: a - b, ast.Pow: a ** b}[type(node.op)]
    raise ValueError('unsupported constant expression: ' + ast.unparse(node))


def value_lit(node, consts):
    if isinstance(node, ast.Constant) and node.value is None:
        return 'VNull'
    if isinstance(node, ast.Constant) and isinstance(node.value, bool):
        return f'(VBool {"true" if node.value else "false"})'
    if isinstance(node, ast.Constant) and isinstance(node.value, str):
        return f'(VStr {coq_str(node.value)})'
    return f'(VInt {zlit(const_int(node, consts))})'


class Adapter:
    def __init__(self, cls, classes):
        self.cls, self.classes = cls, classes
        self.name = cls.name
        self.consts = {}
        for n in cls.body:
            if isinstance(n, ast.Assign) and len(n.targets) == 1 and isinstance(n.targets[0], ast.Name):
                v = n.value
                if isinstance(v, ast.Constant) and isinstance(v.value, int) and not isinstance(v.value, bool):
                    self.consts[n.targets[0].id] = v.value
        self.kinds = self._kinds(cls)
        init = next((n for n in cls.body if isinstance(n, ast.FunctionDef) and n.name == '__init__'), None)
        self.params, self.raises = [], []
        if init is not None:
            a = init.args
            if [x.arg for x in a.args] != ['self'] or a.posonlyargs or a.vararg or a.kwarg:
                raise ValueError(f'{self.name}.__init__: only keyword-only parameters are understood')
            for arg, d in zip(a.kwonlyargs, a.kw_defaults):
                self.params.append((arg.arg, None if d is None else value_lit(d, self.consts)))
            self.pnames = [p for p, _ in self.params]
            for st in init.body:
                self._stmt(st)
        else:
            self.pnames = []

    def _kinds(self, cls, seen=()):
        out = []
        for b in cls.bases:
            if not isinstance(b, ast.Name):
                raise ValueError(f'{cls.name}: base class expression not understood')
            if b.id in KINDS:
                out.append(KINDS[b.id])
            elif b.id in self.classes and b.id not in seen:
                out += self._kinds(self.classes[b.id], seen + (b.id,))
            elif b.id != 'ABC':
                raise ValueError(f'{cls.name}: unknown base class {b.id}')
        return out

    # ---- expressions / conditions
    def expr(self, n):
        if isinstance(n, ast.Name):
            if n.id in self.pnames:
                return f'(EParam {coq_str(n.id)})'
            raise ValueError(f'{self.name}: unknown name {n.id}')
        if isinstance(n, ast.Constant) and isinstance(n.value, int) and not isinstance(n.value, bool):
            return f'(EConst {zlit(n.value)})'
        if isinstance(n, ast.Attribute) and isinstance(n.value, ast.Name) and n.value.id == 'self':
            if n.attr in self.consts or n.attr in self.pnames:
                return f'(EParam {coq_str(n.attr)})'
            raise ValueError(f'{self.name}: unknown attribute self.{n.attr}')
        if isinstance(n, ast.Attribute) and ast.unparse(n) == 'sys.maxsize':
            import sys
            if sys.maxsize != 2 ** 63 - 1:
                raise ValueError('the model assumes a 64-bit size_t')
            return f'(EConst {zlit(sys.maxsize)})'
        if isinstance(n, ast.Attribute) and ast.unparse(n).startswith('hashlib.'):
            obj = hashlib
            for part in ast.unparse(n).split('.')[1:]:
                obj = getattr(obj, part)
            return f'(EConst {zlit(obj)})'
        if isinstance(n, ast.BinOp) and type(n.op) in BIN:
            return f'({BIN[type(n.op)]} {self.expr(n.left)} {self.expr(n.right)})'
        raise ValueError(f'{self.name}: unsupported expression {ast.unparse(n)}')

    def cond(self, n):
        if isinstance(n, ast.BoolOp):
            ctor = 'COr' if isinstance(n.op, ast.Or) else 'CAnd'
            parts = [self.cond(v) for v in n.values]
            out = parts[-1]
            for p in reversed(parts[:-1]):      # a or b or c  ==  a or (b or c) for short-circuit evaluation
                out = f'({ctor} {p} {out})'
            return out
        if isinstance(n, ast.UnaryOp) and isinstance(n.op, ast.Not):
            return f'(CNot {self.cond(n.operand)})'
        if (isinstance(n, ast.Call) and isinstance(n.func, ast.Name) and n.func.id == 'isinstance' and len(n.args) == 2
                and not n.keywords and isinstance(n.args[0], ast.Name) and n.args[0].id in self.pnames
                and isinstance(n.args[1], ast.Name) and n.args[1].id == 'int'):
            return f'(CIsInt {coq_str(n.args[0].id)})'
        if isinstance(n, ast.Compare):
            if len(n.ops) == 1 and isinstance(n.ops[0], (ast.In, ast.NotIn)):
                left, right = n.left, n.comparators[0]
                if not (isinstance(left, ast.Name) and left.id in self.pnames and isinstance(right, (ast.Tuple, ast.List, ast.Set))):
                    raise ValueError(f'{self.name}: unsupported membership test {ast.unparse(n)}')
                consts = '[' + '; '.join(zlit(const_int(e, self.consts)) for e in right.elts) + ']'
                c = f'(CIn {coq_str(left.id)} {consts})'
                return f'(CNot {c})' if isinstance(n.ops[0], ast.NotIn) else c
            if all(type(o) in CMP for o in n.ops):
                rest = '; '.join(f'({CMP[type(o)]}, {self.expr(c)})' for o, c in zip(n.ops, n.comparators))
                return f'(CCmp {self.expr(n.left)} [{rest}])'
        raise ValueError(f'{self.name}: unsupported condition {ast.unparse(n)}')

    def _stmt(self, st):
        if isinstance(st, ast.If):
            if st.orelse or len(st.body) != 1 or not isinstance(st.body[0], ast.Raise):
                raise ValueError(f'{self.name}.__init__: only "if <cond>: raise" is understood')
            self.raises.append(self.cond(st.test))
            return
        if isinstance(st, ast.Assign):
            tg = st.targets[0]
            targets = tg.elts if isinstance(tg, ast.Tuple) else [tg]
            values = st.value.elts if isinstance(st.value, ast.Tuple) else [st.value]
            if len(st.targets) == 1 and len(targets) == len(values) and all(
                    isinstance(t, ast.Attribute) and isinstance(t.value, ast.Name) and t.value.id == 'self' for t in targets):
                for t, v in zip(targets, values):
                    if isinstance(v, ast.Name) and v.id in self.pnames:
                        # an attribute the mixin reads must carry the parameter of the same name
                        if t.attr in ('key_bits', 'nonce_bits') and t.attr != v.id:
                            raise ValueError(f'{self.name}: self.{t.attr} is not the parameter {t.attr}')
                        continue
                    g = self._getattr_fstring(v)
                    if g is not None:
                        self.raises.append(f'(CNot (CIsInt {coq_str(g)}))')
                        continue
                    raise ValueError(f'{self.name}.__init__: unsupported assignment {ast.unparse(st)}')
                return
        if (isinstance(st, ast.Expr) and isinstance(st.value, ast.Call)
                and ast.unparse(st.value) == 'super().__init__()'):
            return
        raise ValueError(f'{self.name}.__init__: unsupported statement {ast.unparse(st)}')

    def _getattr_fstring(self, v):
        """getattr(hashlib, f'<prefix>{param}') -> param: only the decimal spelling of an int names a constructor."""
        if not (isinstance(v, ast.Call) and isinstance(v.func, ast.Name) and v.func.id == 'getattr' and len(v.args) == 2
                and isinstance(v.args[0], ast.Name) and v.args[0].id == 'hashlib' and isinstance(v.args[1], ast.JoinedStr)):
            return None
        parts = v.args[1].values
        if (len(parts) == 2 and isinstance(parts[0], ast.Constant) and isinstance(parts[1], ast.FormattedValue)
                and parts[1].conversion == -1 and parts[1].format_spec is None
                and isinstance(parts[1].value, ast.Name) and parts[1].value.id in self.pnames):
            return parts[1].value.id
        raise ValueError(f'{self.name}: unsupported getattr {ast.unparse(v)}')

    def coq(self):
        params = '; '.join(f'({coq_str(p)}, {"None" if d is None else "Some " + d})' for p, d in self.params)
        consts = '; '.join(f'({coq_str(k)}, {zlit(v)})' for k, v in self.consts.items())
        return (f'  {{| a_name := {coq_str(self.name)}; a_kinds := [{"; ".join(self.kinds)}];\n'
                f'     a_params := [{params}];\n     a_consts := [{consts}];\n'
                f'     a_raises := [{"; ".join(self.raises)}] |}}')


def _self_call_name(call):
    f = call.func
    if isinstance(f, ast.Attribute) and isinstance(f.value, ast.Name):
        return f.value.id, f.attr
    return None, None


def init_steps(R):
    fn = pyast.find_func(R, 'init')
    events = []
    for n in ast.walk(fn):
        if not isinstance(n, ast.Call):
            continue
        src = ast.unparse(n.func)
        pos = (n.lineno, n.col_offset)
        table = {'self._validate_init_settings': 'SValidate', 'self._make_config': 'SMakeConfig',
                 'self._instantiate_config': 'SInstantiateConfig', 'self._make_key': 'SMakeKey',
                 'self._instantiate_key': 'SInstantiateKey', 'props.encrypt': 'SEncryptPrivate',
                 'self._upload_data': 'SUploadConfig'}
        if src in table:
            events.append((pos, table[src]))
        elif src.startswith('self.backend') or src.startswith('self._upload') or src.startswith('self._delete') \
                or src.startswith('self._download') or src.startswith('self._exists') or src.startswith('self._clean'):
            raise ValueError(f'init: unexpected backend access {src}')
    events.sort()
    # the upload must be a statement of the function body itself (unconditional), after everything else
    top = [st for st in fn.body if any(isinstance(c, ast.Call) and ast.unparse(c.func) == 'self._upload_data' for c in ast.walk(st))]
    if len(top) != 1 or not isinstance(top[0], ast.Expr) or not isinstance(top[0].value, ast.Await):
        raise ValueError('init: the config upload is not a single unconditional statement')
    return [e for _, e in events]


def schema_keys(fn):
    """The {key: types} dict literals passed to self._validate_settings, in order."""
    out = []
    calls = sorted((n for n in ast.walk(fn) if isinstance(n, ast.Call) and ast.unparse(n.func) == 'self._validate_settings'),
                   key=lambda n: (n.lineno, n.col_offset))
    for c in calls:
        d = c.args[0]
        if not isinstance(d, ast.Dict):
            raise ValueError('schema is not a dict literal')
        keys = []
        for k, v in zip(d.keys, d.values):
            t = ast.unparse(v).replace(' ', '')
            if t == 'collections.abc.Mapping':
                keys.append((k.value, False))
            elif t == '(collections.abc.Mapping,type(None))':
                keys.append((k.value, True))
            else:
                raise ValueError(f'unsupported schema type {t}')
        out.append(keys)
    return out


def coq_keys(keys):
    return '[' + '; '.join(f'({coq_str(k)}, {"true" if n else "false"})' for k, n in keys) + ']'


@unit('C17Adapters')
def c17_adapters():
    ad = pyast.module('replicat/utils/adapters.py')
    classes = {n.name: n for n in ad.body if isinstance(n, ast.ClassDef)}
    names = None
    for n in ad.body:
        if isinstance(n, ast.Assign) and isinstance(n.targets[0], ast.Name) and n.targets[0].id == '_adapters':
            names = [e.id for e in n.value.elts]
    if not names:
        raise ValueError('_adapters list not found')
    specs = [Adapter(classes[n], classes) for n in names]
    out = ['From Coq Require Import String ZArith List.', 'From Replicat Require Import Model.PyVal Model.Settings.',
           'Import ListNotations.', 'Open Scope string_scope.', 'Open Scope Z_scope.', '',
           'Definition adapters : list adapter := [', ';\n'.join(s.coq() for s in specs), '].', '']
    # AEADCipherAdapterMixin.__init__
    mixin = Adapter.__new__(Adapter)
    mixin.name, mixin.consts, mixin.pnames = 'AEADCipherAdapterMixin', {'key_bits': 0, 'nonce_bits': 0}, []
    minit = pyast.find_func(classes['AEADCipherAdapterMixin'], '__init__')
    if len(minit.body) != 1 or ast.unparse(minit.body[0].targets[0]) != '(self._key_bytes, self._nonce_bytes)':
        raise ValueError('AEADCipherAdapterMixin.__init__ has an unexpected shape')
    kb, nb = minit.body[0].value.elts
    out.append(f'Definition key_bytes_expr : expr := {mixin.expr(kb)}.')
    out.append(f'Definition nonce_bytes_expr : expr := {mixin.expr(nb)}.')
    kprop = pyast.find_func(classes['AEADCipherAdapterMixin'], 'key_bytes')
    if ast.unparse(kprop.body[0]) != 'return self._key_bytes':
        raise ValueError('key_bytes property does not return self._key_bytes')
    enc = ast.unparse(pyast.find_func(classes['AEADCipherAdapterMixin'], 'encrypt'))
    if 'os.urandom(self._nonce_bytes)' not in enc:
        raise ValueError('encrypt does not draw a nonce of _nonce_bytes bytes')
    out.append('')

    repo = pyast.module('replicat/repository.py')
    R = pyast.find_class(repo, 'Repository')
    out.append('Definition init_steps : list step := [' + '; '.join(init_steps(R)) + '].')
    s_init = schema_keys(pyast.find_func(R, '_validate_init_settings'))
    s_add = schema_keys(pyast.find_func(R, '_validate_add_key_settings'))
    if len(s_init) != 2 or len(s_add) != 2:
        raise ValueError('unexpected number of _validate_settings calls')
    out.append(f'Definition init_schema_keys : list (string * bool) := {coq_keys(s_init[0])}.')
    out.append(f'Definition init_encryption_schema_keys : list (string * bool) := {coq_keys(s_init[1])}.')
    out.append(f'Definition add_key_schema_keys : list (string * bool) := {coq_keys(s_add[0])}.')
    out.append(f'Definition add_key_encryption_schema_keys : list (string * bool) := {coq_keys(s_add[1])}.')
    for c in ('DEFAULT_CHUNKER_NAME', 'DEFAULT_CIPHER_NAME', 'DEFAULT_HASHER_NAME', 'DEFAULT_MAC_NAME',
              'DEFAULT_USER_KDF_NAME', 'DEFAULT_SHARED_KDF_NAME'):
        out.append(f'Definition {c} : string := {coq_str(pyast.class_const(R, c))}.')
    # kind checks in _instantiate_config
    ic = pyast.find_func(R, '_instantiate_config')
    checks = []
    for n in sorted((n for n in ast.walk(ic) if isinstance(n, ast.Call) and ast.unparse(n.func) == 'self._check_adapter_type'),
                    key=lambda n: (n.lineno, n.col_offset)):
        var, base = ast.unparse(n.args[0]), ast.unparse(n.args[1])
        if not var.endswith('_type') or not base.startswith('adapters.') or base[9:] not in KINDS:
            raise ValueError('unexpected _check_adapter_type call ' + ast.unparse(n))
        checks.append((var[:-5], KINDS[base[9:]]))
    cat = pyast.find_func(R, '_check_adapter_type')
    if (len(cat.body) != 1 or not isinstance(cat.body[0], ast.If)
            or ast.unparse(cat.body[0].test) != 'not issubclass(adapter_type, expected_type)'
            or not isinstance(cat.body[0].body[0], ast.Raise)):
        raise ValueError('_check_adapter_type has an unexpected shape')
    # each checked class must be the one that is instantiated for that role
    src = ast.unparse(ic)
    for role, _ in checks:
        if f'{role}_type(**{role}_args)' not in src:
            raise ValueError(f'_instantiate_config does not instantiate {role}_type')
    out.append('Definition kind_checks : list (string * kind) := [' + '; '.join(f'({coq_str(r)}, {k})' for r, k in checks) + '].')
    return '\n'.join(out) + '\n'
