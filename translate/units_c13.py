"""C13 source facts (coq/Gen/C13Facts.v): structural facts of the three adapters that the C13 theorems
are stated over.  Read off the source with ast; any unexpected shape raises (fail closed)."""
import ast
from . import pyast
from .units import unit, coq_str


def _b(x):
    return 'true' if x else 'false'


def _calls(node, pred):
    return [n for n in ast.walk(node) if isinstance(n, ast.Call) and pred(n)]


def _attr_call(n, attr):
    return isinstance(n.func, ast.Attribute) and n.func.attr == attr


def _coq_codes(s):
    return '[' + '; '.join(str(ord(c)) for c in s) + ']%N'


def local_facts():
    tree = pyast.module('replicat/backends/local.py')
    L = pyast.find_class(tree, 'Local')
    out = {}
    # temp file suffix and location
    dt = pyast.find_func(L, '_destination_temp')
    ntf = _calls(dt, lambda c: isinstance(c.func, ast.Name) and c.func.id == 'NamedTemporaryFile')
    assert len(ntf) == 1, 'NamedTemporaryFile call not found'
    kw = {k.arg: k.value for k in ntf[0].keywords}
    out['tmp_suffix'] = ast.literal_eval(kw['suffix'])
    out['tmp_in_parent'] = pyast.unparse(kw['dir']) == 'destination.parent' and ast.literal_eval(kw['delete']) is False
    mk = _calls(dt, lambda c: _attr_call(c, 'mkdir'))
    out['mkdir_parents'] = (len(mk) == 1 and pyast.unparse(mk[0].func.value) == 'destination.parent'
                            and {k.arg: ast.literal_eval(k.value) for k in mk[0].keywords} == {'parents': True, 'exist_ok': True})
    # upload / upload_stream: temp, write, replace as the last statement of the try body; unlink in except
    ok = True
    for name in ('upload', 'upload_stream'):
        fn = pyast.find_func(L, name)
        first = fn.body[0]
        ok &= isinstance(first, ast.Assign) and pyast.unparse(first.value) == 'self._destination_temp(name)'
        tries = [s for s in fn.body if isinstance(s, ast.Try)]
        ok &= len(tries) == 1
        t = tries[0]
        ok &= pyast.unparse(t.body[-1]) == 'temp.replace(destination)'
        ok &= len(t.handlers) == 1 and t.handlers[0].type is None
        hb = [pyast.unparse(s) for s in t.handlers[0].body]
        ok &= hb[0] == 'temp.unlink(missing_ok=True)' and hb[-1] == 'raise'
    out['temp_then_replace'] = ok
    # the destination is touched by nothing but the rename (no unlink / truncate / write before it): between the
    # micro-steps of the model (mkdir, create temp, write temp, rename) there is no step that removes the old object
    only = True
    for name in ('upload', 'upload_stream'):
        fn = pyast.find_func(L, name)
        uses = [n for n in ast.walk(fn) if isinstance(n, ast.Name) and n.id == 'destination' and isinstance(n.ctx, ast.Load)]
        only &= len(uses) == 1
        only &= all(pyast.unparse(c.func.value) == 'temp' for c in _calls(fn, lambda c: _attr_call(c, 'unlink')))
    dt_uses = sorted(pyast.unparse(n) for n in ast.walk(dt) if isinstance(n, ast.Attribute) and pyast.unparse(n.value) == 'destination')
    only &= dt_uses == ['destination.name', 'destination.parent', 'destination.parent']
    out['destination_only_renamed_onto'] = only
    # download_stream: the size is that of the file that was opened (fstat of the open descriptor), so a concurrent
    # replacement (rename) cannot make the announced length and the bytes read belong to different objects
    ds = [pyast.unparse(x) for x in pyast.find_func(L, 'download_stream').body]
    out['download_size_of_open_file'] = ds[:2] == ["file = (self.path / name).open('rb')", 'length = os.fstat(file.fileno()).st_size']
    out['download_reads_whole_file'] = [pyast.unparse(x) for x in pyast.find_func(L, 'download').body] == ['return (self.path / name).read_bytes()']
    # delete
    d = pyast.find_func(L, 'delete')
    out['delete_missing_ok'] = [pyast.unparse(s) for s in d.body] == ['(self.path / name).unlink(missing_ok=True)']
    # exists / download
    out['exists_is_path_exists'] = [pyast.unparse(s) for s in pyast.find_func(L, 'exists').body] == ['return os.path.exists(self.path / name)']
    # list_files
    lf = pyast.find_func(L, 'list_files')
    src = [pyast.unparse(s) for s in lf.body]
    tries = [s for s in lf.body if isinstance(s, ast.Try)]
    assert len(tries) == 1, 'list_files: one try expected'
    t = tries[0]
    assert pyast.unparse(t.body[0]) == 'scandir = os.scandir(absolute_dirname)', 'list_files: scandir shape'
    h = t.handlers
    assert len(h) == 1
    if isinstance(h[0].type, ast.Tuple):
        caught = sorted(pyast.unparse(e) for e in h[0].type.elts)
    else:
        caught = [pyast.unparse(h[0].type)] if h[0].type is not None else ['BaseException']
    out['list_empty_only_when_missing'] = caught == ['FileNotFoundError', 'NotADirectoryError'] and isinstance(h[0].body[-1], ast.Return)
    out['list_split'] = 'prefix_dirname, prefix_basename = os.path.split(prefix)' in src and 'absolute_dirname = self.path / prefix_dirname' in src
    out['list_slice_by_scanned_dir'] = ("scanned_length = len(os.path.join(absolute_dirname, ''))" in src
                                        and 'path[scanned_length:]' in pyast.unparse(lf)
                                        and [pyast.unparse(n.value) for n in ast.walk(lf) if isinstance(n, ast.Yield)]
                                        == ["f'{prefix_dirname}/{path}' if prefix_dirname else path"])
    text = pyast.unparse(lf)
    out['list_first_level_filter'] = 'if not entry.name.startswith(prefix_basename):\n' in text and 'subentries = iterative_scandir(entry)' in text
    # the suffix filter uses the same literal as the temp files
    ends = _calls(lf, lambda c: _attr_call(c, 'endswith'))
    assert len(ends) == 1
    out['list_suffix_filter'] = ast.literal_eval(ends[0].args[0])
    return out


def s3_facts():
    tree = pyast.module('replicat/backends/s3c.py')
    C = pyast.find_class(tree, 'S3Compatible')
    lf = pyast.unparse(pyast.find_func(C, 'list_files'))
    out = {}
    out['list_loop'] = all(x in lf for x in (
        'is_truncated = True', 'continuation_token = None', 'while is_truncated:',
        "if tag == 'IsTruncated' and element.text == 'false':\n", 'is_truncated = False',
        "elif tag == 'NextContinuationToken':\n", 'continuation_token = element.text',
        "elif tag == 'Key':\n", 'yield element.text',
        'self._list_objects(continuation_token=continuation_token, prefix=prefix)'))
    lo = pyast.unparse(pyast.find_func(C, '_list_objects'))
    out['list_request'] = all(x in lo for x in ("query = {'list-type': '2'}", "query['continuation-token'] = continuation_token", "query['prefix'] = prefix"))
    ex = pyast.unparse(pyast.find_func(C, 'exists'))
    out['exists_404_false'] = 'if e.response.status_code == httpx.codes.NOT_FOUND:\n' in ex and 'return False' in ex and 'return True' in ex and "'HEAD'" in ex
    verbs = {}
    for fn, verb in (('_put_object', 'PUT'), ('_put_object_stream', 'PUT'), ('download', 'GET'), ('download_stream', 'GET'), ('delete', 'DELETE')):
        s = pyast.unparse(pyast.find_func(C, fn))
        verbs[fn] = (f"'{verb}'" in s) and ("f'/{self.bucket_name}/{name}'" in s)
    out['object_requests'] = all(verbs.values())
    return out


def b2_facts():
    tree = pyast.module('replicat/backends/b2.py')
    C = pyast.find_class(tree, 'B2')
    out = {}
    d = pyast.find_func(C, 'delete')
    tolerated = None
    for n in ast.walk(d):
        if isinstance(n, ast.Compare) and pyast.unparse(n.left) == "decoded_error.get('code')" and isinstance(n.ops[0], ast.In):
            tolerated = list(ast.literal_eval(n.comparators[0]))
    assert tolerated is not None, 'b2.delete: tolerated codes not found'
    out['hide_tolerated'] = tolerated
    out['delete_is_hide'] = 'b2_hide_file' in pyast.unparse(d) and 'if e.response.status_code == httpx.codes.BAD_REQUEST:' in pyast.unparse(d)
    lf = pyast.unparse(pyast.find_func(C, 'list_files'))
    out['list_loop'] = all(x in lf for x in (
        'start_file_name = None', 'while True:', 'self._list_file_names(start_file_name=start_file_name, prefix=prefix)',
        "for file in decoded['files']:\n", "yield file['fileName']", "if decoded['nextFileName'] is None:\n", 'break',
        "start_file_name = decoded['nextFileName']"))
    lfn = pyast.unparse(pyast.find_func(C, '_list_file_names'))
    out['list_request'] = "'prefix': prefix" in lfn and "params['startFileName'] = start_file_name" in lfn
    quoted = True
    for fn in ('exists', 'download', 'download_stream'):
        quoted &= "url = f'{self._auth.downloadUrl}/file/{bucket.name}/{quote(name)}'" in pyast.unparse(pyast.find_func(C, fn))
    for fn in ('upload', 'upload_stream'):
        quoted &= "'x-bz-file-name': quote(name)" in pyast.unparse(pyast.find_func(C, fn))
    out['name_quoted_everywhere'] = quoted
    ex = pyast.unparse(pyast.find_func(C, 'exists'))
    out['exists_404_false'] = 'if e.response.status_code == httpx.codes.NOT_FOUND:\n' in ex and 'return False' in ex and 'self._client.head(' in ex
    return out


@unit('C13Facts')
def c13_facts():
    lo, s3, b2 = local_facts(), s3_facts(), b2_facts()
    out = ['From Coq Require Import String NArith List.', 'Import ListNotations.', 'Open Scope string_scope.', '']
    out.append(f'Definition local_tmp_suffix : list N := {_coq_codes(lo["tmp_suffix"])}.')
    out.append(f'Definition local_list_suffix_filter : list N := {_coq_codes(lo["list_suffix_filter"])}.')
    for k in ('tmp_in_parent', 'mkdir_parents', 'temp_then_replace', 'destination_only_renamed_onto', 'download_size_of_open_file', 'download_reads_whole_file', 'delete_missing_ok', 'exists_is_path_exists',
              'list_empty_only_when_missing', 'list_split', 'list_slice_by_scanned_dir', 'list_first_level_filter'):
        out.append(f'Definition local_{k} : bool := {_b(lo[k])}.')
    for k in ('list_loop', 'list_request', 'exists_404_false', 'object_requests'):
        out.append(f'Definition s3_{k} : bool := {_b(s3[k])}.')
    out.append('Definition b2_hide_tolerated : list string := [' + '; '.join(coq_str(c) for c in b2['hide_tolerated']) + '].')
    for k in ('delete_is_hide', 'list_loop', 'list_request', 'name_quoted_everywhere', 'exists_404_false'):
        out.append(f'Definition b2_{k} : bool := {_b(b2[k])}.')
    return '\n'.join(out) + '\n'
