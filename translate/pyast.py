"""Helpers to locate things in /repo's source by AST."""
import ast, os
from pathlib import Path
REPO = Path(os.environ.get('VERIF_REPO', '/repo'))
_cache = {}


def module(rel):
    p = REPO / rel
    key = (str(p), p.stat().st_mtime_ns)
    if key not in _cache:
        _cache[key] = ast.parse(p.read_text())
    return _cache[key]


def source(rel):
    return (REPO / rel).read_text()


def find_class(tree, name):
    for n in ast.walk(tree):
        if isinstance(n, ast.ClassDef) and n.name == name:
            return n
    raise LookupError(f'class {name} not found')


def find_func(node, name):
    for n in ast.walk(node):
        if isinstance(n, (ast.FunctionDef, ast.AsyncFunctionDef)) and n.name == name:
            return n
    raise LookupError(f'function {name} not found')


def class_const(cls, name):
    for n in cls.body:
        if isinstance(n, ast.Assign) and len(n.targets) == 1 and isinstance(n.targets[0], ast.Name) and n.targets[0].id == name:
            return ast.literal_eval(n.value)
        if isinstance(n, ast.AnnAssign) and isinstance(n.target, ast.Name) and n.target.id == name:
            return ast.literal_eval(n.value)
    raise LookupError(f'constant {name} not found')


def module_const(tree, name):
    for n in tree.body:
        if isinstance(n, ast.Assign) and len(n.targets) == 1 and isinstance(n.targets[0], ast.Name) and n.targets[0].id == name:
            return ast.literal_eval(n.value)
    raise LookupError(f'constant {name} not found')


def dump(node):
    return ast.dump(node, annotate_fields=False)


def unparse(node):
    return ast.unparse(node)
