"""Structural source facts about snapshot / delete_snapshots / clean / _load_snapshots consumed by
the C02 C03 C06 C07 C08 theorems' tie (Gen/RepoFacts.v).  Every fact is established by looking at
the AST of the working tree; a fact that no longer holds makes the unit raise (fail closed)."""
import ast
from . import pyast
from .units import unit


def _pos(src, needle, start=0):
    i = src.find(needle, start)
    assert i >= 0, f'statement not found: {needle}'
    return i


@unit('RepoFacts')
def repo_facts():
    repo = pyast.module('replicat/repository.py')
    R = pyast.find_class(repo, 'Repository')
    out = ['(* source facts: each definition exists only because the translator found the shape it names *)']

    # ---- snapshot: exists-check, upload if missing, _chunk_done only after; snapshot object last
    snap = pyast.find_func(R, 'snapshot')
    worker = pyast.find_func(snap, '_worker')
    w = ast.unparse(worker)
    i_ex = _pos(w, 'exists = await self._exists(chunk.location)')
    i_if = _pos(w, 'if exists:', i_ex)
    i_done1 = _pos(w, '_chunk_done(chunk)', i_if)
    i_else = _pos(w, 'else:', i_done1)
    i_up = _pos(w, 'self.backend.upload_stream', i_else)
    i_done2 = _pos(w, '_chunk_done(chunk)', i_up)
    assert w.count('_chunk_done(chunk)') == 2
    # the only source of "exists" is the backend, asked now (nothing remembered from an earlier command or another chunk)
    assigns = [n for n in ast.walk(worker) if isinstance(n, (ast.Assign, ast.AnnAssign, ast.AugAssign, ast.NamedExpr))
               and any(isinstance(t, ast.Name) and t.id == 'exists' for t in ast.walk(n.targets[0] if isinstance(n, ast.Assign) else n.target))]
    assert len(assigns) == 1 and ast.unparse(assigns[0]) == 'exists = await self._exists(chunk.location)', 'exists must come from the backend only'
    out.append('Definition fact_worker_checks_then_uploads_then_records : bool := true.')
    s = ast.unparse(snap)
    i_gather = _pos(s, 'await asyncio.gather(*(_worker() for _ in range(self._concurrent)))')
    i_prod = _pos(s, 'await chunk_producer', i_gather)
    # the producer thread's outcome is collected on EVERY path (its failure - a source that cannot be read - fails the command)
    tries = [n for n in ast.walk(snap) if isinstance(n, ast.Try) and 'asyncio.gather(*(_worker()' in ast.unparse(n.body)]
    assert len(tries) == 1 and [ast.unparse(x) for x in tries[0].finalbody] == ['await chunk_producer'], 'chunk producer must be awaited in the finally of the workers\' gather'
    assert all(isinstance(h.body[-1], ast.Raise) and h.body[-1].exc is None for h in tries[0].handlers), 'worker failures must propagate'
    i_body = _pos(s, 'serialized_snapshot = self._encrypt_snapshot_body(snapshot_body)', i_prod)
    i_upl = _pos(s, 'await self._upload_data(location, serialized_snapshot)', i_body)
    assert s.count('self._upload_data(') == 1
    # the upload of the snapshot object is a top-level statement of snapshot(), after the with block of the gather
    tops = [ast.unparse(n) for n in snap.body]
    k_with = max(i for i, t in enumerate(tops) if 'asyncio.gather(*(_worker()' in t)
    k_upl = max(i for i, t in enumerate(tops) if t.startswith('await self._upload_data(location, serialized_snapshot)'))
    assert k_with < k_upl, 'snapshot object must be uploaded after all workers have finished'
    out.append('Definition fact_snapshot_object_uploaded_last : bool := true.')
    out.append('Definition fact_producer_outcome_collected_on_every_path : bool := true.')
    assert "snapshot_body = {'chunks': list(chunks_table), 'data': snapshot_data}" in s
    out.append('Definition fact_snapshot_table_is_chunk_table : bool := true.')

    # ---- delete_snapshots
    dl = pyast.find_func(R, 'delete_snapshots')
    d = ast.unparse(dl)
    loops = [n for n in dl.body if isinstance(n, ast.AsyncFor)]
    assert len(loops) == 1 and ast.unparse(loops[0].iter) == 'self._load_snapshots()', 'delete must load ALL snapshots (no filter)'
    body = loops[0].body
    assert ast.unparse(body[0]) == 'name = self.parse_snapshot_location(path).name'
    cond = body[1]
    assert isinstance(cond, ast.If) and ast.unparse(cond.test) == 'name in remaining_names'
    first = cond.body[0]
    assert isinstance(first, ast.If) and ast.unparse(first.test) == "(snapshot_data := body['data']) is None" and isinstance(first.body[0], ast.Raise), \
        'a named snapshot whose data cannot be read must be refused before anything is recorded'
    assert any(ast.unparse(n) == "chunks_to_delete.update(body['chunks'])" for n in cond.body)
    assert len(cond.orelse) == 1 and ast.unparse(cond.orelse[0]) == "chunks_to_keep.update(body['chunks'])", \
        'every other loaded snapshot (readable or not) must protect its chunks'
    out.append('Definition fact_delete_keeps_chunks_of_all_other_loaded_snapshots : bool := true.')
    i_rem = _pos(d, 'if remaining_names:')
    i_raise = _pos(d, 'raise exceptions.ReplicatError', i_rem)
    i_diff = _pos(d, 'chunks_to_delete.difference_update(chunks_to_keep)', i_raise)
    i_g1 = _pos(d, 'await asyncio.gather(*map(_delete_snapshot, snapshots_locations))', i_diff)
    i_g2 = _pos(d, 'await asyncio.gather(*map(_delete_chunk, chunks_to_delete))', i_g1)
    assert d.count('self._delete(') == 2
    out.append('Definition fact_delete_refuses_before_mutating : bool := true.')
    out.append('Definition fact_delete_snapshots_then_chunks : bool := true.')

    # ---- clean
    cl = pyast.find_func(R, 'clean')
    c = ast.unparse(cl)
    i_ref = _pos(c, "referenced_digests = {y async for _, x in self._load_snapshots() for y in x['chunks']}")
    i_loc = _pos(c, 'referenced_locations = set(map(self._chunk_digest_to_location, referenced_digests))', i_ref)
    i_list = _pos(c, 'self._aiter(self.backend.list_files, self.CHUNK_PREFIX)', i_loc)
    i_skip = _pos(c, 'if location in referenced_locations:', i_list)
    i_tag = _pos(c, 'if self.props.mac(bytes.fromhex(name)) != bytes.fromhex(tag):', i_skip)
    i_add = _pos(c, 'to_delete.add(location)', i_tag)
    i_del = _pos(c, 'await asyncio.gather(*map(_delete_chunk, to_delete))', i_add)
    out.append('Definition fact_clean_loads_then_lists_then_checks_tag : bool := true.')

    # ---- _load_snapshots: foreign tags are skipped, contents verified against the name
    ls = pyast.find_func(R, '_load_snapshots')
    l = ast.unparse(ls)
    _pos(l, 'if self.props.encrypted and self.props.mac(digest) != bytes.fromhex(tag):')
    _pos(l, 'self._aiter(self.backend.list_files, self.SNAPSHOT_PREFIX)')
    # a snapshot that is listed, carries our tag and fails verification aborts the command: nothing is skipped silently
    inner = pyast.find_func(ls, '_download_snapshot')
    assert not [n for n in ast.walk(inner) if isinstance(n, ast.Try)], '_download_snapshot must not swallow errors'
    dts = pyast.find_func(R, '_download_snapshot_threadsafe')
    raises = [n for n in ast.walk(dts) if isinstance(n, ast.Raise)]
    assert raises and all('ReplicatError' in ast.unparse(r) for r in raises), 'digest mismatch must raise'
    assert not [n for n in ast.walk(dts) if isinstance(n, ast.Try) and any('ReplicatError' in ast.unparse(h) or h.type is None for h in n.handlers)]
    # the only failure that is tolerated there is a missing cache entry: the download of a listed snapshot that fails, fails the
    # command (a snapshot left out of the loaded set would lose its chunks to the next clean / delete)
    tries = [n for n in ast.walk(dts) if isinstance(n, ast.Try)]
    assert all([ast.unparse(b) for b in t.body] == ['contents = self._get_cached(path)'] and
               [ast.unparse(h.type) for h in t.handlers] == ['FileNotFoundError'] for t in tries), \
        'only the cache lookup may be guarded in _download_snapshot_threadsafe'
    assert 'contents = self._download_threadsafe(path, loop=loop)' in ast.unparse(dts)
    assert [ast.unparse(n) for n in ast.walk(dts) if isinstance(n, ast.Return)] == ['return body'], 'every loaded snapshot yields its body'
    body_async_for = [n for n in ast.walk(ls) if isinstance(n, ast.AsyncFor)]
    assert not [n for f in body_async_for for n in ast.walk(f) if isinstance(n, ast.Try)], 'no error swallowing while collecting snapshots'
    out.append('Definition fact_load_skips_foreign_tags : bool := true.')
    out.append('Definition fact_load_aborts_on_corrupted_snapshot : bool := true.')
    out.append('Definition fact_load_fails_when_a_listed_snapshot_cannot_be_downloaded : bool := true.')
    dec = ast.unparse(pyast.find_func(R, '_decrypt_snapshot_body'))
    _pos(dec, "data = self.props.decrypt(body['data'], self.props.userkey)")
    i_exc = _pos(dec, "except exceptions.DecryptionError:")
    _pos(dec, "body['data'] = None", i_exc)
    out.append('Definition fact_unreadable_data_is_none : bool := true.')

    names = [ln.split()[1] for ln in out if ln.startswith('Definition')]
    out.append('Definition all_repo_facts : bool := ' + ' && '.join(names) + '.')
    return 'From Coq Require Import Bool.\n' + '\n'.join(out) + '\n'
