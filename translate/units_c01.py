"""C01/C14 translated units: the arithmetic of _stream_files (padding), _chunk_done
(attribution of chunk ranges to files), the restore plan and _write_file_part."""
import ast
from . import pyast, pyexpr
from .units import unit

HDR = 'From Coq Require Import ZArith Bool String.\nLocal Open Scope Z_scope.\n\n'


def _assign_value(fn, name):
    for n in ast.walk(fn):
        if isinstance(n, ast.Assign) and len(n.targets) == 1 and ast.unparse(n.targets[0]) == name:
            return n.value
        if isinstance(n, ast.NamedExpr) and ast.unparse(n.target) == name:
            return n.value
    raise LookupError(f'assignment to {name} not found')


def _calls(fn, dotted):
    return [n for n in ast.walk(fn) if isinstance(n, ast.Call) and ast.unparse(n.func) == dotted]


@unit('StreamGen')
def stream_gen():
    repo = pyast.module('replicat/repository.py')
    R = pyast.find_class(repo, 'Repository')
    snap = pyast.find_func(R, 'snapshot')
    out = [HDR]
    env = {'file.stream_start': 'fs', 'file.stream_end': 'fe', 'chunk.stream_start': 'cs', 'chunk.stream_end': 'ce'}
    sig = '(fs fe cs ce : Z)'

    # ---- _chunk_done
    cd = pyast.find_func(snap, '_chunk_done')
    bis = _calls(cd, 'bisect.bisect_left')
    assert len(bis) == 1 and ast.unparse(bis[0].args[0]) == 'state.files', 'bisect_left(state.files, ...) expected'
    key = bis[0].args[1]
    assert isinstance(key, ast.Tuple) and len(key.elts) == 1, 'bisect key must be a 1-tuple'
    out.append(f'(* bisect.bisect_left(state.files, ({ast.unparse(key.elts[0])},)) : files with stream_start < key are visited *)')
    out.append(f'Definition gen_bisect_key {sig} : Z := {pyexpr.z(key.elts[0], env)}.')
    loops = [n for n in ast.walk(cd) if isinstance(n, ast.For)]
    assert len(loops) == 1, 'one for loop expected in _chunk_done'
    loop = loops[0]
    assert ast.unparse(loop.iter) == 'range(bisect_point - 1, -1, -1)', 'backwards loop from bisect_point - 1 expected'
    first = loop.body[0]
    assert isinstance(first, ast.Assign) and ast.unparse(first) == '_, file = state.files[index]'
    brk = loop.body[1]
    assert isinstance(brk, ast.If) and len(brk.body) == 1 and isinstance(brk.body[0], ast.Break) and not brk.orelse, 'break guard expected'
    out.append(f'Definition gen_break {sig} : bool := {pyexpr.b(brk.test, env)}.')
    out.append(f'Definition gen_part_start {sig} : Z := {pyexpr.z(_assign_value(cd, "part_start"), env)}.')
    out.append(f'Definition gen_part_end {sig} : Z := {pyexpr.z(_assign_value(cd, "part_end"), env)}.')
    appends = [n for n in ast.walk(loop) if isinstance(n, ast.Call) and ast.unparse(n.func) == "file_data['chunks'].append"]
    assert len(appends) == 1, 'one append of a chunk reference expected'
    d = appends[0].args[0]
    assert isinstance(d, ast.Dict)
    fields = {ast.literal_eval(k): ast.unparse(v) for k, v in zip(d.keys, d.values)}
    assert fields == {'range': '[part_start, part_end]', 'index': 'chunk.index', 'counter': 'chunk.counter'}, f'ref fields {fields}'
    out.append('Definition gen_ref_fields_ok : bool := true.')

    # ---- padding in _stream_files
    sf = pyast.find_func(snap, '_stream_files')
    pad = _assign_value(sf, 'padding_length')
    penv = {'prev_file.stream_end': 'pe', 'prev_file.stream_start': 'ps', 'alignment': 'a'}
    out.append(f'Definition gen_padding (ps pe a : Z) : Z := {pyexpr.z(pad, penv)}.')
    src_sf = ast.unparse(sf)
    assert 'yield bytes(padding_length)' in src_sf, 'padding must be yielded as zero bytes'
    assert 'state.files.append((file.stream_start, file))' in src_sf
    out.append('Definition gen_padding_is_zero_bytes : bool := true.')

    # ---- producer: counter and offsets
    cp = pyast.find_func(snap, '_chunk_producer')
    src_cp = ast.unparse(cp)
    for needle in ('state.chunk_counter += 1', 'stream_start = state.bytes_chunked', 'state.bytes_chunked += len(output_chunk)',
                   'counter=state.chunk_counter', 'stream_end=stream_start + len(output_chunk)',
                   'index = chunks_table[digest] = len(chunks_table)'):
        assert needle in src_cp, f'producer statement missing: {needle}'
    out.append('Definition gen_producer_ok : bool := true.')

    # ---- restore plan
    rs = pyast.find_func(R, 'restore')
    src_rs = ast.unparse(rs)
    assert "ordered_chunks = sorted(file_data['chunks'], key=lambda x: x['counter'])" in src_rs, 'refs must be sorted by counter'
    renv = {'start': 'rstart', 'end': 'rend', 'chunk_size': 'size', 'chunk_position': 'pos'}
    out.append(f'Definition gen_chunk_size (rstart rend : Z) : Z := {pyexpr.z(_assign_value(rs, "chunk_size"), renv)}.')
    aug = [n for n in ast.walk(rs) if isinstance(n, ast.AugAssign) and ast.unparse(n.target) == 'chunk_position']
    assert len(aug) == 1 and isinstance(aug[0].op, ast.Add), 'chunk_position += chunk_size expected'
    out.append(f'Definition gen_next_position (pos size : Z) : Z := pos + {pyexpr.z(aug[0].value, renv)}.')
    assert 'chunk_position = 0' in src_rs
    appends = [n for n in ast.walk(rs) if isinstance(n, ast.Call) and ast.unparse(n.func) == 'chunks_references[digest].append']
    assert len(appends) == 1 and ast.unparse(appends[0].args[0]) == '(file_path, chunk_size, chunk_position, start)', 'plan tuple'
    wr = pyast.find_func(rs, '_write_chunk_ref')
    assert ast.unparse(wr.body[0]) == 'file_path, chunk_size, stream_start, start = ref', 'ref unpacking'
    wcalls = _calls(wr, 'self._write_file_part')
    assert len(wcalls) == 1
    data_arg, off_arg = wcalls[0].args[1], wcalls[0].args[2]
    assert isinstance(data_arg, ast.Subscript) and ast.unparse(data_arg.value) == 'contents' and isinstance(data_arg.slice, ast.Slice)
    senv = {'start': 'rstart', 'chunk_size': 'size'}
    out.append(f'Definition gen_slice_lo (rstart size : Z) : Z := {pyexpr.z(data_arg.slice.lower, senv)}.')
    out.append(f'Definition gen_slice_hi (rstart size : Z) : Z := {pyexpr.z(data_arg.slice.upper, senv)}.')
    assert ast.unparse(off_arg) == 'stream_start', 'write offset must be the planned position'
    out.append('Definition gen_write_offset_is_position : bool := true.')
    # finalisation: truncate to the planned size before the timestamps
    dl = pyast.find_func(rs, '_download_chunk')
    src_dl = ast.unparse(dl)
    i1, i2 = src_dl.find('os.truncate(restore_path, size)'), src_dl.find('self.restore_metadata(restore_path, metadata)')
    assert 0 <= i1 < i2, 'finalisation must truncate to the recorded size, then restore the timestamps'
    assert "files_metadata[file_path] = (restore_to, file_data['metadata'], chunk_position)" in src_rs
    out.append('Definition gen_finalise_truncates_to_plan_size : bool := true.')

    # ---- _write_file_part
    wf = pyast.find_func(R, '_write_file_part')
    body = [n for n in wf.body if not (isinstance(n, ast.Expr) and isinstance(n.value, ast.Call) and ast.unparse(n.value.func) == 'logger.info')]
    assert isinstance(body[0], ast.Try) and ast.unparse(body[0].body[0]) == "file = path.open('r+b')", 'open r+b first'
    h = body[0].handlers
    assert len(h) == 1 and ast.unparse(h[0].type) == 'FileNotFoundError' and ast.unparse(h[0].body[-1]) == "file = path.open('wb')"
    w = body[1]
    assert isinstance(w, ast.With) and len(w.body) == 4, 'with file: four statements expected'
    assert ast.unparse(w.body[0]) == 'file_end = file.seek(0, io.SEEK_END)'
    tr = w.body[1]
    assert isinstance(tr, ast.Expr) and ast.unparse(tr.value.func) == 'file.truncate' and len(tr.value.args) == 1
    wenv = {'file_end': 'file_end', 'offset': 'offset', 'len(data)': 'len'}
    out.append(f'Definition gen_truncate_to (file_end offset len : Z) : Z := {pyexpr.z(tr.value.args[0], wenv)}.')
    assert ast.unparse(w.body[2]) == 'file.seek(offset)' and ast.unparse(w.body[3]) == 'file.write(data)'
    out.append('Definition gen_write_part_shape_ok : bool := true.')
    return '\n'.join(out) + '\n'
