"""C15 translated unit (coq/Gen/SelectGen.v): the sort keys / directions of restore and the two
listings, the first-wins guard, which matching method is applied to which string, the column
getters, the size expressions and bytes_to_human thresholds (through pyexpr), combine_regexes.
Values are read off the source with ast and emitted as Coq constants; Proofs/SelectTie.v states what
they must be, so a changed fact breaks a named lemma.  Only a source whose overall structure is gone
raises (fail closed)."""
import ast
import re as _re
from . import pyast, pyexpr
from .units import unit, coq_str


def _b(x):
    return 'true' if x else 'false'


def _u(node):
    return ast.unparse(node)


def _calls(node, dotted):
    return [n for n in ast.walk(node) if isinstance(n, ast.Call) and _u(n.func) == dotted]


def _sort_fact(fn, listname):
    """(key lambda body, reverse flag) of the single `<listname>.sort(...)` call in fn."""
    cs = _calls(fn, f'{listname}.sort')
    assert len(cs) == 1, f'one {listname}.sort(...) call expected'
    kw = {k.arg: k.value for k in cs[0].keywords}
    key = kw.get('key')
    body = _u(key.body) if isinstance(key, ast.Lambda) and [a.arg for a in key.args.args] == ['x'] else '<no key lambda>'
    rev = kw.get('reverse')
    return body, bool(isinstance(rev, ast.Constant) and rev.value is True)


def _filter_guard(stmt, rename):
    """`if <re> is not None and <re>.<method>(<arg>) is None: <skip>` -> (regex var, method, arg, skips)"""
    if not (isinstance(stmt, ast.If) and isinstance(stmt.test, ast.BoolOp) and isinstance(stmt.test.op, ast.And)
            and len(stmt.test.values) == 2 and not stmt.orelse):
        return ('?', '?', '?', False)
    a, c = stmt.test.values
    if not (isinstance(a, ast.Compare) and isinstance(a.ops[0], ast.IsNot) and _u(a.comparators[0]) == 'None'):
        return ('?', '?', '?', False)
    var = _u(a.left)
    if not (isinstance(c, ast.Compare) and isinstance(c.ops[0], ast.Is) and _u(c.comparators[0]) == 'None'
            and isinstance(c.left, ast.Call) and isinstance(c.left.func, ast.Attribute) and _u(c.left.func.value) == var
            and len(c.left.args) == 1 and not c.left.keywords):
        return (var, '?', '?', False)
    skips = isinstance(stmt.body[-1], (ast.Continue, ast.Return)) and (not isinstance(stmt.body[-1], ast.Return) or stmt.body[-1].value is None)
    return (var, c.left.func.attr, rename.get(_u(c.left.args[0]), _u(c.left.args[0])), skips)


def _returns(fn):
    rs = [n for n in ast.walk(fn) if isinstance(n, ast.Return)]
    return _u(rs[0].value) if len(rs) == 1 and rs[0].value is not None else '<not a single return>'


def _getters(fn, enum):
    for n in ast.walk(fn):
        if isinstance(n, ast.Assign) and _u(n.targets[0]) == 'columns_getters' and isinstance(n.value, ast.Dict):
            return [(_u(k).replace(enum + '.', ''), _u(v).replace('self.', '')) for k, v in zip(n.value.keys, n.value.values)]
    raise LookupError('columns_getters table not found')


def _coq_pairs(ps):
    return '[' + '; '.join(f'({coq_str(a)}, {coq_str(b)})' for a, b in ps) + ']'


class _Fold(ast.NodeTransformer):
    """constant ** constant -> constant; a <= b < c -> (a <= b) and (b < c): pyexpr's fragment"""

    def visit_BinOp(self, node):
        self.generic_visit(node)
        if isinstance(node.op, ast.Pow) and isinstance(node.left, ast.Constant) and isinstance(node.right, ast.Constant) \
                and isinstance(node.left.value, int) and isinstance(node.right.value, int) and 0 <= node.right.value <= 8:
            return ast.copy_location(ast.Constant(node.left.value ** node.right.value), node)
        return node

    def visit_Compare(self, node):
        self.generic_visit(node)
        if len(node.ops) == 1:
            return node
        parts, left = [], node.left
        for op, right in zip(node.ops, node.comparators):
            parts.append(ast.Compare(left, [op], [right]))
            left = right
        return ast.copy_location(ast.BoolOp(ast.And(), parts), node)


def _sum_term(fn, itname):
    """`<itname> = (<elt> for ... )` and `sum(r[1] - r[0] for r in <itname>)` -> (generator text, Z term);
    another shape yields a marker and the term 0, which the size lemmas of SelectTie.v reject"""
    try:
        gens = [n for n in ast.walk(fn) if isinstance(n, ast.Assign) and _u(n.targets[0]) == itname and isinstance(n.value, ast.GeneratorExp)]
        assert len(gens) == 1, f'{itname} generator expected'
        sums = [c for c in _calls(fn, 'sum') if len(c.args) == 1 and isinstance(c.args[0], ast.GeneratorExp)]
        assert len(sums) == 1, 'one sum(<generator>) expected'
        g = sums[0].args[0]
        assert len(g.generators) == 1 and _u(g.generators[0].iter) == itname and not g.generators[0].ifs, f'sum must range over {itname}'
        v = _u(g.generators[0].target)
        return _u(gens[0].value), pyexpr.z(g.elt, {f'{v}[0]': 'r0', f'{v}[1]': 'r1'})
    except (AssertionError, pyexpr.Untranslatable) as e:
        return f'<not a sum over chunk ranges: {e}>', '0'


@unit('SelectGen')
def select_gen():
    repo = pyast.module('replicat/repository.py')
    R = pyast.find_class(repo, 'Repository')
    out = ['From Coq Require Import ZArith Bool String List.', 'Import ListNotations.', 'Local Open Scope Z_scope.', '']
    S = lambda name, s: out.append(f'Definition {name} : string := {coq_str(s)}%string.')
    B = lambda name, v: out.append(f'Definition {name} : bool := {_b(v)}.')

    # ---------------------------------------------------------------- snapshot(): the timestamp
    sn = pyast.find_func(R, 'snapshot')
    now = [n for n in ast.walk(sn) if isinstance(n, ast.Assign) and _u(n.targets[0]) == 'now']
    S('gen_now_expr', _u(now[0].value) if len(now) == 1 else '<none>')
    ts = [v for n in ast.walk(sn) if isinstance(n, ast.Dict) for k, v in zip(n.keys, n.values)
          if isinstance(k, ast.Constant) and k.value == 'utc_timestamp']
    S('gen_timestamp_expr', _u(ts[0]) if len(ts) == 1 else '<none>')

    # ---------------------------------------------------------------- _load_snapshots: filter on the NAME
    ls = pyast.find_func(R, '_load_snapshots')
    dl = pyast.find_func(ls, '_download_snapshot')
    S('gen_load_parse', _u(dl.body[0]))
    rename = {}
    if isinstance(dl.body[0], ast.Assign) and _u(dl.body[0].value) == 'self.parse_snapshot_location(path)' \
            and isinstance(dl.body[0].targets[0], ast.Tuple) and len(dl.body[0].targets[0].elts) == 2:
        rename[_u(dl.body[0].targets[0].elts[0])] = 'parse_snapshot_location(path).name'
        rename[_u(dl.body[0].targets[0].elts[1])] = 'parse_snapshot_location(path).tag'
    rename['path'] = 'path'
    var, meth, arg, skips = _filter_guard(dl.body[1], rename)
    S('gen_snapshot_filter_method', meth)
    S('gen_snapshot_filter_subject', arg)
    B('gen_snapshot_filter_skips', skips)
    comp = [n for n in ast.walk(ls) if isinstance(n, ast.Assign) and _u(n.targets[0]) == var]
    S('gen_snapshot_filter_regex', _u(comp[0].value) if len(comp) == 1 else '<none>')
    S('gen_compile_or_none', _returns(pyast.find_func(R, '_compile_or_none')))

    # ---------------------------------------------------------------- restore
    rs = pyast.find_func(R, 'restore')
    key, rev = _sort_fact(rs, 'snapshots')
    S('gen_restore_sort_key', key)
    B('gen_restore_sort_reverse', rev)
    src = _u(rs)
    B('gen_restore_loads_filtered', 'snapshots_gen = self._load_snapshots(snapshot_regex=snapshot_regex)' in src)
    B('gen_restore_readable_only', "snapshots = [x async for _, x in snapshots_gen if x['data'] is not None]" in src)
    outer = [n for n in ast.walk(rs) if isinstance(n, ast.For) and _u(n.iter) == 'snapshots']
    assert len(outer) == 1, 'restore: one loop over the sorted snapshots expected'
    inner = [n for n in outer[0].body if isinstance(n, ast.For) and _u(n.iter) == "snapshot_data['files']"]
    assert len(inner) == 1, "restore: one loop over snapshot_data['files'] expected"
    body = inner[0].body
    g = body[0]
    first_wins = (isinstance(g, ast.If) and _u(g.test) == "(file_path := file_data['path']) in files_digests"
                  and len(g.body) == 1 and isinstance(g.body[0], ast.Continue) and not g.orelse)
    B('gen_restore_first_wins_guard', first_wins)
    var, meth, arg, skips = _filter_guard(body[1], {'file_path': "file_data['path']"})
    S('gen_restore_file_filter_method', meth)
    S('gen_restore_file_filter_subject', arg)
    B('gen_restore_file_filter_skips', skips)
    comp = [n for n in ast.walk(rs) if isinstance(n, ast.Assign) and _u(n.targets[0]) == var]
    S('gen_restore_file_filter_regex', _u(comp[0].value) if len(comp) == 1 else '<none>')
    marks = [i for i, s in enumerate(body) if isinstance(s, ast.Assign) and 'files_digests[file_path]' in [_u(t) for t in s.targets]]
    B('gen_restore_marks_after_filter', marks == [3] or marks == [2])
    B('gen_restore_result_is_taken_paths', 'return utils.DefaultNamespace(files=list(files_digests))' in src)

    # ---------------------------------------------------------------- list_snapshots
    lsn = pyast.find_func(R, 'list_snapshots')
    key, rev = _sort_fact(lsn, 'snapshots')
    S('gen_ls_sort_key', key)
    B('gen_ls_sort_reverse', rev)
    src = _u(lsn)
    B('gen_ls_rows_keyed_by_timestamp',
      'snapshots.append((snapshot_timestamp, row))' in src
      and "if snapshot_data is not None:\n            snapshot_timestamp = snapshot_data['utc_timestamp']\n        else:\n            snapshot_timestamp = None" in src)
    B('gen_ls_loads_filtered', 'self._load_snapshots(snapshot_regex=snapshot_regex)' in src)
    B('gen_ls_prints_sorted', 'for _, row in snapshots:' in src)
    out.append(f'Definition gen_ls_getters : list (string * string) := {_coq_pairs(_getters(lsn, "SnapshotListColumn"))}%string.')
    S('gen_fmt_snapshot_name', _returns(pyast.find_func(R, '_format_snapshot_name')))
    S('gen_fmt_snapshot_file_count', _returns(pyast.find_func(R, '_format_snapshot_file_count')))
    S('gen_extract_file_count', _returns(pyast.find_func(R, '_extract_snapshot_file_count')))
    S('gen_fmt_snapshot_size', _returns(pyast.find_func(R, '_format_snaphot_size')))
    S('gen_extract_timestamp', _returns(pyast.find_func(R, '_extract_snapshot_utc_timestamp')))
    ft = pyast.find_func(R, '_format_snapshot_utc_timestamp')
    S('gen_fmt_snapshot_timestamp', _u(ft.body[-1]))
    gen_text, term = _sum_term(pyast.find_func(R, '_extract_snapshot_size'), 'ranges_it')
    S('gen_snapshot_size_ranges', gen_text)
    out.append(f'Definition gen_snapshot_size_term (r0 r1 : Z) : Z := {term}.')

    # ---------------------------------------------------------------- list_files
    lf = pyast.find_func(R, 'list_files')
    key, rev = _sort_fact(lf, 'files')
    S('gen_lf_sort_key', key)
    B('gen_lf_sort_reverse', rev)
    src = _u(lf)
    B('gen_lf_rows_keyed_by_timestamp', "files.append((snapshot_data['utc_timestamp'], row))" in src)
    B('gen_lf_loads_filtered', 'self._load_snapshots(snapshot_regex=snapshot_regex)' in src)
    B('gen_lf_skips_unreadable', 'if snapshot_data is None:\n            continue' in src)
    B('gen_lf_prints_sorted', 'for _, row in files:' in src)
    inner = [n for n in ast.walk(lf) if isinstance(n, ast.For) and _u(n.iter) == "snapshot_data['files']"]
    assert len(inner) == 1, "list_files: one loop over snapshot_data['files'] expected"
    var, meth, arg, skips = _filter_guard(inner[0].body[0], {})
    S('gen_lf_file_filter_method', meth)
    S('gen_lf_file_filter_subject', arg)
    B('gen_lf_file_filter_skips', skips)
    comp = [n for n in ast.walk(lf) if isinstance(n, ast.Assign) and _u(n.targets[0]) == var]
    S('gen_lf_file_filter_regex', _u(comp[0].value) if len(comp) == 1 else '<none>')
    out.append(f'Definition gen_lf_getters : list (string * string) := {_coq_pairs(_getters(lf, "FileListColumn"))}%string.')
    S('gen_fmt_file_snapshot_name', _returns(pyast.find_func(R, '_format_file_snapshot_name')))
    S('gen_fmt_file_path', _returns(pyast.find_func(R, '_format_file_path')))
    S('gen_fmt_file_chunk_count', _returns(pyast.find_func(R, '_format_file_chunk_count')))
    S('gen_fmt_file_digest', _returns(pyast.find_func(R, '_format_file_digest')))
    fd = pyast.find_func(R, '_format_file_snapshot_date')
    S('gen_fmt_file_snapshot_date', '; '.join(_u(s) for s in fd.body))
    fsz = pyast.find_func(R, '_format_file_size')
    gen_text, term = _sum_term(fsz, 'ranges_it')
    S('gen_file_size_ranges', gen_text)
    out.append(f'Definition gen_file_size_term (r0 r1 : Z) : Z := {term}.')
    B('gen_file_size_humanised', _returns(fsz).startswith('utils.bytes_to_human(sum('))

    # ---------------------------------------------------------------- delete_snapshots
    de = pyast.find_func(R, 'delete_snapshots')
    src = _u(de)
    loops = [n for n in ast.walk(de) if isinstance(n, ast.AsyncFor)]
    assert len(loops) == 1, 'delete_snapshots: one loading loop expected'
    S('gen_delete_loads', _u(loops[0].iter))
    S('gen_delete_name', _u(loops[0].body[0]))
    test = loops[0].body[1]
    S('gen_delete_test', _u(test.test) if isinstance(test, ast.If) else '<none>')
    B('gen_delete_names_are_the_arguments', 'remaining_names = set(snapshots)' in src)
    B('gen_delete_refuses_other_key',
      isinstance(test, ast.If) and isinstance(test.body[0], ast.If) and _u(test.body[0].test) == "(snapshot_data := body['data']) is None"
      and isinstance(test.body[0].body[0], ast.Raise))
    i_raise = src.find('if remaining_names:\n        raise exceptions.ReplicatError(')
    i_del = min([i for i in (src.find('self._delete('), src.find('asyncio.gather(')) if i >= 0] or [-1])
    B('gen_delete_refuses_unknown_before_deleting', 0 <= i_raise < i_del)

    # ---------------------------------------------------------------- utils: combine_regexes, bytes_to_human
    ut = pyast.module('replicat/utils/__init__.py')
    cr = pyast.find_func(ut, 'combine_regexes')
    arg0 = cr.args.args[0].arg
    ret = cr.body[-1].value if isinstance(cr.body[-1], ast.Return) else None
    assert (isinstance(ret, ast.Call) and isinstance(ret.func, ast.Attribute) and ret.func.attr == 'join'
            and isinstance(ret.func.value, ast.Constant) and isinstance(ret.func.value.value, str)
            and len(ret.args) == 1 and _u(ret.args[0]) == arg0 and len(cr.body) == 1), 'combine_regexes: <sep>.join(<argument>) expected'
    sep = ret.func.value.value
    out.append(f'Definition gen_combine ({arg0} : list string) : string := String.concat {coq_str(sep)} {arg0}.')
    mn = pyast.module('replicat/__main__.py')
    co = pyast.find_func(mn, '_combine_optional_regexes')
    v = co.args.args[0].arg
    r = co.body[-1].value
    assert (isinstance(r, ast.IfExp) and _u(r.test) == f'{v} is not None' and _u(r.body) == f'utils.combine_regexes({v})'
            and _u(r.orelse) == 'None'), '_combine_optional_regexes: combine if not None else None expected'
    out.append(f'Definition gen_combine_optional ({v} : option (list string)) : option string :=\n'
               f'  match {v} with Some {v} => Some (gen_combine {v}) | None => None end.')
    kws = [(k.arg, _u(k.value)) for n in ast.walk(mn) if isinstance(n, ast.Call)
           and _u(n.func) in ('repository.restore', 'repository.list_files', 'repository.list_snapshots')
           for k in n.keywords if k.arg in ('snapshot_regex', 'file_regex')]
    B('gen_cli_filters_combined', sorted(kws) == sorted(
        [('snapshot_regex', '_combine_optional_regexes(args.snapshot_regex)')] * 3
        + [('file_regex', '_combine_optional_regexes(args.file_regex)')] * 2))

    bh = pyast.find_func(ut, 'bytes_to_human')
    assert [a.arg for a in bh.args.args] == ['value', 'prec'], 'bytes_to_human(value, prec)'
    out.append(f'Definition gen_bth_prec : Z := {ast.literal_eval(bh.args.defaults[0])}.')
    chain = bh.body[0]

    def walk_chain(node, pick):
        if isinstance(node, list):
            assert len(node) == 1, 'bytes_to_human: one statement per branch expected'
            node = node[0]
        if isinstance(node, ast.If):
            cond = pyexpr.b(_Fold().visit(ast.parse(_u(node.test), mode='eval').body), {'value': 'value'})
            return f'(if {cond} then {walk_chain(node.body, pick)} else {walk_chain(node.orelse, pick)})'
        assert isinstance(node, ast.Assign) and _u(node.targets[0]).strip('()') == 'divisor, unit' and isinstance(node.value, ast.Tuple), \
            'bytes_to_human: divisor, unit = ... expected'
        d, u = node.value.elts
        if pick == 'divisor':
            return pyexpr.z(_Fold().visit(ast.parse(_u(d), mode='eval').body), {})
        return coq_str(ast.literal_eval(u)) + '%string'
    out.append(f'Definition gen_bth_divisor (value : Z) : Z := {walk_chain(chain, "divisor")}.')
    out.append(f'Definition gen_bth_unit (value : Z) : string := {walk_chain(chain, "unit")}.')
    S('gen_bth_format', _returns(bh))

    # ---------------------------------------------------------------- what CPython's re answers on the finding's witnesses
    def observed(ps, s):
        try:
            return 'Some ' + _b(_re.compile(sep.join(ps)).search(s) is not None)
        except _re.error:
            return 'None'
    rows = []
    for ps, s in ((['(x)\\1'], 'yy'), (['(y)\\1'], 'yy'), (['(x)\\1', '(y)\\1'], 'yy'),
                  (['x'], 'ABC'), (['(?i)abc'], 'ABC'), (['x', '(?i)abc'], 'ABC')):
        rows.append(f'({coq_str(sep.join(ps))}%string, {coq_str(s)}%string, {observed(ps, s)})')
    out.append('(* re.compile(<joined pattern>).search(<string>) is not None; None = re.error *)')
    out.append('Definition gen_re_observed : list (string * string * option bool) := [' + '; '.join(rows) + '].')
    return '\n'.join(out) + '\n'
