"""C12 source facts (coq/Gen/C12Facts.v): retry budgets, giveup predicates, decorators present on every
adapter method, what the except paths do (rewind, unlink), truncate-before-write, seek(0) after hashing,
bounded re-authentication, wrappers forwarding seek/truncate.  ast only; unexpected shapes raise."""
import ast
from . import pyast
from .units import unit


def _b(x):
    return 'true' if x else 'false'


def _decorators(fn):
    return [pyast.unparse(d) for d in fn.decorator_list]


def _on_exception(call, partial=False):
    """(exception class, max_tries, giveup name or None, on_backoff names) of a backoff.on_exception(...) call
    or functools.partial(backoff.on_exception, ...)"""
    args = list(call.args)
    if partial:
        assert pyast.unparse(call.func) == 'functools.partial' and pyast.unparse(args[0]) == 'backoff.on_exception'
        args = args[1:]
    else:
        assert pyast.unparse(call.func) == 'backoff.on_exception', pyast.unparse(call.func)
    kw = {k.arg: k.value for k in call.keywords}
    assert 'max_tries' in kw, 'no max_tries: unbounded retries'
    assert 'max_time' not in kw
    mt = ast.literal_eval(kw['max_tries'])
    assert isinstance(mt, int) and mt >= 1
    giveup = pyast.unparse(kw['giveup']) if 'giveup' in kw else None
    return pyast.unparse(args[1]), mt, giveup


def _assign(tree, name):
    for n in tree.body:
        if isinstance(n, ast.Assign) and len(n.targets) == 1 and isinstance(n.targets[0], ast.Name) and n.targets[0].id == name:
            return n.value
    raise LookupError(name)


def _bare_handler(fn):
    """The single try of fn and its bare `except:` handler's statements (unparsed)."""
    tries = [n for n in ast.walk(fn) if isinstance(n, ast.Try)]
    tries = [t for t in tries if any(h.type is None for h in t.handlers)]
    assert len(tries) == 1, f'{fn.name}: exactly one try with a bare except expected'
    t = tries[0]
    h = [h for h in t.handlers if h.type is None][0]
    return t, [pyast.unparse(s) for s in h.body]


def _check_403_ok(tree):
    fn = pyast.find_func(tree, '_check_403')
    return pyast.unparse(fn.body[0]) == 'return isinstance(e, httpx.HTTPStatusError) and e.response.status_code == httpx.codes.FORBIDDEN'


def collect():
    f = {}
    # ---- local
    lt = pyast.module('replicat/backends/local.py')
    exc, mt, giveup = _on_exception(_assign(lt, 'backoff_on_oserror'))
    assert exc == 'OSError' and giveup is None
    f['local_max_tries'] = mt
    L = pyast.find_class(lt, 'Local')
    f['local_decorated'] = all(_decorators(pyast.find_func(L, m)) == ['backoff_on_oserror']
                               for m in ('exists', 'upload', 'upload_stream', 'download', 'download_stream', 'list_files', 'delete'))
    t, h = _bare_handler(pyast.find_func(L, 'upload'))
    f['local_upload_unlinks_temp'] = h == ['temp.unlink(missing_ok=True)', 'raise']
    t, h = _bare_handler(pyast.find_func(L, 'upload_stream'))
    f['local_upload_stream_unlinks_temp'] = 'temp.unlink(missing_ok=True)' in h and h[-1] == 'raise'
    f['local_upload_stream_rewinds'] = 'stream.seek(0)' in h and h[-1] == 'raise'
    ds = pyast.find_func(L, 'download_stream')
    t, h = _bare_handler(ds)
    f['local_download_stream_rewinds'] = h == ['stream.seek(0)', 'raise']
    f['local_download_stream_truncates'] = (pyast.unparse(t.body[0]) == 'stream.truncate(length)'
                                            and 'length = os.fstat(file.fileno()).st_size' in [pyast.unparse(s) for s in ds.body])
    # ---- S3
    st = pyast.module('replicat/backends/s3c.py')
    exc, mt, giveup = _on_exception(_assign(st, 'backoff_on_httperror'))
    assert exc == 'httpx.HTTPError'
    f['s3_max_tries'] = mt
    f['s3_giveup_403'] = giveup == '_check_403' and _check_403_ok(st)
    C = pyast.find_class(st, 'S3Compatible')
    f['s3_decorated'] = all(_decorators(pyast.find_func(C, m)) == ['backoff_on_httperror']
                            for m in ('exists', '_put_object', '_put_object_stream', 'download', 'download_stream', '_list_objects', 'delete'))
    f['s3_upload_calls_retried'] = ('await self._put_object(name, data, payload_digest)' in pyast.unparse(pyast.find_func(C, 'upload'))
                                    and 'await self._put_object_stream(' in pyast.unparse(pyast.find_func(C, 'upload_stream')))
    hx = pyast.find_func(st, '_get_stream_hexdigest')
    body = [pyast.unparse(s) for s in hx.body]
    f['s3_hash_seek0'] = body[-2:] == ['stream.seek(0)', 'return hasher.hexdigest()']
    us = pyast.find_func(C, 'upload_stream')
    f['s3_hash_before_retries'] = pyast.unparse(us.body[0]) == 'payload_digest = _get_stream_hexdigest(stream)'
    t, h = _bare_handler(pyast.find_func(C, '_put_object_stream'))
    f['s3_put_stream_rewinds'] = h == ['stream.seek(0)', 'raise']
    t, h = _bare_handler(pyast.find_func(C, 'download_stream'))
    f['s3_download_stream_rewinds'] = h == ['stream.seek(0)', 'raise']
    f['s3_download_stream_truncates'] = (pyast.unparse(t.body[0]) == 'stream.truncate(content_length)' and isinstance(t.body[1], ast.AsyncFor)
                                         and "content_length = response.headers.get('content-length')" in pyast.unparse(pyast.find_func(C, 'download_stream')))
    hook = pyast.unparse(pyast.find_func(st, '_raise_for_status_hook'))
    f['s3_hook_raises_status'] = 'response.raise_for_status()' in hook and 'AuthRequired' not in hook
    # ---- B2
    bt = pyast.module('replicat/backends/b2.py')
    exc, mt, giveup = _on_exception(_assign(bt, '_backoff_decorator'), partial=True)
    assert exc == 'httpx.HTTPError'
    f['b2_max_tries'] = mt
    f['b2_giveup_403'] = giveup == '_check_403' and _check_403_ok(bt)
    f['b2_backoff_handlers'] = (pyast.unparse(_assign(bt, 'backoff_reauth')) == '_backoff_decorator(on_backoff=[_wait_and_trigger_reauth])'
                                and pyast.unparse(_assign(bt, 'backoff_no_reauth')) == '_backoff_decorator(on_backoff=[_wait_without_reauth])')
    B = pyast.find_class(bt, 'B2')
    f['b2_decorated'] = (all(_decorators(pyast.find_func(B, m)) == ['utils.requires_auth', 'backoff_reauth']
                             for m in ('_get_bucket', 'exists', '_get_upload_url_token', 'upload', 'upload_stream', 'download',
                                       'download_stream', '_list_file_names', 'delete'))
                         and _decorators(pyast.find_func(B, 'authenticate')) == ['backoff_no_reauth'])
    w = pyast.unparse(pyast.find_func(bt, '_wait_and_trigger_reauth'))
    f['b2_on_backoff_reauth_unless_429'] = ('if exc.response.status_code == httpx.codes.TOO_MANY_REQUESTS:\n            return' in w
                                            and 'raise exceptions.AuthRequired' in w and 'if isinstance(exc, httpx.HTTPStatusError):' in w)
    hook = pyast.unparse(pyast.find_func(bt, '_raise_for_status_hook'))
    f['b2_hook_401_auth'] = 'if e.response.status_code == httpx.codes.UNAUTHORIZED:\n            raise exceptions.AuthRequired from e' in hook
    t, h = _bare_handler(pyast.find_func(B, 'upload_stream'))
    f['b2_upload_stream_rewinds'] = h == ['stream.seek(0)', 'raise']
    f['b2_upload_gets_fresh_url_each_try'] = all(
        isinstance(pyast.find_func(B, m).body[0], ast.Assign)
        and pyast.unparse(pyast.find_func(B, m).body[0].value) == 'await self._get_upload_url_token()' for m in ('upload', 'upload_stream'))
    g = pyast.find_func(B, '_get_upload_url_token')
    rets = [n for n in ast.walk(g) if isinstance(n, ast.Return)]
    stores = [n for n in ast.walk(g) if isinstance(n, ast.Attribute) and isinstance(n.ctx, (ast.Store, ast.Del)) and pyast.unparse(n.value) == 'self']
    # every call asks the service for a new upload URL / token pair: nothing is kept on the instance, the only return is the fresh pair
    f['b2_upload_url_not_cached'] = (len(rets) == 1 and g.body[-1] is rets[0] and not stores and 'b2_get_upload_url' in pyast.unparse(g)
                                     and pyast.unparse(rets[0].value) == "(decoded['uploadUrl'], decoded['authorizationToken'])")
    t, h = _bare_handler(pyast.find_func(B, 'download_stream'))
    f['b2_download_stream_rewinds'] = h == ['stream.seek(0)', 'raise']
    f['b2_download_stream_truncates'] = pyast.unparse(t.body[0]) == 'stream.truncate(content_length)' and isinstance(t.body[1], ast.AsyncFor)
    # ---- requires_auth and the stream wrappers
    ut = pyast.module('replicat/utils/__init__.py')
    f['max_reauth'] = pyast.module_const(ut, 'MAX_REAUTH_ATTEMPTS')
    assert isinstance(f['max_reauth'], int) and f['max_reauth'] >= 0
    ra = pyast.find_func(ut, 'requires_auth')
    wrappers = [n for n in ast.walk(ra) if isinstance(n, (ast.FunctionDef, ast.AsyncFunctionDef)) and n.name == 'wrapper']
    assert len(wrappers) == 2
    bounded = True
    for wfn in wrappers:
        loops = [n for n in wfn.body if isinstance(n, ast.For)]
        bounded &= len(loops) == 1 and pyast.unparse(loops[0].iter) == 'range(MAX_REAUTH_ATTEMPTS)'
        bounded &= not any(isinstance(n, ast.Call) and isinstance(n.func, ast.Name) and n.func.id == 'wrapper' for n in ast.walk(wfn))
        bounded &= not any(isinstance(n, ast.While) for n in ast.walk(wfn))
        last = pyast.unparse(wfn.body[-1])
        bounded &= last in ('return await func(self, *a, **ka)', 'return func(self, *a, **ka)')
    f['requires_auth_bounded'] = bounded
    # a call that meets AuthRequired while another one is refreshing the authorisation waits for that refresh
    # (takes and releases the lock) before it retries: it never retries with the stale token
    waits = True
    for wfn in wrappers:
        waits &= not any(isinstance(n, (ast.Continue, ast.Break)) for n in ast.walk(wfn))
        loop = [n for n in wfn.body if isinstance(n, ast.For)][0]
        handlers = [h for t in loop.body if isinstance(t, ast.Try) for h in t.handlers]
        waits &= len(handlers) == 1 and pyast.unparse(handlers[0].type) == 'exceptions.AuthRequired'
        branch = handlers[0].body
        waits &= len(branch) == 1 and isinstance(branch[0], ast.If)
        other = branch[0].orelse
        waits &= (len(other) == 1 and isinstance(other[0], (ast.With, ast.AsyncWith)) and len(other[0].body) == 1
                  and isinstance(other[0].body[0], ast.Pass)
                  and pyast.unparse(other[0].items[0].context_expr) in ('self._async_auth_lock', 'self._auth_lock'))
    f['requires_auth_waits_for_refresh'] = waits
    RL = pyast.find_class(ut, '_RateLimitedFileWrapper')
    TQ = pyast.find_class(ut, 'TQDMIOBase')
    fw = True
    for m in ('seek', 'tell', 'truncate'):
        fw &= [pyast.unparse(s) for s in pyast.find_func(RL, m).body] == [f'return self._file.{m}(*args, **kwargs)']
    fw &= pyast.unparse(pyast.find_func(TQ, 'seek').body[0]) == 'pos = self._stream.seek(*args, **kwargs)'
    fw &= pyast.unparse(pyast.find_func(TQ, 'seek').body[-1]) == 'return pos'
    fw &= pyast.unparse(pyast.find_func(TQ, 'truncate').body[0]) == 'new_size = self._stream.truncate(size)'
    fw &= [pyast.unparse(s) for s in pyast.find_func(pyast.find_class(ut, 'TQDMIOReader'), 'read').body][0] == 'data = self._stream.read(size)'
    fw &= [pyast.unparse(s) for s in pyast.find_func(pyast.find_class(ut, 'TQDMIOWriter'), 'write').body][0] == 'length = self._stream.write(data)'
    f['wrappers_forward'] = fw
    return f


@unit('C12Facts')
def c12_facts():
    f = collect()
    out = ['From Coq Require Import Arith.', '']
    for k, v in f.items():
        if isinstance(v, bool):
            out.append(f'Definition {k} : bool := {_b(v)}.')
        else:
            out.append(f'Definition {k} : nat := {int(v)}.')
    return '\n'.join(out) + '\n'
