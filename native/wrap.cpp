// C ABI around the unchanged src/adapters.cpp (included textually from the working tree).
#include ADAPTERS_CPP
#include <cstring>
#include <string>
extern "C" {
void* gc_new(size_t mn, size_t mx, const char* key, size_t keylen, char* err, size_t errlen) {
    try {
        py::buffer k((void*)key, (std::ptrdiff_t)keylen);
        return new gclmulchunker(mn, mx, k);
    } catch (const std::exception& e) {
        std::strncpy(err, e.what(), errlen - 1); err[errlen - 1] = 0; return nullptr;
    }
}
size_t gc_next_cut(void* h, const char* buf, size_t size, int final) {
    py::buffer b((void*)buf, (std::ptrdiff_t)size);
    return static_cast<gclmulchunker*>(h)->next_cut(b, final != 0);
}
unsigned long long gc_key(void* h, const char* buf, size_t off) {
    return static_cast<gclmulchunker*>(h)->key(buf, off);
}
size_t gc_min(void* h) { return static_cast<gclmulchunker*>(h)->min_length; }
size_t gc_max(void* h) { return static_cast<gclmulchunker*>(h)->max_length; }
void gc_free(void* h) { delete static_cast<gclmulchunker*>(h); }
}
