#!/bin/sh
# Rebuild the chunker shim from /repo's current working tree (skipped when adapters.cpp is unchanged).
set -e
here=$(cd "$(dirname "$0")" && pwd)
src=${REPO:-/repo}/src/adapters.cpp
sum=$(sha256sum "$src" "$here/wrap.cpp" "$here/shim/pybind11/pybind11.h" | sha256sum | cut -d' ' -f1)
out=$here/pyshim/libgcshim.so
if [ -f "$out" ] && [ "$(cat "$here/pyshim/.sum" 2>/dev/null)" = "$sum" ]; then exit 0; fi
tmp=$out.$$.tmp
g++ -std=c++17 -O2 -mpclmul -msse2 -msse4.1 -fPIC -shared -I "$here/shim" -DADAPTERS_CPP="\"$src\"" "$here/wrap.cpp" -o "$tmp"
mv "$tmp" "$out"
echo "$sum" > "$here/pyshim/.sum"
