#!/bin/sh
# Rebuild the chunker shim from /repo's current working tree.  The library is named after the hash of its sources, so checks that run at
# the same time against different trees (seeded changes, builder worktrees) never load each other's build; prints the library's path.
set -e
here=$(cd "$(dirname "$0")" && pwd)
src=${REPO:-/repo}/src/adapters.cpp
sum=$(sha256sum "$src" "$here/wrap.cpp" "$here/shim/pybind11/pybind11.h" | sha256sum | cut -c1-16)
out=$here/pyshim/libgcshim-$sum.so
if [ ! -f "$out" ]; then
  tmp=$out.$$.tmp
  g++ -std=c++17 -O2 -mpclmul -msse2 -msse4.1 -fPIC -shared -I "$here/shim" -DADAPTERS_CPP="\"$src\"" "$here/wrap.cpp" -o "$tmp"
  mv "$tmp" "$out"
  # keep the directory small: drop builds older than a day
  find "$here/pyshim" -name 'libgcshim-*.so' -mmin +1440 -delete 2>/dev/null || true
fi
# default name for tools that import the shim without going through bin/check (the tree of /repo only)
if [ "${REPO:-/repo}" = "/repo" ]; then ln -sf "$(basename "$out")" "$here/pyshim/libgcshim.so.new" && mv -f "$here/pyshim/libgcshim.so.new" "$here/pyshim/libgcshim.so"; fi
echo "NATIVE_LIB=$out"
