// Inert stand-in for pybind11 (not installed in this sandbox): just enough surface for
// src/adapters.cpp to compile unchanged. Only py::buffer / buffer_info carry data.
#pragma once
#include <cstddef>
namespace pybind11 {
struct buffer_info { void* ptr; std::ptrdiff_t size; };
struct buffer {
    void* p; std::ptrdiff_t n;
    buffer(void* p_, std::ptrdiff_t n_) : p(p_), n(n_) {}
    buffer_info request() const { return buffer_info{p, n}; }
};
template <typename... A> struct init {};
struct module_ {};
template <typename T> struct class_ {
    template <typename... X> class_(X&&...) {}
    template <typename... X> class_& def(X&&...) { return *this; }
    template <typename... X> class_& def_readonly(X&&...) { return *this; }
};
}
#define PYBIND11_MODULE(name, var) static void verif_unused_module_##name(pybind11::module_& var)
