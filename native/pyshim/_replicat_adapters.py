"""ctypes front for the chunker recompiled from /repo/src/adapters.cpp on every check run
(B3 of DESIGN.md).  Shadows the stale prebuilt _replicat_adapters*.so when
/verif/native/pyshim precedes /repo on PYTHONPATH.

GUARD: None -> the buffer is handed over in place (fast path, like pybind11 does);
       bytes -> every next_cut call copies the buffer into fresh memory between two runs of 64 bytes
       of that repeating pattern, making "memory in front of and behind the data" a controlled input.
"""
import ctypes, os
_here = os.path.dirname(os.path.abspath(__file__))
_lib = ctypes.CDLL(os.environ.get('VERIF_NATIVE_LIB') or os.path.join(_here, 'libgcshim.so'))
_lib.gc_new.restype = ctypes.c_void_p
_lib.gc_new.argtypes = [ctypes.c_size_t, ctypes.c_size_t, ctypes.c_char_p, ctypes.c_size_t, ctypes.c_char_p, ctypes.c_size_t]
_lib.gc_next_cut.restype = ctypes.c_size_t
_lib.gc_next_cut.argtypes = [ctypes.c_void_p, ctypes.c_void_p, ctypes.c_size_t, ctypes.c_int]
_lib.gc_key.restype = ctypes.c_ulonglong
_lib.gc_key.argtypes = [ctypes.c_void_p, ctypes.c_void_p, ctypes.c_size_t]
_lib.gc_free.argtypes = [ctypes.c_void_p]
_lib.gc_min.restype = ctypes.c_size_t; _lib.gc_min.argtypes = [ctypes.c_void_p]
_lib.gc_max.restype = ctypes.c_size_t; _lib.gc_max.argtypes = [ctypes.c_void_p]

GUARD = None
if os.environ.get('VERIF_NATIVE_GUARD'):
    # a process-specific pattern behind every buffer: cuts that depend on memory behind the data differ from process to process
    GUARD = os.urandom(7)
GUARD_LEN = 64
CALLS = 0          # number of next_cut calls (harness statistics)


class _gclmulchunker:
    def __init__(self, min_length, max_length, key):
        if min_length < 0 or max_length < 0:
            raise TypeError('incompatible constructor arguments')
        key = bytes(key)
        err = ctypes.create_string_buffer(256)
        self._h = _lib.gc_new(min_length, max_length, key, len(key), err, 256)
        if not self._h:
            raise ValueError(err.value.decode())

    @property
    def min_length(self):
        return _lib.gc_min(self._h)

    @property
    def max_length(self):
        return _lib.gc_max(self._h)

    def next_cut(self, buffer, final=False):
        global CALLS
        CALLS += 1
        n = len(buffer)
        if GUARD is None:
            if isinstance(buffer, bytearray) and n:
                arr = (ctypes.c_char * n).from_buffer(buffer)
                try:
                    return _lib.gc_next_cut(self._h, ctypes.addressof(arr), n, 1 if final else 0)
                finally:
                    del arr
            data = bytes(buffer)
            return _lib.gc_next_cut(self._h, ctypes.cast(ctypes.c_char_p(data), ctypes.c_void_p), n, 1 if final else 0)
        pat = (GUARD * (GUARD_LEN // len(GUARD) + 1))[:GUARD_LEN]
        # the pattern lies in FRONT of the data as well as behind it
        mem = ctypes.create_string_buffer(pat + bytes(buffer) + pat, n + 2 * GUARD_LEN)
        return _lib.gc_next_cut(self._h, ctypes.addressof(mem) + GUARD_LEN, n, 1 if final else 0)

    def key_at(self, data, offset):
        mem = ctypes.create_string_buffer(bytes(data), len(data))
        return _lib.gc_key(self._h, ctypes.addressof(mem), offset)

    def __del__(self):
        h, self._h = getattr(self, '_h', None), None
        if h:
            _lib.gc_free(h)
