"""C11 - chunk boundaries are content-defined and re-synchronise after edits.

Correspondence: the Gallina chunker (vm_compute, via c10.run_model) vs the Python adapter over the C++
recompiled from the working tree, on BOTH streams of every small pair; Coq keyf vs compiled key() vs the
Python keyf used by the oracles; Coq dominantb vs the Python dominance test.
Model-free oracles on the implementation (see design/C11.md):
  suffix    from the first common boundary of prefix1+S / prefix2+S on, every chunk up to the tail zone is identical
  prefix    chunks that start at least align4(max) before an edit are identical
  distance  high-entropy data, max >= 64, min <= max/16, aligned: a common boundary within D = K_RESYNC*max of the edit
            (probabilistic bound, NOT a theorem; exploration support only)
  keys      independently drawn keys / keys differing in k0 only / in k1 with the top bit: boundaries differ
  dominant  wherever a position is the strict maximum (Python keyf) within max on both sides, every chunk that
            has it in reach ends there
  padding   real snapshots of [a, F] and [b, F] (|a| != |b| mod 4): F starts aligned in both, its chunks are shared
  repo_key  the same file snapshotted into two encrypted repositories (independent keys): boundaries differ
  handover  streams handed to the adapter as ONE block larger than twice every size constant (>= 1 MiB, read with ast) of
            adapters.py / repository.py, and as many blocks: identical outside the tail zone; the pair / edit oracles on them
  session   one encrypted repository: snapshot, key-management / listing commands on the same long-lived Repository object,
            snapshot again by that object / a new session / the holder of a shared key (same cuts) / of an own key (other cuts);
            files that vanish between collection and reading; every file of every snapshot starts at a multiple of 4
  aligned   every chunk that starts outside the tail zone ends at a multiple of 4 (C11_boundary_aligned on the implementation)
  history   several (stream, key) jobs on one or several adapter objects / RepositoryProps - sequentially in permuted order,
            interleaved, or started at different times (a native chunker is constructed while others are mid-stream) under a
            random advance schedule: every job is cut as by a brand-new adapter run alone (and as by the model); different
            keys still give different boundaries
"""
from __future__ import annotations

import asyncio
import contextlib
import io
import random

from harness import core, c10
from harness.core import Report

K_RESYNC = 256        # D = K_RESYNC * max_length; derivation in design/C11.md (failure probability < 1e-15 per case)
M64 = (1 << 64) - 1


# --------------------------------------------------------------------------- keyed hash, independent of the C++
def clmul(a, b):
    r = 0
    while a:
        if a & 1:
            r ^= b
        a >>= 1
        b <<= 1
    return r


def key_schedule(params):
    if not params:
        return b'\xff' * 16
    while len(params) < 16:
        params += params
    return params[:16]


def keyf(key16, data, off):
    """gclmulchunker::key(data, off) as plain arithmetic (= Model/Clmul.keyf); bytes past the end read as 0."""
    k0 = int.from_bytes(key16[:8], 'little')
    k1 = int.from_bytes(key16[8:16], 'little')
    w = int.from_bytes(data[off - 4:off + 4], 'little')
    p = clmul(k0, w)
    u = clmul(27, p >> 64)
    return (k1 ^ u ^ p) & M64


def dominant_positions(key16, data, mx, lo=4, hi=None):
    """Positions q = 0 (mod 4), lo <= q, q + mx + 4 <= hi, whose hash is positive and strictly greater than that of
    every other position p = 0 (mod 4), 4 <= p, q - mx < p < q + mx  (Resync.dominant restricted to residue 0)."""
    hi = len(data) if hi is None else hi
    h = {p: keyf(key16, data, p) for p in range(4, hi - 3, 4)}
    out = []
    for q in range(max(4, (lo + 3) & -4), hi - mx - 3, 4):
        v = h[q]
        if v == 0:
            continue
        ok = True
        for p in range(max(4, q - mx + 1 + (-(q - mx + 1) % 4)), q + mx, 4):
            if p != q and h[p] >= v:
                ok = False
                break
        if ok:
            out.append(q)
    return out


# --------------------------------------------------------------------------- cases
def _rb(seed, n):
    return random.Random(seed).randbytes(n)


def _data(seed, n, kind):
    if kind == 'random':
        return _rb(seed, n)
    r = random.Random(seed)
    if kind == 'zero':
        return bytes(n)
    if kind == 'periodic':
        pat = r.randbytes(r.choice([1, 3, 4, 8, 12, 20]))
        return (pat * (n // len(pat) + 1))[:n]
    if kind == 'lowent':
        return bytes(r.choice(b'ab') for _ in range(n))
    # blocks: random data with repeated blocks
    blocks = [r.randbytes(r.choice([4, 8, 16, 40])) for _ in range(4)]
    out = bytearray()
    while len(out) < n:
        out += r.choice(blocks)
    return bytes(out[:n])


def materialise(case):
    """-> (X1, X2, n1, n2, common_prefix_len): X1[n1:] == X2[n2:] is the common suffix S."""
    k = case['kind']
    if k in ('pair', 'unaligned'):
        S = _data(case['dseed'], case['n'], case['dkind'])
        P1, P2 = _rb(case['p1'][0], case['p1'][1]), _rb(case['p2'][0], case['p2'][1])
        return P1 + S, P2 + S, len(P1), len(P2), 0
    X = _data(case['dseed'], case['n'], case['dkind'])
    if k == 'keys':
        return X, X, 0, 0, len(X)
    e, L = case['at'], case['len']
    if k == 'insert':
        return X, X[:e] + _rb(case['eseed'], L) + X[e:], e, e + L, e
    if k == 'delete':
        return X, X[:e] + X[e + L:], e + L, e, e
    if k == 'alter':
        new = bytes(b ^ (1 + m % 255) for b, m in zip(X[e:e + L], _rb(case['eseed'], L)))   # every byte changes
        return X, X[:e] + new + X[e + L:], e + L, e + L, e
    raise ValueError(k)


def pieces_of(seed, data, mx, whole=False):
    if whole:
        return [data]
    return c10.gen_pieces(random.Random(seed), data, mx)


def good_key(rng, n=16):
    while True:
        k = rng.randbytes(n)
        if int.from_bytes(key_schedule(k)[:8], 'little') != 0:
            return k


def structured_key(rng):
    """16-byte keys with structure: zero low half (the hash multiplier k0 = 0: the constructor must refuse it), zero high half
    (mask k1 = 0: legal), a single bit, tiny multipliers, all ones.  A key is either refused or must satisfy every oracle."""
    k = rng.random()
    if k < 0.35:
        return bytes(8) + rng.choice([rng.randbytes(8), b'\x01' + bytes(7), bytes(7) + b'\x80', b'\xff' * 8])
    if k < 0.5:
        return rng.randbytes(8) + bytes(8)
    if k < 0.8:
        bit = rng.randrange(128)
        return (1 << bit).to_bytes(16, 'little')
    if k < 0.9:
        return rng.choice([b'\x01', b'\x02', b'\x03']) + bytes(7) + rng.randbytes(8)
    return b'\xff' * 16


def model_key_ok(key):
    """Model/Clmul.key_ok: the key schedule's k0 is not 0."""
    return int.from_bytes(key_schedule(key)[:8], 'little') != 0


def gen_small(rng, force=None):
    """Model-sized case: both streams <= ~620 bytes, max <= 64."""
    mx = rng.choice([8, 12, 16, 16, 20, 24, 32, 32, 48, 64])
    mn = rng.choice([1, 1, 2, 4, max(1, mx // 16), max(1, mx // 4), max(1, mx // 2)])
    if rng.random() < 0.3 and mx >= 16:                    # min not a multiple of the alignment, well below max
        mn = rng.choice([m for m in (5, 6, 7, 9, 10, 11, 13) if 2 * m <= mx])
    while c10.align4(mn) > mx:
        mn -= 1
    if force:
        mn, mx = force
    kind = rng.choices(['pair', 'unaligned', 'insert', 'delete', 'alter', 'keys'], [30, 8, 14, 14, 14, 6])[0]
    dkind = rng.choices(['random', 'blocks', 'periodic', 'zero', 'lowent'], [70, 12, 8, 4, 6])[0]
    key = b'' if rng.random() < 0.1 else (good_key(rng, rng.choice([1, 3, 8])) if rng.random() < 0.1 else good_key(rng))
    if rng.random() < 0.12:
        key = structured_key(rng)
    case = {'kind': kind, 'key': key.hex(), 'mn': mn, 'mx': mx, 'dseed': rng.getrandbits(32), 'dkind': dkind,
            'segseed': rng.getrandbits(32), 'model': True, 'whole': False}
    if kind in ('pair', 'unaligned'):
        n = rng.randint(2 * mx, max(2 * mx, 560))
        l1 = 4 * rng.randint(0, 14)
        l2 = 4 * rng.randint(0, 14)
        if kind == 'unaligned':
            l2 += rng.choice([1, 2, 3])
        elif l1 == l2 and rng.random() < 0.8:
            l2 += 4
        case.update(n=n, p1=[rng.getrandbits(32), l1], p2=[rng.getrandbits(32), l2])
    elif kind == 'keys':
        case.update(n=rng.randint(10 * mx, max(10 * mx, 600)), key2=good_key(rng).hex())
        if not key:
            case['key'] = good_key(rng).hex()
    else:
        n = rng.randint(3 * mx, max(3 * mx, 600))
        L = 4 * rng.randint(1, 6) if kind != 'alter' else rng.randint(1, 20)
        at = rng.randint(0, max(0, n - L - 1))
        if rng.random() < 0.3:
            at &= -4
        case.update(n=n, at=at, len=min(L, n - at), eseed=rng.getrandbits(32))
    return case


def gen_large(rng, tier_big, force=None):
    """Oracle-only case; high-entropy, max >= 64, min <= max/16: the distance bound applies when aligned."""
    mx = rng.choice([64, 64, 80, 96, 128, 192, 256] + ([512, 1024] if tier_big else []))
    if rng.random() < 0.15:
        mx += rng.choice([1, 2, 3, 5])                      # max not a multiple of 4
    mn = rng.choice([1, 2, 4, max(1, mx // 32), mx // 16])
    if rng.random() < 0.35 and mx >= 80:                   # min not a multiple of the alignment, min <= max/16
        mn = rng.choice([m for m in range(5, mx // 16 + 1) if m % 4])
    if force:
        mn, mx = force
    kind = rng.choices(['pair', 'unaligned', 'insert', 'delete', 'alter', 'keys'], [22, 6, 20, 20, 20, 12])[0]
    case = {'kind': kind, 'key': (structured_key(rng) if rng.random() < 0.2 else good_key(rng)).hex(), 'mn': mn, 'mx': mx,
            'dseed': rng.getrandbits(32), 'dkind': 'random', 'segseed': rng.getrandbits(32), 'model': False, 'whole': rng.random() < 0.5}
    D = K_RESYNC * mx
    tail = D + 2 * mx + rng.randint(0, 4 * mx)
    if kind in ('pair', 'unaligned'):
        l1 = 4 * rng.randint(0, mx)
        l2 = 4 * rng.randint(0, mx) + (rng.choice([1, 2, 3]) if kind == 'unaligned' else 0)
        case.update(n=tail, p1=[rng.getrandbits(32), l1], p2=[rng.getrandbits(32), l2])
    elif kind == 'keys':
        mode = rng.choice(['independent', 'k0', 'k1_top', 'structured'])
        k = bytes.fromhex(case['key'])
        if mode == 'structured':                            # two structured keys with different multipliers (or both without one)
            k = structured_key(rng)
            k2 = structured_key(rng)
            while k2 == k or (k2[:8] == k[:8] and any(k[:8])):      # same non-zero multiplier: only the mask differs, not claimed
                k2 = structured_key(rng)
            case['key'] = k.hex()
        elif not model_key_ok(k):
            k = good_key(rng)
            case['key'] = k.hex()
        if mode == 'structured':
            pass
        elif mode == 'independent':
            k2 = good_key(rng)
        elif mode == 'k0':
            k2 = good_key(rng)[:8] + k[8:]
        else:
            d = bytearray(rng.randbytes(8))
            d[7] |= 0x80                                  # the masks differ in the most significant bit
            k2 = k[:8] + bytes(a ^ b for a, b in zip(k[8:], d))
        case.update(n=rng.randint(60, 120) * mx, key2=k2.hex(), keymode=mode)
    else:
        pre = rng.randint(0, 6 * mx)
        L = 4 * rng.randint(1, mx) if kind != 'alter' else rng.randint(1, 3 * mx)
        case.update(n=pre + L + tail, at=pre, len=L, eseed=rng.getrandbits(32))
    return case


# --------------------------------------------------------------------------- hand-overs larger than any size constant of the source
HUGE_CAP = 64 << 20          # constants above this (e.g. a benchmark size) are reported, not exceeded
HUGE_DEFAULT = 40 << 20


def _const_int(node):
    import ast
    if isinstance(node, ast.Constant) and type(node.value) is int:
        return node.value
    if isinstance(node, ast.BinOp) and isinstance(node.op, (ast.LShift, ast.Mult, ast.Pow, ast.Add)):
        a, b = _const_int(node.left), _const_int(node.right)
        if a is None or b is None or abs(a) > 1 << 40 or abs(b) > 1 << 40:
            return None
        if isinstance(node.op, ast.LShift):
            return a << b if 0 <= b <= 64 else None
        if isinstance(node.op, ast.Pow):
            return a ** b if 0 <= b <= 64 and abs(a) <= 1 << 16 else None
        return a * b if isinstance(node.op, ast.Mult) else a + b
    return None


def source_size_constants():
    """Integer constants >= 1 MiB written in the adapter / repository sources (block sizes, feed lengths, ...)."""
    import ast
    out = {}
    for rel in ('replicat/utils/adapters.py', 'replicat/repository.py'):
        try:
            tree = ast.parse((core.REPO / rel).read_text())
        except (OSError, SyntaxError):
            continue
        for node in ast.walk(tree):
            v = _const_int(node)
            if v is not None and v >= 1 << 20:
                out.setdefault(v, rel)
    return out


def huge_block_length(rng, consts):
    usable = [v for v in consts if v <= HUGE_CAP]
    base = 2 * max(usable) + (1 << 20) if usable else HUGE_DEFAULT      # crosses every multiple of the constant at least twice
    return base + rng.randrange(1, 4096)


def gen_huge(rng, consts, kind, big_max=False):
    """Oracle-only case whose streams are handed to the adapter as ONE block larger than every size constant of the
    source, and again as many blocks; chunk parameters large enough to keep it fast."""
    mx = rng.choice([65536, 98304, 131072] if not big_max else [262144, 1048576, 1048576 + 2])
    mn = rng.choice([1, 4096, mx // 16])
    n = huge_block_length(rng, consts)
    case = {'kind': kind, 'key': good_key(rng).hex(), 'mn': mn, 'mx': mx, 'dseed': rng.getrandbits(32), 'dkind': 'random',
            'segseed': rng.getrandbits(32), 'model': False, 'whole': True, 'handover': True}
    if kind == 'pair':
        case.update(n=n, p1=[rng.getrandbits(32), 4 * rng.randint(0, mx // 8)], p2=[rng.getrandbits(32), 4 * rng.randint(0, mx // 8)])
    else:
        L = 4 * rng.randint(1, 64) if kind != 'alter' else rng.randint(1, 200)
        case.update(n=n, at=rng.randint(0, 4 * mx), len=L, eseed=rng.getrandbits(32))
    return case


def block_split(seed, data, mx):
    """Many-block hand-over of a long stream: block lengths from 1 byte to a few max_length, some around 1-2 MiB."""
    r = random.Random(seed)
    out, p = [], 0
    while p < len(data):
        k = r.random()
        step = r.randint(1, 4 * mx) if k < 0.7 else (r.randint(1 << 20, 2 << 20) if k < 0.9 else r.choice([1, 3, mx, mx + 1, 2 * mx]))
        out.append(data[p:p + step])
        p += step
    return out


# --------------------------------------------------------------------------- oracles on one case
def ends_of(chunks):
    out, p = [0], 0
    for c in chunks:
        p += len(c)
        out.append(p)
    return out


def distance_applies(case):
    return (case['dkind'] == 'random' and case['mx'] >= 64 and case['mn'] * 16 <= case['mx']
            and case['kind'] in ('pair', 'insert', 'delete', 'alter'))


def evaluate(case, chunks1, chunks2):
    """Model-free oracles for one case, given the two chunk lists.  -> (problems, stats)."""
    X1, X2, n1, n2, cp = materialise(case)
    mn, mx = case['mn'], case['mx']
    problems, st = [], {}
    if b''.join(chunks1) != X1 or b''.join(chunks2) != X2:
        problems.append(('chunks do not concatenate to the stream', 'lossless'))
        return problems, st
    e1, e2 = ends_of(chunks1), ends_of(chunks2)
    # ---- aligned (C11_boundary_aligned): a chunk that starts outside the tail zone ends at a multiple of the alignment; an
    # unaligned cut shifts the candidate positions of everything after it, so streams related by an aligned edit examine
    # disjoint positions until another such cut happens
    for which, X, ends in ((1, X1, e1), (2, X2, e2)):
        bad = next((k for k in range(len(ends) - 1) if len(X) - ends[k] >= 2 * mx and ends[k + 1] % 4), None)
        if bad is not None:
            other = (e2 if which == 1 else e1)
            res = sorted({b % 4 for b, Xo in ((b, X2 if which == 1 else X1) for b in other[1:]) if len(Xo) - b >= 2 * mx})
            problems.append((f'{case["kind"]} case (min {mn}, max {mx}): stream {which} ({len(X)} bytes) cuts the chunk starting at offset {ends[bad]} '
                             f'at {ends[bad + 1]} = {ends[bad + 1] % 4} (mod 4), {len(X) - ends[bad + 1]} bytes before the end: every later cut candidate of this '
                             f'stream is shifted off the 4-byte grid (boundary residues of the other stream outside its tail zone: {res}), so the two '
                             f'streams cannot share a boundary there and an aligned edit does not re-synchronise', 'aligned'))
            break
    if case['kind'] == 'keys':
        st['chunks'] = len(chunks1)
        st['same'] = e1 == e2
        if e1 == e2 and len(chunks1) >= 40 and case.get('keymode') and mn * 16 <= mx:
            problems.append((f'two different keys ({case["keymode"]}) give identical boundaries on {len(X1)} high-entropy bytes '
                             f'({len(chunks1)} chunks, min {mn}, max {mx})', 'key'))
        return problems, st
    S_len = len(X1) - n1
    b1 = [b - n1 for b in e1 if b >= n1]
    b2 = [b - n2 for b in e2 if b >= n2]
    common = sorted(set(b1) & set(b2))
    in_head = [q for q in common if S_len - q >= 2 * mx]
    st['q'] = in_head[0] if in_head else None
    # ---- prefix: chunks that start >= align4(mx) before the edit (and outside both tail zones) are identical
    i = 0
    pre_shared = 0
    while i + 1 < len(e1) and i + 1 < len(e2):
        s = e1[i]
        if e2[i] != s or s + c10.align4(mx) > cp or len(X1) - s < 2 * mx or len(X2) - s < 2 * mx:
            break
        if e1[i + 1] != e2[i + 1]:
            problems.append((f'chunk at offset {s}, {cp - s} bytes before the edit (max {mx}), is cut at {e1[i + 1]} in one stream and at '
                             f'{e2[i + 1]} in the other', 'prefix'))
            break
        pre_shared += 1
        i += 1
    st['pre_shared'] = pre_shared
    # ---- suffix: from the first common boundary outside the tail zone on, identical up to the tail zone
    post_shared = 0
    if in_head:
        q = in_head[0]
        a1 = [b for b in b1 if b > q]
        a2 = [b for b in b2 if b > q]
        s, j = q, 0
        while S_len - s >= 2 * mx:
            if j >= len(a1) or j >= len(a2) or a1[j] != a2[j]:
                problems.append((f'both streams have a boundary at offset {q} of the common suffix, but the chunk starting at suffix offset {s} '
                                 f'ends at {a1[j] if j < len(a1) else None} in one and {a2[j] if j < len(a2) else None} in the other '
                                 f'({S_len - s} bytes remain, max {mx})', 'suffix'))
                break
            s = a1[j]
            j += 1
            post_shared += 1
    st['post_shared'] = post_shared
    # ---- distance (probabilistic bound; exploration support)
    if distance_applies(case) and (n1 - n2) % 4 == 0 and S_len >= K_RESYNC * mx + 2 * mx:
        st['distance_checked'] = True
        if not in_head or in_head[0] > K_RESYNC * mx:
            problems.append((f'after an aligned {case["kind"]} (min {mn}, max {mx}) the chunk sequences have no common boundary within '
                             f'{K_RESYNC}*max = {K_RESYNC * mx} bytes of the edit (first common boundary: {in_head[0] if in_head else None})',
                             'distance'))
        else:
            st['distance'] = in_head[0] / mx
    return problems, st


def dominant_oracle(key, mn, mx, X, chunks, limit=20000):
    """-> (problems, number of (chunk start, dominant position) pairs verified)."""
    if len(X) > limit:
        X = X[:limit]
    key16 = key_schedule(key)
    ends = [e for e in ends_of(chunks) if e <= len(X)]
    doms = dominant_positions(key16, X, mx)
    nxt = dict(zip(ends, ends[1:]))
    problems, verified = [], 0
    for q in doms:
        for st in ends:
            if st < q and (q - st) % 4 == 0 and st + mn <= q and q < st + mx and len(X) - st >= 2 * mx and st in nxt:
                verified += 1
                if nxt[st] != q:
                    problems.append((f'position {q} carries the strictly largest hash within max={mx} on both sides, the chunk starting at '
                                     f'{st} has it in reach (min {mn}) but ends at {nxt[st]}', 'dominant'))
    return problems, verified


# --------------------------------------------------------------------------- snapshot padding oracle
def snapshot_pair(seed, workdir):
    """Two real snapshots [a, F] and [b, F] in one repository; -> (problems, stats, description)."""
    from pathlib import Path
    from replicat.repository import Repository
    from harness.memstore import MemBackend
    from harness.c01 import Recorder, instrument
    r = random.Random(seed)
    mx = r.choice([64, 96, 128])
    mn = r.choice([1, 4, mx // 16])
    la = r.randint(1, 5 * mx)
    lb = la + r.choice([1, 2, 3, 5, 6, 7, 4 * r.randint(1, 9) + r.choice([1, 2, 3])])
    F = r.randbytes(K_RESYNC * mx + 2 * mx + r.randint(1, 300))
    encrypted = r.random() < 0.5
    settings = {'chunking': {'min_length': mn, 'max_length': mx}, 'hashing': {'name': 'blake2b', 'length': 32},
                'encryption': ({'cipher': {'name': 'chacha20_poly1305'}, 'kdf': {'name': 'scrypt', 'n': 4, 'r': 1, 'p': 1}}
                               if encrypted else None)}
    desc = {'kind': 'snapshot', 'seed': seed, 'min': mn, 'max': mx, 'first_file_lengths': [la, lb], 'common_file_length': len(F),
            'encrypted': encrypted}
    recs = []
    backend = MemBackend(random.Random(seed + 1), 0.0)
    password = b'pw' if encrypted else None

    async def go():
        repo = Repository(backend, concurrent=2, quiet=True, cache_directory=None)
        init = await repo.init(password=password, settings=settings)
        for tag, n in (('one', la), ('two', lb)):
            d = Path(workdir) / f'{seed}-{tag}'
            d.mkdir(parents=True)
            (d / 'a-first').write_bytes(r.randbytes(n))
            (d / 'z-last').write_bytes(F)
            rec = Recorder()
            with instrument(rec):
                rp = Repository(backend, concurrent=2, quiet=True, cache_directory=None)
                await rp.unlock(password=password, key=init.key)
                await rp.snapshot(paths=[d / 'a-first', d / 'z-last'], note=tag)
            recs.append(rec)

    sink = io.StringIO()
    with contextlib.redirect_stdout(sink), contextlib.redirect_stderr(sink):
        asyncio.run(go())
    problems, st = [], {}
    streams, starts = [], []
    for rec in recs:
        X = b''.join(rec.pieces)
        f = [f for f in rec.files if f.path.endswith('z-last')]
        if len(f) != 1 or X[f[0].stream_start:] != F:
            st['inapplicable'] = True            # the common file is not the tail of the stream: nothing to compare
            return problems, st, desc
        streams.append(X)
        starts.append(f[0].stream_start)
    case = {'kind': 'pair', 'mn': mn, 'mx': mx, 'dkind': 'random'}
    # re-use the pair oracle on the recorded streams
    e1, e2 = ends_of(recs[0].chunks), ends_of(recs[1].chunks)
    b1 = {b - starts[0] for b in e1 if b >= starts[0]}
    b2 = {b - starts[1] for b in e2 if b >= starts[1]}
    common = sorted(q for q in b1 & b2 if len(F) - q >= 2 * mx)
    shared = len(set(recs[0].chunks) & set(recs[1].chunks))
    st.update(starts=starts, shared_chunks=shared, chunks=[len(recs[0].chunks), len(recs[1].chunks)],
              distance=(common[0] / mx if common else None))
    if not common or common[0] > K_RESYNC * mx:
        problems.append((f'two snapshots [a, F] and [b, F] (|a|={la}, |b|={lb}, |F|={len(F)} high-entropy bytes, min {mn}, max {mx}): the chunks of the '
                         f'common file F do not re-synchronise within {K_RESYNC}*max bytes; F starts at stream offsets {starts} '
                         f'(mod 4: {[s % 4 for s in starts]}); {shared} chunks shared', 'padding'))
    else:
        q = common[0]
        a1 = sorted(b for b in b1 if b > q)
        a2 = sorted(b for b in b2 if b > q)
        s, j = q, 0
        while len(F) - s >= 2 * mx:
            if j >= len(a1) or j >= len(a2) or a1[j] != a2[j]:
                problems.append((f'snapshots [a, F], [b, F]: common boundary at offset {q} of F but the chunks after offset {s} differ', 'suffix'))
                break
            s = a1[j]
            j += 1
    return problems, st, desc


def snapshot_keys(seed, workdir):
    """The same file snapshotted into two encrypted repositories (independently generated chunker keys):
    the boundaries must differ.  -> (problems, stats, description)."""
    from pathlib import Path
    from replicat.repository import Repository
    from harness.memstore import MemBackend
    from harness.c01 import Recorder, instrument
    r = random.Random(seed)
    mx = r.choice([64, 96, 128])
    mn = r.choice([1, 4, mx // 16])
    F = r.randbytes(r.randint(80, 120) * mx)
    settings = {'chunking': {'min_length': mn, 'max_length': mx}, 'hashing': {'name': 'blake2b', 'length': 32},
                'encryption': {'cipher': {'name': 'chacha20_poly1305'}, 'kdf': {'name': 'scrypt', 'n': 4, 'r': 1, 'p': 1}}}
    desc = {'kind': 'snapshot_keys', 'seed': seed, 'min': mn, 'max': mx, 'file_length': len(F)}
    d = Path(workdir) / f'{seed}-keys'
    d.mkdir(parents=True)
    (d / 'file').write_bytes(F)
    recs = []

    async def go():
        for i in (0, 1):
            backend = MemBackend(random.Random(seed + i), 0.0)
            repo = Repository(backend, concurrent=2, quiet=True, cache_directory=None)
            init = await repo.init(password=b'pw', settings=settings)
            rec = Recorder()
            with instrument(rec):
                rp = Repository(backend, concurrent=2, quiet=True, cache_directory=None)
                await rp.unlock(password=b'pw', key=init.key)
                await rp.snapshot(paths=[d / 'file'], note='n')
            recs.append(rec)

    sink = io.StringIO()
    with contextlib.redirect_stdout(sink), contextlib.redirect_stderr(sink):
        asyncio.run(go())
    problems, st = [], {'chunks': [len(r_.chunks) for r_ in recs]}
    if recs[0].key == recs[1].key or b''.join(recs[0].pieces) != F or b''.join(recs[1].pieces) != F:
        st['inapplicable'] = True
        return problems, st, desc
    if ends_of(recs[0].chunks) == ends_of(recs[1].chunks) and len(recs[0].chunks) >= 40:
        problems.append((f'two encrypted repositories with different chunker keys cut the same {len(F)} high-entropy bytes identically '
                         f'({len(recs[0].chunks)} chunks, min {mn}, max {mx})', 'repo_key'))
    st['different'] = not problems
    return problems, st, desc


def _compare_common_file(ra, rb, F, mn, mx, what_a, what_b):
    """Two recorded snapshot streams that both end with the file F: F must start aligned in both, its chunk sequences must
    meet within the bound and coincide afterwards.  -> (problems, shared chunk count)"""
    problems, starts, bsets = [], [], []
    for rec, what in ((ra, what_a), (rb, what_b)):
        X = b''.join(rec.pieces)
        f = [f for f in rec.files if f.path.endswith('z-last')]
        if len(f) != 1 or X[f[0].stream_start:] != F:
            return None, 0
        starts.append(f[0].stream_start)
        off = [g for g in rec.files if g.stream_start % 4]
        if off:
            problems.append((f'{what}: file {off[0].path.rsplit("/", 1)[-1]} starts at stream offset {off[0].stream_start} = {off[0].stream_start % 4} (mod 4) '
                             f'(file extents {[(g.stream_start, g.stream_end) for g in rec.files]}): equal files no longer see equal cut candidates', 'padding'))
        bsets.append({b - f[0].stream_start for b in ends_of(rec.chunks) if b >= f[0].stream_start})
    common = sorted(q for q in bsets[0] & bsets[1] if len(F) - q >= 2 * mx)
    shared = len(set(ra.chunks) & set(rb.chunks))
    if not common or common[0] > K_RESYNC * mx:
        problems.append((f'{what_a} / {what_b}: the chunks of the common file ({len(F)} high-entropy bytes, min {mn}, max {mx}) do not re-synchronise within '
                         f'{K_RESYNC}*max bytes; it starts at stream offsets {starts} (mod 4: {[x % 4 for x in starts]}); {shared} chunks shared', 'session'))
    else:
        q = common[0]
        a1, a2 = sorted(b for b in bsets[0] if b > q), sorted(b for b in bsets[1] if b > q)
        pos, j = q, 0
        while len(F) - pos >= 2 * mx:
            if j >= len(a1) or j >= len(a2) or a1[j] != a2[j]:
                problems.append((f'{what_a} / {what_b}: common boundary at offset {q} of the common file but the chunks after offset {pos} differ', 'suffix'))
                break
            pos = a1[j]
            j += 1
    return problems, shared


def repo_session(seed, workdir, slot=0):
    """A command sequence on one encrypted repository: snapshot [a, F]; key-management / listing commands on the SAME long-lived
    Repository object; snapshot [a', F] again with that object, with a new session of the same user, with the holder of a key added
    with shared=True (all must cut F identically: same repository chunker key) and with the holder of a key added with shared=False
    (own chunker key: boundaries must differ).  In some snapshots a file between a and F vanishes after the files were collected
    (if the snapshot fails for that reason it is repeated without the vanishing file).  -> (problems, stats, description)"""
    from pathlib import Path
    import replicat.repository as R
    from replicat.repository import Repository
    from harness.memstore import MemBackend
    from harness.c01 import Recorder, instrument
    r = random.Random(seed)
    mx = r.choice([64, 96, 128])
    mn = r.choice([1, 4, mx // 16])
    F = r.randbytes(K_RESYNC * mx + 2 * mx + r.randint(1, 300))
    cmds = r.sample(['add_shared', 'add_own', 'list'], r.randint(1, 3))
    settings = {'chunking': {'min_length': mn, 'max_length': mx}, 'hashing': {'name': 'blake2b', 'length': 32},
                'encryption': {'cipher': {'name': 'chacha20_poly1305'}, 'kdf': {'name': 'scrypt', 'n': 4, 'r': 1, 'p': 1}}}
    ksettings = {'encryption': {'kdf': {'name': 'scrypt', 'n': 4, 'r': 1, 'p': 1}}}      # cheap KDF for the added keys too
    desc = {'kind': 'repo_session', 'seed': seed, 'slot': slot, 'min': mn, 'max': mx, 'commands': cmds, 'common_file_length': len(F), 'snapshots': []}
    backend = MemBackend(random.Random(seed + 1), 0.0)
    recs = []                       # (label, same_key_expected, Recorder)
    counter = [0]
    vanish_at = r.randint(1, 3)

    async def snap(repo, label, same):
        counter[0] += 1
        vanish = counter[0] == vanish_at                     # one snapshot of the session loses a file (a failing snapshot takes seconds)
        res = slot % 4 if vanish else r.randrange(4)         # across the sessions of a run the file before it has every length mod 4
        la = 4 * r.randint(0, 2 * mx) + res
        for attempt in (0, 1):
            d = Path(workdir) / f'{seed}-{counter[0]}-{attempt}'
            d.mkdir(parents=True)
            (d / 'a-first').write_bytes(r.randbytes(la))
            (d / 'z-last').write_bytes(F)
            paths = [d / 'a-first', d / 'z-last']
            victim = None
            if vanish and attempt == 0:
                victim = d / 'm-vanishing'
                victim.write_bytes(r.randbytes(la + r.randint(1, 40)))
                paths.insert(1, victim)
            rec = Recorder()
            with instrument(rec):
                Base = R._SnapshotFile

                class Deleting(Base):                       # a concurrent deleter: the victim goes when the first file starts streaming
                    def __init__(self, *a, **k):
                        super().__init__(*a, **k)
                        if victim is not None:
                            victim.unlink(missing_ok=True)
                R._SnapshotFile = Deleting
                try:
                    await repo.snapshot(paths=paths, note=label)
                except Exception as ex:
                    if victim is None:
                        raise
                    desc['snapshots'].append({'by': label, 'first_file_length': la, 'vanishing_file': True, 'failed': type(ex).__name__})
                    continue
                finally:
                    R._SnapshotFile = Base
            desc['snapshots'].append({'by': label, 'first_file_length': la, 'vanishing_file': victim is not None})
            recs.append((label + (' (a file vanished during the snapshot)' if victim is not None else ''), same, rec))
            return

    async def go():
        repo0 = Repository(backend, concurrent=2, quiet=True, cache_directory=None)
        init = await repo0.init(password=b'pw', settings=settings)
        sess = Repository(backend, concurrent=2, quiet=True, cache_directory=None)
        await sess.unlock(password=b'pw', key=init.key)
        await snap(sess, 'first snapshot of the session', True)
        keys = {}
        for c in cmds:
            if c == 'add_shared':
                keys['shared'] = (await sess.add_key(password=b'pw-s', shared=True, settings=ksettings)).new_key
            elif c == 'add_own':
                keys['own'] = (await sess.add_key(password=b'pw-o', shared=False, settings=ksettings)).new_key
            else:
                await sess.list_snapshots()
        await snap(sess, f'same session after {"+".join(cmds)}', True)
        again = Repository(backend, concurrent=2, quiet=True, cache_directory=None)
        await again.unlock(password=b'pw', key=init.key)
        await snap(again, 'new session of the same user', True)
        if 'shared' in keys:
            rp = Repository(backend, concurrent=2, quiet=True, cache_directory=None)
            await rp.unlock(password=b'pw-s', key=keys['shared'])
            await snap(rp, 'holder of the key added with shared=True', True)
        if 'own' in keys:
            rp = Repository(backend, concurrent=2, quiet=True, cache_directory=None)
            await rp.unlock(password=b'pw-o', key=keys['own'])
            await snap(rp, 'holder of the key added with shared=False', False)

    sink = io.StringIO()
    with contextlib.redirect_stdout(sink), contextlib.redirect_stderr(sink):
        asyncio.run(go())
    problems, st = [], {'snapshots': len(recs), 'shared_chunks': 0}
    ref_label, _, ref = recs[0]
    for label, same, rec in recs[1:]:
        if same:
            if rec.key != ref.key:
                problems.append((f'{label} (commands: {"+".join(cmds)}) chunks with chunker params {(rec.key or b"").hex()} although the repository key of the first snapshot '
                                 f'carries {(ref.key or b"").hex()}: the same user / a shared-key holder no longer cuts equal data equally', 'session_key'))
            pr, shared = _compare_common_file(ref, rec, F, mn, mx, ref_label, label)
            if pr is None:
                st['inapplicable'] = True
                continue
            problems += pr
            st['shared_chunks'] += shared
        else:
            fa = [f for f in ref.files if f.path.endswith('z-last')][0].stream_start
            fb = [f for f in rec.files if f.path.endswith('z-last')][0].stream_start
            ea = [b - fa for b in ends_of(ref.chunks) if b >= fa and len(F) - (b - fa) >= 2 * mx]
            eb = [b - fb for b in ends_of(rec.chunks) if b >= fb and len(F) - (b - fb) >= 2 * mx]
            if ea == eb and len(ea) >= 40 and mn * 16 <= mx and ref.key != rec.key:
                problems.append((f'{label} cuts the common file exactly like the first user although its chunker key differs ({len(ea)} boundaries)', 'repo_key'))
    # unaligned file starts in any snapshot, also the reference
    for label, _, rec in recs[:1]:
        off = [g for g in rec.files if g.stream_start % 4]
        if off:
            problems.append((f'{label}: file {off[0].path.rsplit("/", 1)[-1]} starts at stream offset {off[0].stream_start} = {off[0].stream_start % 4} (mod 4)', 'padding'))
    return problems, st, desc


# --------------------------------------------------------------------------- model side helpers
def keyf_model_file(samples):
    lines = ['From Coq Require Import List NArith.', 'From Replicat Require Import Model.Clmul Model.Resync.',
             'Import ListNotations.', 'Local Open Scope N_scope.',
             'Eval vm_compute in map (fun c : list N * list N => gkeyf (fst c) (snd c)) [']
    lines.append(';\n'.join(f'  ({core.coq_bytes(k).replace("%N", "")}, {core.coq_bytes(w).replace("%N", "")})' for k, w in samples))
    lines.append('].')
    return '\n'.join(lines) + '\n'


def dominant_model_file(items):
    lines = ['From Coq Require Import List NArith Arith.', 'From Replicat Require Import Model.Clmul Model.Resync.',
             'Import ListNotations.', 'Local Open Scope N_scope.',
             'Definition run (c : list N * nat * list N * list nat) : list nat :=',
             "  let '(k, mx, s, qs) := c in filter (fun q => dominantb (gkeyf k) mx s q) qs.",
             'Eval vm_compute in map run [']
    rows = []
    for key, mx, data, qs in items:
        rows.append(f'  ({core.coq_bytes(key).replace("%N", "")}, {mx}%nat, {core.coq_bytes(data).replace("%N", "")}, '
                    f'[{"; ".join(str(q) + "%nat" for q in qs)}])')
    lines.append(';\n'.join(rows))
    lines.append('].')
    return '\n'.join(lines) + '\n'


def hash_correspondence(rng, rep: Report, nkeyf=60, ndom=3):
    import _replicat_adapters as A
    samples, impl, py = [], [], []
    for _ in range(nkeyf):
        params = rng.choice([b'', good_key(rng, 3), good_key(rng), good_key(rng)])
        w = rng.choice([rng.randbytes(8), bytes(8), b'\xff' * 8, rng.randbytes(4) + bytes(4)])
        k16 = key_schedule(params)
        c = A._gclmulchunker(1, 8, k16)
        samples.append((params, w))
        impl.append(c.key_at(w, 4))
        py.append(keyf(k16, w, 4))
    doms = []
    for _ in range(ndom):
        mx = rng.choice([8, 12, 16, 24])
        data = _data(rng.getrandbits(32), rng.randint(80, 160), rng.choice(['random', 'random', 'blocks']))
        key = good_key(rng)
        qs = list(range(4, len(data) - mx - 3, 4))
        doms.append((key, mx, data, qs))
    res = core.coq_eval_files([('c11_keyf', keyf_model_file(samples)), ('c11_dom', dominant_model_file(doms))])
    rc, text = res['c11_keyf']
    if rc != 0:
        rep.disagreements.append({'what': 'the keyf model could not be evaluated: ' + text[-800:], 'replay': None})
    else:
        model = core.parse_coq_term(core.parse_coq_values(text)[-1])
        for (params, w), m, i, p in zip(samples, model, impl, py):
            rep.traces_validated += 1
            if not (m == i == p):
                rep.disagreements.append({'what': f'hash of window {w.hex()} under key {params.hex()}: model {m}, compiled key() {i}, oracle keyf {p}',
                                          'replay': {'kind': 'keyf', 'key': params.hex(), 'window': w.hex()}})
    rc, text = res['c11_dom']
    if rc != 0:
        rep.disagreements.append({'what': 'the dominance model could not be evaluated: ' + text[-800:], 'replay': None})
    else:
        model = core.parse_coq_term(core.parse_coq_values(text)[-1])
        for (key, mx, data, qs), m in zip(doms, model):
            rep.traces_validated += 1
            mine = dominant_positions(key_schedule(key), data, mx)
            if list(m) != mine:
                rep.disagreements.append({'what': f'dominant positions (max {mx}, {len(data)} bytes): model {m}, oracle {mine}',
                                          'replay': {'kind': 'dominant', 'key': key.hex(), 'mx': mx, 'data': data.hex()}})
            rep.count('dominant_positions_model', len(m))


# --------------------------------------------------------------------------- the check
RULE = ('cases drawn from one PRNG: (a) model-sized (<= ~620 bytes, max <= 64; data random / repeated blocks / periodic / zero / two-letter): '
        'pairs prefix1+S, prefix2+S with prefix lengths multiples of 4, unaligned negative controls, insert / delete (multiples of 4 bytes at any '
        'offset) / alter edits, key pairs - each stream chunked by the real adapter over the recompiled C++ under a random segmentation AND by the '
        'Gallina model (vm_compute); keys: random, default, short, and structured (zero low / high half, single bits, tiny multipliers) - a key is refused by the constructor or held to every oracle; (b) oracle-only high-entropy streams of (256 + 2..6)*max bytes, max 64..256 (thorough: ..1024, some max not '
        'multiples of 4), min <= max/16, same kinds, key pairs independent / k0 only / k1 with differing top bit; (c) streams of > 2x the largest size constant of the source (else 40 MiB) handed over as ONE block and as many blocks, max 64..128 KiB, pairs and edits near the start; (d) sessions: 2-5 (stream, key) jobs on 1-3 adapter objects, sequential / interleaved / staggered starts with a random advance schedule, adapter / RepositoryProps.chunkify; (e) repository sessions (snapshot / add_key shared or not / list / snapshot by the same object, a new session, the other key holders; vanishing files), real snapshots [a,F], [b,F] in one repository, and one file in two encrypted repositories; '
        'non-trivial = a common boundary outside the tail zone followed by >= 2 shared chunks (pairs, edits), >= 40 chunks (keys), '
        '>= 1 verified dominant position; distinct = distinct case descriptions')


def impl_run(case, X, which):
    key = bytes.fromhex(case['key2'] if (which == 2 and case['kind'] == 'keys') else case['key']) or None
    pieces = pieces_of(case['segseed'] + which, X, case['mx'], case.get('whole', False))
    guard = 0xA5 if case.get('model') else None
    return pieces, c10.impl_chunks(key, case['mn'], case['mx'], pieces, guard)


def check_cases(cases, rep: Report, with_model=True, stats=None):
    stats = stats if stats is not None else {}
    mcases, mimpl, mref = [], [], []
    for case in cases:
        X1, X2, n1, n2, cp = materialise(case)
        used = [bytes.fromhex(case['key'])] + ([bytes.fromhex(case['key2'])] if case['kind'] == 'keys' else [])
        try:
            p1, c1 = impl_run(case, X1, 1)
            p2, c2 = impl_run(case, X2, 2)
        except ValueError as ex:
            # a key the constructor refuses: legitimate exactly when the model's constructor check refuses it too
            rep.case(case, nontrivial=False)
            rep.count('key_refused')
            if all(model_key_ok(k) for k in used):
                rep.disagreements.append({'what': f'the adapter refuses key(s) {[k.hex() for k in used]} ({ex}) which Model/Clmul.key_ok accepts', 'replay': case})
            continue
        if not all(model_key_ok(k) for k in used):
            rep.count('key_accepted_without_multiplier')
            rep.disagreements.append({'what': f'the adapter accepts key(s) {[k.hex() for k in used if not model_key_ok(k)]} whose multiplier k0 is 0, which Model/Clmul.key_ok '
                                              f'(the constructor check of src/adapters.cpp) refuses; the accepted key is held to all oracles', 'replay': case})
        problems, st = evaluate(case, c1, c2)
        if case.get('handover'):
            # the same stream handed over as ONE block and as many blocks: identical chunks outside the tail zone
            key_b = bytes.fromhex(case['key']) or None
            cb = c10.impl_chunks(key_b, case['mn'], case['mx'], block_split(case['segseed'] + 7, X1, case['mx']), None)
            h1, hb = c10.head_part(c1, len(X1), case['mx']), c10.head_part(cb, len(X1), case['mx'])
            stats['handover_bytes'] = stats.get('handover_bytes', 0) + len(X1) + len(X2)
            stats['handover_largest_block'] = max(stats.get('handover_largest_block', 0), len(X1), len(X2))
            if h1 != hb or b''.join(cb) != X1:
                d = next((k for k in range(min(len(h1), len(hb))) if h1[k] != hb[k]), min(len(h1), len(hb)))
                problems.append((f'a stream of {len(X1)} bytes (min {case["mn"]}, max {case["mx"]}) handed to the adapter as ONE block and as '
                                 f'{len(block_split(case["segseed"] + 7, X1, case["mx"]))} blocks is cut differently outside the tail zone: chunk {d} starts at offset '
                                 f'{sum(h1[:d])}, length {h1[d] if d < len(h1) else None} vs {hb[d] if d < len(hb) else None} '
                                 f'({len(X1) - sum(h1[:d])} bytes remain)', 'handover'))
        dom_verified = 0
        if case.get('model') or case.get('dom'):
            for X, ch, which in ((X1, c1, 1), (X2, c2, 2)):
                key = bytes.fromhex(case['key2'] if (which == 2 and case['kind'] == 'keys') else case['key'])
                pr, v = dominant_oracle(key, case['mn'], case['mx'], X, ch)
                problems += pr
                dom_verified += v
        stats['dominant_pairs_verified'] = stats.get('dominant_pairs_verified', 0) + dom_verified
        if case['kind'] == 'keys':
            nontrivial = st.get('chunks', 0) >= 40
        elif case['kind'] == 'unaligned':
            nontrivial = len(c1) >= 3 and len(c2) >= 3
            if st.get('q') is not None:
                rep.count('unaligned_with_common_boundary_outside_tail')
        else:
            nontrivial = st.get('post_shared', 0) >= 2 or dom_verified >= 1
        rep.case(case, nontrivial=nontrivial)
        rep.count(('small:' if case.get('model') else ('huge:' if case.get('handover') else 'large:')) + case['kind'])
        rep.count('data:' + case['dkind'])
        rep.count(f'mx%4={case["mx"] % 4}')
        stats['shared_chunks'] = stats.get('shared_chunks', 0) + st.get('post_shared', 0) + st.get('pre_shared', 0)
        if st.get('distance_checked'):
            stats['distance_cases'] = stats.get('distance_cases', 0) + 1
            if 'distance' in st:
                stats['max_distance_over_max'] = max(stats.get('max_distance_over_max', 0.0), st['distance'])
        if case['kind'] == 'keys':
            rep.count('keys_same_boundaries' if st.get('same') else 'keys_different_boundaries')
        rep.sample({'case': case, 'chunks': [len(c1), len(c2)], 'first_common_suffix_boundary': st.get('q'),
                    'shared_after': st.get('post_shared'), 'shared_before_edit': st.get('pre_shared')})
        for what, kind in problems:       # one reported line per oracle; the replay carries the case
            rep.violations.append({'what': what, 'signature': {'kind': kind}, 'replay': case})
        if with_model and case.get('model'):
            for which, pieces, ch in ((1, p1, c1), (2, p2, c2)):
                key = case['key2'] if (which == 2 and case['kind'] == 'keys') else case['key']
                mcases.append({'key': key, 'mn': case['mn'], 'mx': case['mx'], 'pieces': [p.hex() for p in pieces]})
                mimpl.append([len(c) for c in ch])
                mref.append(case)
    if mcases:
        model, err = c10.run_model(mcases, [0xA5] * len(mcases), per_file=24)
        if model is None:
            rep.disagreements.append({'what': 'the chunker model could not be evaluated: ' + err, 'replay': None})
        else:
            for case, mc, m, i in zip(mref, mcases, model, mimpl):
                rep.traces_validated += 1
                if m != i:
                    rep.disagreements.append({'what': f'chunk lengths differ (min {mc["mn"]}, max {mc["mx"]}, {case["kind"]}): model {m} implementation {i}',
                                              'replay': dict(case, model_lengths=m, impl_lengths=i)})
    return stats


# --------------------------------------------------------------------------- sessions: ONE adapter object, several streams / keys
def gen_session(rng, small):
    """One gclmulchunker adapter object chunks several (stream, key) jobs - one after the other in some order or with the
    generators interleaved, called directly or through RepositoryProps.chunkify with the private part replaced.  The chunks
    of every job must be those of a brand-new adapter (= of the model): a function of (key, parameters, stream) only."""
    if small:
        mx = rng.choice([8, 12, 16, 24, 32, 48, 64])
        mn = rng.choice([1, 2, 4, max(1, mx // 16), max(1, mx // 4)])
        while c10.align4(mn) > mx:
            mn -= 1
        lens = lambda: rng.randint(2 * mx, 420)
        kinds = ['random', 'random', 'random', 'blocks', 'periodic', 'zero']
    else:
        mx = rng.choice([64, 96, 128, 256])
        mn = rng.choice([1, 4, mx // 16])
        lens = lambda: rng.randint(60, 100) * mx
        kinds = ['random']
    keys = [good_key(rng) for _ in range(rng.choice([2, 2, 3]))]
    if small and rng.random() < 0.3:
        keys.append(rng.choice([b'', good_key(rng, 3)]))
    datas = [(rng.getrandbits(32), lens(), rng.choice(kinds)) for _ in range(rng.choice([1, 1, 2]))]
    jobs = []
    d0 = datas[0]
    for k in rng.sample(keys, 2):                      # the same data under two keys, always
        jobs.append({'key': k.hex(), 'dseed': d0[0], 'n': d0[1], 'dkind': d0[2], 'segseed': rng.getrandbits(32)})
    for _ in range(rng.choice([0, 1, 2])):
        d = rng.choice(datas)
        jobs.append({'key': rng.choice(keys).hex(), 'dseed': d[0], 'n': d[1], 'dkind': d[2], 'segseed': rng.getrandbits(32)})
    rng.shuffle(jobs)                                   # key / stream order permutations
    nobj = rng.choice([1, 1, 2, 2, 3])                  # the jobs are spread over one or several adapter objects
    for j in jobs:
        j['obj'] = rng.randrange(nobj)
        j['via'] = rng.choice(['adapter', 'adapter', 'props'])
    return {'kind': 'session', 'mn': mn, 'mx': mx, 'jobs': jobs, 'objects': nobj,
            'mode': rng.choice(['sequential', 'interleaved', 'staggered', 'staggered']),
            'sched': rng.getrandbits(32), 'model': bool(small), 'whole': (not small) and rng.random() < 0.4}


def session_jobs(case):
    out = []
    for j in case['jobs']:
        data = _data(j['dseed'], j['n'], j['dkind'])
        out.append((bytes.fromhex(j['key']), data, pieces_of(j['segseed'], data, case['mx'], case.get('whole', False))))
    return out


def run_session(case, jobs):
    """-> list of chunk lists, one per job.  The jobs run on case['objects'] adapter objects (each also wrapped in its own
    RepositoryProps, like two repositories in one process); generators are run one after the other ('sequential'), all
    started before any is advanced ('interleaved'), or started at different times - a new one after a few chunks of the
    others - ('staggered'), and advanced under a random schedule.  The native chunker is created when a generator is
    first advanced, so 'staggered' constructs a native object while others are in the middle of their streams."""
    import dataclasses
    import _replicat_adapters as A
    from replicat.utils import adapters
    from replicat.repository import RepositoryProps
    A.GUARD = bytes([0xA5]) if case.get('model') else None
    try:
        nobj = case.get('objects', 1)
        objs = [adapters.gclmulchunker(min_length=case['mn'], max_length=case['mx']) for _ in range(nobj)]
        bases = [RepositoryProps(chunker=o, hasher=adapters.blake2b(), cipher=adapters.aes_gcm(), private={'chunker_params': b''}) for o in objs]

        def start(i):
            key, _, pieces = jobs[i]
            spec = case['jobs'][i]
            o = spec.get('obj', 0) % nobj
            if spec.get('via', case.get('via', 'adapter')) == 'props':   # what Repository.init / unlock do: replace() keeps the adapter objects
                props = dataclasses.replace(bases[o], cipher=(bases[o].cipher if key else None), private={'chunker_params': key})
                assert props.chunker is objs[o]
                return props.chunkify(iter(pieces))
            return objs[o](iter(pieces), params=key or None)

        r = random.Random(case['sched'])
        outs = [[] for _ in jobs]
        mode = case['mode']
        pending, active = list(range(len(jobs))), {}
        state = {'since': 0}

        def advance(i, k):
            for _ in range(k):
                try:
                    outs[i].append(bytes(next(active[i])))
                    state['since'] += 1
                except StopIteration:
                    del active[i]
                    return

        if mode == 'interleaved':
            active = {i: start(i) for i in pending}
            pending = []
        gap = r.choice([1, 2, 3, 5, 8])
        while pending or active:
            if pending and (not active or (mode == 'staggered' and state['since'] >= gap)):
                i = pending.pop(0)
                active[i] = start(i)
                state['since'], gap = 0, r.choice([1, 2, 3, 5, 8])
                advance(i, 1)                            # first advance: the native chunker of this job is constructed now
                continue
            i = r.choice(sorted(active))
            advance(i, 10 ** 9 if mode == 'sequential' else r.choice([1, 1, 2, 5]))
        return outs
    finally:
        A.GUARD = None


def check_sessions(cases, rep: Report, with_model=True, stats=None):
    stats = stats if stats is not None else {}
    mcases, mimpl, mref = [], [], []
    for case in cases:
        jobs = session_jobs(case)
        mn, mx = case['mn'], case['mx']
        outs = run_session(case, jobs)
        guard = 0xA5 if case.get('model') else None
        fresh = [c10.impl_chunks(key or None, mn, mx, pieces, guard) for key, _, pieces in jobs]
        problems = []
        for i, ((key, data, pieces), got, want) in enumerate(zip(jobs, outs, fresh)):
            if b''.join(got) != data:
                problems.append((f'session job {i}: chunks do not concatenate to the stream', 'lossless'))
            elif got != want:
                e1, e2 = ends_of(got), ends_of(want)
                d = next(k for k in range(min(len(e1), len(e2))) if e1[k] != e2[k]) if e1[:min(len(e1), len(e2))] != e2[:min(len(e1), len(e2))] else min(len(e1), len(e2))
                problems.append((f'{len(jobs)} streams on {case.get("objects", 1)} adapter object(s), {case["mode"]} (min {mn}, max {mx}): stream {i} ({len(data)} bytes, key {key.hex() or "default"}, '
                                 f'object {case["jobs"][i].get("obj", 0)} via {case["jobs"][i].get("via", case.get("via", "adapter"))}) is cut differently from what a new adapter object '
                                 f'produces for the same key, parameters and data when run alone (chunk {d}: boundary {e1[d] if d < len(e1) else None} vs '
                                 f'{e2[d] if d < len(e2) else None}) - the cuts depend on what else the process chunks', 'history'))
        for i in range(len(jobs)):
            for j in range(i + 1, len(jobs)):
                (k1, d1, _), (k2, d2, _) = jobs[i], jobs[j]
                if (d1 == d2 and case['jobs'][i]['dkind'] == 'random' and mn * 16 <= mx and len(outs[i]) >= 40
                        and key_schedule(k1)[:8] != key_schedule(k2)[:8] and ends_of(outs[i]) == ends_of(outs[j])):
                    problems.append((f'{len(jobs)} streams on {case.get("objects", 1)} adapter object(s), {case["mode"]} (min {mn}, max {mx}): keys {k1.hex() or "default"} and {k2.hex() or "default"} give '
                                     f'identical boundaries on the same {len(d1)} high-entropy bytes ({len(outs[i])} chunks)', 'key'))
        rep.case(case, nontrivial=all(len(o) >= 3 for o in outs))
        rep.count(('small:' if case.get('model') else 'large:') + f'session:{case["mode"]}:{case.get("objects", 1)}obj')
        rep.count('session_jobs', len(jobs))
        stats['session_streams'] = stats.get('session_streams', 0) + len(jobs)
        rep.sample({'case': case, 'chunks_per_stream': [len(o) for o in outs]}, limit=6)
        for what, kind in problems:
            rep.violations.append({'what': what, 'signature': {'kind': kind}, 'replay': case})
        if with_model and case.get('model'):
            for (key, data, pieces), got in zip(jobs, outs):
                mcases.append({'key': key.hex(), 'mn': mn, 'mx': mx, 'pieces': [p.hex() for p in pieces]})
                mimpl.append([len(c) for c in got])
                mref.append(case)
    if mcases:
        model, err = c10.run_model(mcases, [0xA5] * len(mcases), per_file=24)
        if model is None:
            rep.disagreements.append({'what': 'the chunker model could not be evaluated: ' + err, 'replay': None})
        else:
            for case, mc, m, i in zip(mref, mcases, model, mimpl):
                rep.traces_validated += 1
                if m != i:
                    rep.disagreements.append({'what': f'chunk lengths differ in a session ({case["mode"]}, {case.get("objects", 1)} adapter object(s), min {mc["mn"]}, max {mc["mx"]}, key {mc["key"]}): '
                                                      f'model {m} implementation {i}', 'replay': dict(case, model_lengths=m, impl_lengths=i)})
    return stats


def run_snapshots(ctx, rep: Report, n, stats):
    for _ in range(n):
        seed = ctx.rng.getrandbits(31)
        try:
            problems, st, desc = snapshot_pair(seed, ctx.scratch / 'snap')
        except Exception as ex:                       # a crash of the real code here is not a C11 statement
            rep.notes.append(f'snapshot pair {seed} not evaluated: {type(ex).__name__}: {ex}')
            continue
        rep.case(desc, nontrivial=bool(st.get('shared_chunks', 0) >= 2))
        rep.count('snapshot_pair' + (':inapplicable' if st.get('inapplicable') else ''))
        stats['snapshot_shared_chunks'] = stats.get('snapshot_shared_chunks', 0) + st.get('shared_chunks', 0)
        rep.sample({'case': desc, 'result': st}, limit=6)
        for what, kind in problems:
            rep.violations.append({'what': what, 'signature': {'kind': kind}, 'replay': desc})
    for slot in range(max(4, (2 * n) // 3)):
        seed = ctx.rng.getrandbits(31)
        try:
            problems, st, desc = repo_session(seed, ctx.scratch / 'snap', slot)
        except Exception as ex:
            rep.notes.append(f'repository session {seed} not evaluated: {type(ex).__name__}: {ex}')
            continue
        rep.case(desc, nontrivial=st['snapshots'] >= 3 and st['shared_chunks'] >= 2)
        rep.count('repo_session' + (':inapplicable' if st.get('inapplicable') else ''))
        rep.count('repo_session_snapshots', st['snapshots'])
        rep.count('repo_session_snapshots_with_a_vanishing_file', sum(1 for x in desc['snapshots'] if x['vanishing_file'] and 'failed' not in x))
        rep.count('repo_session_snapshots_failed_on_a_vanishing_file', sum(1 for x in desc['snapshots'] if 'failed' in x))
        stats['snapshot_shared_chunks'] = stats.get('snapshot_shared_chunks', 0) + st['shared_chunks']
        rep.sample({'case': desc, 'result': st}, limit=8)
        for what, kind in problems:
            rep.violations.append({'what': what, 'signature': {'kind': kind}, 'replay': desc})
    for _ in range(max(1, n // 3)):
        seed = ctx.rng.getrandbits(31)
        try:
            problems, st, desc = snapshot_keys(seed, ctx.scratch / 'snap')
        except Exception as ex:
            rep.notes.append(f'snapshot key pair {seed} not evaluated: {type(ex).__name__}: {ex}')
            continue
        rep.case(desc, nontrivial=min(st['chunks']) >= 40 and not st.get('inapplicable'))
        rep.count('snapshot_keys' + (':inapplicable' if st.get('inapplicable') else ''))
        for what, kind in problems:
            rep.violations.append({'what': what, 'signature': {'kind': kind}, 'replay': desc})


def finish(rep: Report, stats):
    rep.extra['resync'] = {
        'bound': f'D = {K_RESYNC} * max_length (probabilistic, failure < 1e-15 per case; exploration support, not a theorem)',
        'cases_checked_against_bound': stats.get('distance_cases', 0),
        'max_observed_distance_over_max_length': round(stats.get('max_distance_over_max', 0.0), 3),
        'identical_chunks_outside_edit_windows': stats.get('shared_chunks', 0),
        'identical_chunks_across_snapshot_pairs': stats.get('snapshot_shared_chunks', 0),
        'dominant_position_chunk_pairs_verified': stats.get('dominant_pairs_verified', 0),
        'streams_chunked_on_reused_adapter_objects': stats.get('session_streams', 0),
        'bytes_in_one_block_handovers': stats.get('handover_bytes', 0),
        'largest_single_block_handed_over': stats.get('handover_largest_block', 0),
        'streams_chunked_on_reused_adapter_objects': stats.get('session_streams', 0),
    }


def run(ctx) -> Report:
    rep = Report(rule=RULE)
    rng = ctx.rng
    stats = {}
    small = [gen_small(rng) for _ in range(ctx.scale(400, 6000))]
    large = [gen_large(rng, ctx.tier == 'thorough') for _ in range(ctx.scale(220, 4000))]
    mid = []
    for _ in range(ctx.scale(20, 300)):                      # mid-sized streams for the dominant-position oracle
        c = gen_large(rng, False)
        if c['kind'] == 'keys':
            c['kind'], c['p1'], c['p2'] = 'pair', [rng.getrandbits(32), 8], [rng.getrandbits(32), 24]
        c['n'] = min(c['n'], 40 * c['mx']) if c['kind'] in ('pair', 'unaligned') else c['n']
        if c['kind'] in ('insert', 'delete', 'alter'):
            c['n'] = c['at'] + c['len'] + 30 * c['mx']
        c['dom'] = True
        mid.append(c)
    consts = source_size_constants()
    huge = [gen_huge(rng, consts, k) for k in (['pair', 'alter', 'insert'] if ctx.tier == 'quick' else ['pair', 'alter', 'insert', 'delete'] * 3)]
    if ctx.tier == 'thorough':
        huge += [gen_huge(rng, consts, k, big_max=True) for k in ('pair', 'alter', 'insert', 'delete')]
    rep.notes.append('size constants >= 1 MiB read from adapters.py / repository.py: '
                     + (', '.join(f'{v} ({f})' for v, f in sorted(consts.items())) or 'none')
                     + f'; one-block hand-overs of {huge[0]["n"]} bytes and more exceed twice the largest one below {HUGE_CAP}')
    check_cases(small + large + mid + huge, rep, with_model=True, stats=stats)
    sessions = [gen_session(rng, True) for _ in range(ctx.scale(50, 700))] + [gen_session(rng, False) for _ in range(ctx.scale(30, 500))]
    check_sessions(sessions, rep, with_model=True, stats=stats)
    hash_correspondence(rng, rep, nkeyf=ctx.scale(100, 400), ndom=ctx.scale(4, 12))
    run_snapshots(ctx, rep, ctx.scale(9, 60), stats)
    finish(rep, stats)
    rep.notes.append('the re-synchronisation DISTANCE is a measured quantity checked against a probabilistic bound (exploration support); '
                     'suffix/prefix determinism, first-maximum, dominant cut, padding alignment are theorems')
    return rep


def search(ctx, broken) -> Report:
    """Large model-free search when a proof or the correspondence broke."""
    rep = Report(rule=RULE)
    rng = ctx.rng
    stats = {}
    cases = []
    sessions = []
    for b in broken:
        c = b.get('case')
        if isinstance(c, dict) and c.get('kind') == 'session':
            sessions.append({k: v for k, v in c.items() if k not in ('model_lengths', 'impl_lengths')})
        elif isinstance(c, dict) and 'kind' in c and 'dseed' in c:
            cases.append({k: v for k, v in c.items() if k not in ('model_lengths', 'impl_lengths')})
    # the parameters (key, min, max) of every case on which model and implementation disagreed are tried first, on fresh
    # streams of every kind, model-sized and long
    seen = []
    for c in list(cases) + [j for ss in sessions for j in [dict(ss, key=ss['jobs'][0]['key'])]]:
        par = (c.get('key', ''), c['mn'], c['mx'])
        if par not in seen:
            seen.append(par)
    focused = []
    for key, mn, mx in seen[:12]:
        for small in [True] * 40 + [False] * 6:
            c = gen_small(rng, force=(mn, mx)) if small else gen_large(rng, False, force=(mn, mx))
            if key and c['kind'] != 'keys':
                c['key'] = key
            focused.append(c)
    cases = focused + cases
    sessions += [gen_session(rng, True) for _ in range(400)] + [gen_session(rng, False) for _ in range(150)]
    check_sessions(sessions, rep, with_model=False, stats=stats)
    for _ in range(1500):
        c = gen_small(rng)
        cases.append(c)
    cases += [gen_large(rng, False) for _ in range(150)]
    consts = source_size_constants()
    cases += [gen_huge(rng, consts, k) for k in ('pair', 'alter', 'insert', 'delete')]
    check_cases(cases, rep, with_model=False, stats=stats)
    run_snapshots(ctx, rep, 6, stats)
    finish(rep, stats)
    return rep


def replay(ctx, obj):
    rep = Report(rule=RULE)
    case = obj.get('replay') or {}
    if case.get('kind') == 'repo_session':
        problems, st, desc = repo_session(case['seed'], ctx.scratch / 'snap', case.get('slot', 0))
        for what, kind in problems:
            print('VIOLATION-REPRODUCED', what)
        return 1 if problems else 0
    if case.get('kind') in ('snapshot', 'snapshot_keys'):
        fn = snapshot_pair if case['kind'] == 'snapshot' else snapshot_keys
        problems, st, desc = fn(case['seed'], ctx.scratch / 'snap')
        for what, kind in problems:
            print('VIOLATION-REPRODUCED', what)
        return 1 if problems else 0
    if case.get('kind') == 'session':
        case = {k: v for k, v in case.items() if k not in ('model_lengths', 'impl_lengths')}
        check_sessions([case], rep, with_model=bool(case.get('model')))
        for v in rep.violations:
            print('VIOLATION-REPRODUCED', v['what'])
        for d in rep.disagreements:
            print('DISAGREEMENT-REPRODUCED', d['what'])
        return 1 if rep.violations or rep.disagreements else 0
    if 'dseed' not in case:
        print('replay file does not carry a C11 case:', obj.get('kind'))
        return 0
    case = {k: v for k, v in case.items() if k not in ('model_lengths', 'impl_lengths')}
    case['model'] = bool(case.get('model')) and case['n'] <= 700
    check_cases([case], rep, with_model=True)
    for v in rep.violations:
        print('VIOLATION-REPRODUCED', v['what'])
    for d in rep.disagreements:
        print('DISAGREEMENT-REPRODUCED', d['what'])
    return 1 if rep.violations or rep.disagreements else 0
