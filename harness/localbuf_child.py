"""Child of harness/c03.localbuf_correspondence: ONE Local.upload / upload_stream in a fresh process, every open / write / close /
rename on the temporary logged (unbuffered, after the call returned) and a real SIGKILL at the chosen point."""
import io
import json
import os
import pathlib
import signal
import sys

spec = json.loads(open(sys.argv[1]).read())
log = open(spec['log'], 'ab', buffering=0)
counts = {}


def point(kind, when):
    k = (kind, when)
    c = counts.get(k, 0)
    counts[k] = c + 1
    if spec['kill'] == [kind, c, when]:
        os.kill(os.getpid(), signal.SIGKILL)


def ev(text):
    log.write((text + '\n').encode())


class Proxy:
    def __init__(self, f):
        self._f = f

    def write(self, b):
        point('write', 'before')
        n = self._f.write(b)
        ev(f'write {len(b)}')
        point('write', 'after')
        return n

    def close(self):
        point('close', 'before')
        self._f.close()
        ev('close')
        point('close', 'after')

    def __enter__(self):
        return self

    def __exit__(self, *exc):
        self.close()

    def __getattr__(self, name):
        return getattr(self._f, name)


from replicat.backends import local as L   # noqa: E402
root = os.path.realpath(spec['root'])
orig_open = pathlib.Path.open
orig_write_bytes = pathlib.Path.write_bytes
orig_replace = os.replace


def traced_open(self, mode='r', *a, **k):
    if 'w' in mode and os.path.realpath(self).startswith(root):
        point('open', 'before')
        f = orig_open(self, mode, *a, **k)
        ev('open')
        point('open', 'after')
        return Proxy(f)
    return orig_open(self, mode, *a, **k)


def traced_write_bytes(self, data):
    if os.path.realpath(self).startswith(root):
        with traced_open(self, 'wb') as f:
            return f.write(data)
    return orig_write_bytes(self, data)


def traced_replace(src, dst, *a, **k):
    point('rename', 'before')
    r = orig_replace(src, dst, *a, **k)
    ev('rename')
    point('rename', 'after')
    return r


pathlib.Path.open = traced_open
pathlib.Path.write_bytes = traced_write_bytes
os.replace = traced_replace
b = L.Local(spec['root'])
data = bytes.fromhex(spec['data'])
if spec['op'] == 'upload':
    b.upload(spec['name'], data)
else:
    b.upload_stream(spec['name'], io.BytesIO(data), len(data), spec['chunk'])
ev('done')
