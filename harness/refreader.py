"""Independent reader of replicat repositories (the lifting layer of DESIGN.md 2.3).

Written from the README's description of the format ("High-level technical details" and the glossary:
Encrypt/Decrypt, Hash, Mac, SlowKdf/FastKdf, UserKey, SharedKey/SharedKdfParams/SharedMacKey/
SharedChunkerKey, GetChunkLocation/GetSnapshotLocation) using only hashlib / cryptography / json /
base64.  It never imports replicat.  It turns concrete repository bytes into the symbolic terms of
coq/Model/Crypto.v ("which key opens what, which MAC names what") - trusted glue.

Concrete encodings used (the README's diagrams; json with bytes as {"!b": base64}):
  config      {"hashing": {"name", "length"|"bits"}, "chunking": {...}, "encryption": {"cipher": {"name", "key_bits", "nonce_bits"}}}
  key file    {"kdf": {"name": "scrypt", "n", "r", "p", "length"}, "kdf_params": salt, "private": Encrypt(json(private), UserKey)}
  private     {"shared_key", "shared_kdf": {"name": "blake2b", "length"}, "shared_kdf_params", "mac": {"name": "blake2b", "length"},
               "mac_params", "chunker_params"}
  AEAD        nonce || ciphertext || 16-byte tag, no associated data
  chunk       data/<tag[:2]>/<tag[2:4]>/<tag[4:]>-<name>;  encrypted: name = Mac(digest), tag = Mac(name),
              contents = Encrypt(chunk, FastKdf(SharedKey, SharedKdfParams, digest));  unencrypted: name = tag = digest, contents = chunk
  snapshot    snapshots/<tag[:2]>/<tag[2:]>-<name>;  name = Hash(contents), tag = Mac(name) | name;
              contents = json {"chunks": Encrypt(json(table), FastKdf(SharedKey, SharedKdfParams, Hash(data))), "data": Encrypt(json(data), UserKey)}
"""
from __future__ import annotations

import base64
import hashlib
import json
from dataclasses import dataclass, field

TAG_BYTES = 16


def _hook(o):
    if len(o) == 1 and '!b' in o:
        return base64.standard_b64decode(o['!b'])
    return o


def parse_json(data):
    if isinstance(data, (bytes, bytearray)):
        data = bytes(data).decode('ascii')
    return json.loads(data, object_hook=_hook)


@dataclass
class Key:
    kdf: dict
    salt: bytes
    private_ct: bytes
    userkey: bytes
    private: dict
    password: bytes = b''

    @property
    def shared_key(self):
        return self.private['shared_key']

    @property
    def shared_salt(self):
        return self.private['shared_kdf_params']

    @property
    def mac_key(self):
        return self.private['mac_params']

    @property
    def chunker_key(self):
        return self.private['chunker_params']


class RefReader:
    def __init__(self, config_bytes):
        self.config = parse_json(config_bytes)
        h = self.config['hashing']
        self.hash_name = h['name']
        if h['name'] == 'blake2b':
            n = h['length']
            self._hash = lambda d: hashlib.blake2b(d, digest_size=n).digest()
        elif h['name'] == 'sha2':
            f = getattr(hashlib, f'sha{h["bits"]}')
            self._hash = lambda d: f(d).digest()
        elif h['name'] == 'sha3':
            f = getattr(hashlib, f'sha3_{h["bits"]}')
            self._hash = lambda d: f(d).digest()
        else:
            raise ValueError('unknown hash ' + h['name'])
        enc = self.config.get('encryption')
        self.encrypted = enc is not None
        if self.encrypted:
            c = enc['cipher']
            self.cipher_name = c['name']
            self.key_bytes = c.get('key_bits', 256) // 8
            self.nonce_bytes = c.get('nonce_bits', 96) // 8

    # ------------------------------------------------------------------ primitives
    def hash(self, data):
        return self._hash(bytes(data))

    def _aead(self, key):
        from cryptography.hazmat.primitives.ciphers import aead
        return {'aes_gcm': aead.AESGCM, 'chacha20_poly1305': aead.ChaCha20Poly1305}[self.cipher_name](key)

    def aead_open(self, data, key):
        """plaintext, or None when authentication fails"""
        from cryptography.exceptions import InvalidTag
        data = bytes(data)
        nonce, ct = data[:self.nonce_bytes], data[self.nonce_bytes:]
        try:
            return self._aead(key).decrypt(nonce, ct, None)
        except (InvalidTag, ValueError):
            return None

    def nonce_of(self, data):
        return bytes(data[:self.nonce_bytes])

    def mac(self, key: Key, msg):
        return hashlib.blake2b(msg, digest_size=key.private['mac']['length'], key=key.mac_key).digest()

    def derive(self, key: Key, ctx):
        return hashlib.blake2b(ctx, salt=key.shared_salt, digest_size=key.private['shared_kdf']['length'], key=key.shared_key).digest()

    @staticmethod
    def user_key(kdf, salt, password):
        """UserKey = SlowKdf(Password, UserKdfParams): scrypt, or BLAKE2b keyed with the password and salted"""
        if kdf['name'] == 'scrypt':
            from cryptography.hazmat.primitives.kdf.scrypt import Scrypt
            return Scrypt(n=kdf['n'], r=kdf['r'], p=kdf['p'], length=kdf['length'], salt=salt).derive(password)
        if kdf['name'] == 'blake2b':
            return hashlib.blake2b(b'', salt=salt, digest_size=kdf['length'], key=password).digest()
        raise ValueError('unknown user KDF ' + kdf['name'])

    def opens_with(self, key_bytes, guess):
        """does the private section of this key open under a GUESSED password? (False when the guess cannot even be fed to the KDF)"""
        try:
            k = parse_json(key_bytes)
            if not isinstance(k['private'], (bytes, bytearray)):
                return True         # not sealed at all
            return self.aead_open(k['private'], self.user_key(k['kdf'], k['kdf_params'], guess)) is not None
        except Exception:
            return False

    def open_key(self, key_bytes, password) -> Key:
        k = parse_json(key_bytes)
        kdf = k['kdf']
        userkey = self.user_key(kdf, k['kdf_params'], password)
        pt = self.aead_open(k['private'], userkey)
        if pt is None:
            raise ValueError('wrong password for this key')
        return Key(kdf=kdf, salt=k['kdf_params'], private_ct=k['private'], userkey=userkey, private=parse_json(pt), password=password)

    # ------------------------------------------------------------------ names
    def chunk_parts(self, key, digest):
        if self.encrypted:
            name = self.mac(key, digest)
            return name.hex(), self.mac(key, name).hex()
        return digest.hex(), digest.hex()

    def chunk_path(self, key, digest):
        name, tag = self.chunk_parts(key, digest)
        return f'data/{tag[:2]}/{tag[2:4]}/{tag[4:]}-{name}'

    def snapshot_parts(self, key, digest):
        return digest.hex(), (self.mac(key, digest).hex() if self.encrypted else digest.hex())

    def snapshot_path(self, key, digest):
        name, tag = self.snapshot_parts(key, digest)
        return f'snapshots/{tag[:2]}/{tag[2:]}-{name}'

    @staticmethod
    def parse_chunk_path(path):
        assert path.startswith('data/')
        head, _, name = path.rpartition('-')
        a, b, c = head[len('data/'):].split('/')
        return name, a + b + c

    @staticmethod
    def parse_snapshot_path(path):
        assert path.startswith('snapshots/')
        head, _, name = path.rpartition('-')
        a, b = head[len('snapshots/'):].split('/')
        return name, a + b

    # ------------------------------------------------------------------ objects
    def read_snapshot(self, key, data):
        """{'chunks': [digest...], 'data': dict | None, 'chunks_ct', 'data_ct'} ; raises ValueError when the shared part does not open"""
        body = parse_json(data)
        if sorted(body) != ['chunks', 'data']:
            raise ValueError(f'snapshot object has fields {sorted(body)}, expected chunks and data')
        if not self.encrypted:
            return {'chunks': body['chunks'], 'data': body['data'], 'chunks_ct': None, 'data_ct': None}
        cct, dct = body['chunks'], body['data']
        table = self.aead_open(cct, self.derive(key, self.hash(dct)))
        if table is None:
            raise ValueError('chunk table does not open under FastKdf(SharedKey, Hash(data))')
        d = self.aead_open(dct, key.userkey)
        return {'chunks': parse_json(table), 'data': parse_json(d) if d is not None else None, 'chunks_ct': cct, 'data_ct': dct,
                'table_plain': table, 'data_plain': d}

    def read_chunk(self, key, data, digest):
        """plaintext of the object stored for `digest`, None when it does not authenticate / hash"""
        pt = self.aead_open(data, self.derive(key, digest)) if self.encrypted else bytes(data)
        if pt is None or self.hash(pt) != digest:
            return None
        return pt

    def restore_files(self, key, objects, snapshot):
        """independent restore: path -> bytes"""
        out = {}
        cache = {}
        for f in snapshot['data']['files']:
            buf = b''
            for ref in sorted(f['chunks'], key=lambda r: r['counter']):
                d = snapshot['chunks'][ref['index']]
                if d not in cache:
                    cache[d] = self.read_chunk(key, objects[self.chunk_path(key, d)], d)
                s, e = ref['range']
                buf += cache[d][s:e]
            out[f['path']] = buf
        return out


# ---------------------------------------------------------------------- symbolic terms (Python side)
# a term is: ('Bytes', n) ('Garbage', n) ('Num', n) 'Nil' ('Pair', a, b) ('Hash', t) ('Mac', k, t)
#            ('Enc', k, nonce, t) ('Kdf', pw, salt) ('Derive', k, salt, ctx)  -- what core.parse_coq_term yields too
def coq(t):
    """Coq text of a term; a plain string is 'Nil' or the name of a Definition"""
    if isinstance(t, str):
        return t
    head, *args = t
    out = [head]
    for a in args:
        if isinstance(a, int):
            out.append(str(a))
        elif isinstance(a, str):
            out.append(a)
        else:
            out.append('(' + coq(a) + ')')
    return ' '.join(out)


def tlist(items):
    out = 'Nil'
    for x in reversed(items):
        out = ('Pair', x, out)
    return out


def strip_nonces(t):
    """replace every nonce by 0 (terms are compared modulo the random nonce values)"""
    if isinstance(t, tuple):
        if t[0] == 'Enc':
            return ('Enc', strip_nonces(t[1]), 0, strip_nonces(t[3]))
        return (t[0],) + tuple(strip_nonces(a) if isinstance(a, tuple) else a for a in t[1:])
    return t


def term_nonces(t, key_filter=None):
    """[(key term, nonce)] of all Enc nodes"""
    out = []
    if isinstance(t, tuple):
        if t[0] == 'Enc':
            out.append((t[1], t[2]))
        for a in t[1:]:
            out += term_nonces(a)
    return out


@dataclass
class Atoms:
    """numbering of atomic byte strings per category (ids are disjoint by construction)"""
    base: dict = field(default_factory=lambda: {'key': 0, 'chunk': 1000, 'path': 20000, 'file': 30000, 'meta': 40000,
                                                 'info': 50000, 'setting': 60000, 'nonce': 100000})
    table: dict = field(default_factory=dict)

    def id(self, cat, value):
        k = (cat, value)
        if k not in self.table:
            self.table[k] = self.base[cat] + 1 + sum(1 for (c, _) in self.table if c == cat)
        return self.table[k]

    def atom(self, cat, value):
        return ('Bytes', self.id(cat, value))

    def value(self, cat, ident):
        for (c, v), i in self.table.items():
            if c == cat and i == ident:
                return v
        raise KeyError((cat, ident))


K_SHARED, K_SALT, K_MAC, K_PW, K_USALT, K_CHUNKER = 1, 2, 3, 4, 5, 6


def key_terms(user=0):
    """the family secrets are atoms 1,2,3,6; user `u` has password atom 4+10u and salt atom 5+10u"""
    return {'shared': ('Bytes', K_SHARED), 'salt': ('Bytes', K_SALT), 'mac': ('Bytes', K_MAC), 'chunker': ('Bytes', K_CHUNKER),
            'user': ('Kdf', ('Bytes', K_PW + 10 * user), ('Bytes', K_USALT + 10 * user))}


class Lifter:
    """concrete repository bytes -> terms.  `nonce numbering`: each distinct concrete nonce value gets
    the next number, so reuse of a nonce value is visible in the lifted terms."""

    def __init__(self, rr: RefReader, key: Key | None, atoms: Atoms | None = None, user=0):
        self.rr, self.key = rr, key
        self.atoms = atoms or Atoms()
        self.kt = key_terms(user)
        self.plain = {}      # chunk atom id -> plaintext

    def nonce(self, ct):
        return self.atoms.id('nonce', self.rr.nonce_of(ct))

    def mac_t(self, t):
        return ('Mac', self.kt['mac'], t) if self.rr.encrypted else t

    def subkey(self, ctx_t):
        return ('Derive', self.kt['shared'], self.kt['salt'], ctx_t)

    def digest_term(self, digest, chunk_plain=None):
        """Hash (Bytes c) for a chunk digest whose preimage is known"""
        if chunk_plain is not None:
            assert self.rr.hash(chunk_plain) == digest
            a = self.atoms.atom('chunk', chunk_plain)
            self.plain[a[1]] = chunk_plain
            return ('Hash', a)
        for (c, v), i in self.atoms.table.items():
            if c == 'chunk' and self.rr.hash(v) == digest:
                return ('Hash', ('Bytes', i))
        raise KeyError('digest without known preimage')

    def lift_chunk(self, path, data, digests):
        """(loc term, contents term, digest) for a chunk object; digests = candidate digests (from the tables)"""
        name, tag = self.rr.parse_chunk_path(path)
        for d in digests:
            if self.rr.chunk_parts(self.key, d) == (name, tag):
                pt = self.rr.read_chunk(self.key, data, d)
                if pt is None:
                    raise ValueError(f'chunk at {path} does not open under the key derived from its digest')
                dt = self.digest_term(d, pt)
                c = dt[1]
                if self.rr.encrypted:
                    if len(data) != self.rr.nonce_bytes + len(pt) + TAG_BYTES:
                        raise ValueError('ciphertext length is not nonce + plaintext + 16')
                    obj = ('Enc', self.subkey(dt), self.nonce(data), c)
                else:
                    obj = c
                return ('LChunk', self.mac_t(dt), self.mac_t(self.mac_t(dt))), obj, d
        raise ValueError(f'chunk name at {path} is not derived from any referenced digest')

    def data_term(self, data):
        files = []
        for f in data['files']:
            refs = [('Pair', ('Num', r['index']), ('Pair', ('Num', r['range'][0]), ('Num', r['range'][1])))
                    for r in sorted(f['chunks'], key=lambda r: r['counter'])]
            fd = ('Hash', self.atoms.atom('file', f['digest'])) if f.get('digest') is not None else 'Nil'
            meta = self.atoms.atom('meta', json.dumps(f['metadata'], sort_keys=True))
            files.append(('Pair', self.atoms.atom('path', f['path']), ('Pair', tlist(refs), ('Pair', fd, meta))))
        info = self.atoms.atom('info', json.dumps([data['utc_timestamp'], data.get('note')]))
        return ('Pair', info, tlist(files))

    def lift_snapshot(self, path, data, chunk_plain):
        """(loc, contents term, parsed) ; chunk_plain: digest -> plaintext for the table's digests"""
        name, tag = self.rr.parse_snapshot_path(path)
        snap = self.rr.read_snapshot(self.key, data)
        table_t = tlist([self.digest_term(d, chunk_plain.get(d)) for d in snap['chunks']])
        if snap['data'] is None:
            raise ValueError('snapshot data does not open under the user key')
        data_t = self.data_term(snap['data'])
        if self.rr.encrypted:
            ed = ('Enc', self.kt['user'], self.nonce(snap['data_ct']), data_t)
            if len(snap['data_ct']) != self.rr.nonce_bytes + len(snap['data_plain']) + TAG_BYTES or \
                    len(snap['chunks_ct']) != self.rr.nonce_bytes + len(snap['table_plain']) + TAG_BYTES:
                raise ValueError('ciphertext length is not nonce + plaintext + 16')
            obj = ('Pair', ('Enc', self.subkey(('Hash', ed)), self.nonce(snap['chunks_ct']), table_t), ed)
        else:
            obj = ('Pair', table_t, data_t)
        digest = self.rr.hash(data)
        if digest.hex() != name:
            raise ValueError('snapshot name is not the hash of its contents')
        if self.rr.snapshot_parts(self.key, digest)[1] != tag:
            raise ValueError('snapshot tag is not the MAC of its name')
        nt = ('Hash', obj)
        return ('LSnap', nt, self.mac_t(nt)), obj, snap


def unctor(t):
    """core.parse_coq_term leaves nullary constructors in argument position as ('ctor', name)"""
    if isinstance(t, tuple):
        if len(t) == 2 and t[0] == 'ctor':
            return t[1]
        return tuple(unctor(a) for a in t)
    if isinstance(t, list):
        return [unctor(a) for a in t]
    return t
