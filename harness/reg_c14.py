from harness.registry import COMMON_TB
ENTRY = {
    'level': 'proof',
    'technique': ('Coq proof (location codec round trip / shape / injectivity over a Python-str library; byte-string tagging round trip on value '
                  'trees; snapshot and chunk object layout as symbolic terms with decode(encode) = id; tiling; metadata-independent restore plan) '
                  '+ definitional tie of the translated location / body / tagging / restore_metadata functions (reflexivity) '
                  '+ two-directional correspondence against an independently written reader and writer of the documented format'),
    'design_ref': 'DESIGN.md section 4 C14, sections 3.2 and 3.3; design/C14.md',
    'text': ('Theorems C14_chunk_location_roundtrip / C14_snapshot_location_roundtrip (+ _shape, _injective, _last_component, C14_location_prefixes, '
             'C14_names_from_digests, and the same round trips about the definitions translated from the working tree), C14_type_reverse_hint, '
             'C14_deserialize_serialize (value trees without a one-key {"!b": ...} object), C14_snapshot_body_roundtrip(_json) and '
             'C14_snapshot_body_shared_reader (chunk table under Derive(shared, Hash(encrypted private data)), private data under the user key), '
             'C14_chunk_object_roundtrip, C14_tiling (re-export of C01), C14_plan_ignores_metadata / C14_legacy_same_restore hold for all names, '
             'tags, value trees, bodies, chunkings and metadata; all print "Closed under the global context". The four location functions, the '
             'two digest-to-name functions, _encrypt/_decrypt_snapshot_body, the chunk key, type_hint/type_reverse and restore_metadata are '
             'translated from the AST into Gen and equal the model by reflexivity (C14_tie_*). Every run: real init + snapshot is decoded by an '
             'independent reader written from the README (config, key file, every snapshot / chunk object and storage name, files reassembled and '
             'compared with the source, ranges tile, byte strings tagged), also through the Coq restore plan; repositories written by the '
             'independent writer with ranges computed by the Coq model, own chunking, current and pre-1.3 metadata are restored by the real code '
             'and compared; names/tags and JSON value trees go through the real functions and the Coq models.'),
    'note': ('The README describes the byte-level format mostly in diagrams (remote images); the details the reference codec needs beyond the '
             'README text follow the code and are listed in design/C14.md. Cryptography is symbolic in the theorems (cipher round trip, base64 '
             'round trip, JSON text codec round trip are premises); the correspondence uses hashlib / cryptography. Correspondence is sampled. '
             'Dict keys are strings, numbers opaque; a non-string under a lone "!b" key (the Python raises) is outside the model.'),
    'trusted_base': COMMON_TB + ['harness/refcodec.py: independent reader/writer of the repository format (hashlib, cryptography, json, base64)',
                                 'Model/Base64.v as the executable instance of the base64 parameter in model-vs-implementation runs'],
    'assumptions': ['cipher decrypt(encrypt(x, k), k) = x', 'base64 decode(encode(b)) = b', 'JSON text codec loads(dumps(j)) = j on trees with unique string keys',
                    'name and tag are lower-case hex strings (bytes.hex()), tag of at least 4 (chunks) / 2 (snapshots) characters',
                    'json.loads applies object_hook to every object, innermost first'],
}
