"""Registry fragment for C16."""
from harness.registry import COMMON_TB
ENTRY = {
    'level': 'proof',
    'technique': ('Coq proof that the Authorization header computed by the adapter equals the one an independent SigV4 specification '
                  'recomputes from the wire request (generic in SHA-256/HMAC/hex) + signing code translated from s3c.py (gen = model by '
                  'reflexivity) + differential correspondence at httpx.MockTransport + independent SigV4 verifier as oracle'),
    'design_ref': 'design/C16.md; DESIGN.md section 4 C16',
    'text': ('Theorems C16_authorization_correct / C16_every_operation_signed: for every hash function, host, region, credentials, clock '
             'rendering, and every object name, prefix and continuation token as arbitrary byte strings (a superset of UTF-8) except names '
             'with a "." or ".." path segment (decidable guard; known finding, C16_dot_segment_refuted), the Authorization header on the '
             'wire equals authorization_spec recomputed from the wire request (percent-decode, UriEncode per segment, split/decode/sort '
             'query, sorted lower-case signed headers, payload hash), and host plus all x-amz-* headers are signed; '
             'C16_upload(_stream)_declares_payload: declared hash and content-length are those of the body for bytes and streams. The '
             'signing code, _prepare_request and the request of every adapter method are translated from the source on every run. What '
             'httpx does to the URL/headers and what strftime prints are NOT proved: they are checked by correspondence on every run '
             '(requests captured at the transport for all 7 operations, compared byte by byte with the model) and by an independent '
             'verifier that plays the service.'),
    'note': ('Explored rather than proved: httpx behaviour (modelled by wire_of), strftime, Python str<->UTF-8, retries. Oracle '
             'harness/sigv4_ref.py is my reading of the AWS documentation, validated against the four published S3 examples.'),
    'trusted_base': COMMON_TB + ['harness/sigv4_ref.py (independent SigV4 verifier, hashlib/hmac)',
                                 'model of httpx request construction (Model/SigV4.v wire_of), tied by correspondence only'],
    'assumptions': ['SHA-256/HMAC/hex are arbitrary functions; a hex digest contains no space',
                    'host, %Y%m%d and %H%M%S renderings contain no space; %Y%m%d has 8 characters (years 1000-9999)',
                    'headers added by the HTTP library are not named host, authorization or x-amz-*',
                    'streams are positioned at 0 when handed to upload_stream and length is their length'],
}
