"""Registry fragment for C16 (filled in at the end)."""
from harness.registry import COMMON_TB
ENTRY = {
    'level': 'proof',
    'technique': 'Coq proof (code path = independent SigV4 specification on the wire request, generic in SHA-256/HMAC) + translated signing code (gen = model by reflexivity) + differential correspondence at httpx.MockTransport + independent SigV4 verifier as oracle',
    'design_ref': 'design/C16.md; DESIGN.md section 4 C16',
    'text': 'see design/C16.md',
    'note': 'see design/C16.md',
    'trusted_base': COMMON_TB,
    'assumptions': [],
}
