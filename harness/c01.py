"""C01 - backup round trip.  Correspondence: layout / attribution / restore plan of Model/Stream.v
(vm_compute) vs real snapshot + restore; model-free oracle: restored tree == source tree.
DESIGN.md section 4, C01."""
from __future__ import annotations

import asyncio
import contextlib
import io
import json
import os
import shutil
import stat
import sys
from pathlib import Path

from harness import core
from harness.core import Report
from harness.memstore import MemBackend, AsyncMemBackend

ALIGN = 4


# --------------------------------------------------------------------------- configurations
def gen_config(rng):
    mx = rng.choice([8, 12, 16, 24, 32, 48, 64, 13, 30, 100])
    mn = rng.choice([1, 2, 4, max(1, mx // 4), max(1, mx // 2), mx])
    while ((mn + 3) & -4) > mx:
        mn -= 1
    settings = {'chunking': {'min_length': mn, 'max_length': mx}}
    h = rng.random()
    if h < 0.4:
        settings['hashing'] = {'name': 'blake2b', 'length': rng.choice([16, 32, 64])}
    elif h < 0.7:
        settings['hashing'] = {'name': 'sha2', 'bits': rng.choice([224, 256, 384, 512])}
    else:
        settings['hashing'] = {'name': 'sha3', 'bits': rng.choice([224, 256, 512])}
    if rng.random() < 0.4:
        settings['encryption'] = None
    else:
        c = rng.random()
        cipher = {'name': 'chacha20_poly1305'} if c < 0.35 else {'name': 'aes_gcm', 'key_bits': rng.choice([128, 192, 256])}
        settings['encryption'] = {'cipher': cipher, 'kdf': {'name': 'scrypt', 'n': 4, 'r': 1, 'p': 1}}
    return {'settings': settings, 'concurrent': rng.choice([1, 1, 2, 3, 5, 8]),
            'backend': rng.choice(['mem', 'mem', 'amem', 'local']), 'delay': rng.choice([0.0, 0.0, 0.002])}


NAMES = ['a', 'b.txt', 'x y', 'é', 'ü-名', 'dir.tmp', '-dash', 'q?x', 'h#y', 'p%41z', "it's", 'café.tmp',
         # names that are not in Unicode normalisation form C (a base letter + combining mark, the ANGSTROM SIGN, a decomposed Hangul syllable)
         'e\u0301t', 'A\u030a', '\u212bngstr', '\u1112\u1161\u11ab']


def gen_tree(rng, mx, mn):
    """tree spec: list of (relative path parts, size, kind) ; kinds: data|zero|rep|same"""
    sizes_pool = [0, 0, 1, 2, 3, 4, 5, 7, 8, mn, mn + 1, mx - 1, mx, mx + 1, mx + mn, 2 * mx - 1, 2 * mx, 2 * mx + 1, 3 * mx + 2, 5 * mx]
    nfiles = rng.choice([1, 2, 3, 4, 6, 9])
    spec, used = [], set()
    all_empty = rng.random() < 0.06
    for i in range(nfiles):
        depth = rng.choice([0, 0, 1, 2])
        # the distinguishing digit goes in front half of the time, so that names also END in what NAMES end in (.tmp, .txt, ...)
        parts = [(lambda n_, d_: n_ + d_ if rng.random() < 0.5 else d_ + n_)(rng.choice(NAMES), str(rng.randint(0, 3))) for _ in range(depth)]
        name = (lambda n_, d_: n_ + d_ if rng.random() < 0.5 else d_ + n_)(rng.choice(NAMES), str(i))
        p = tuple(parts + [name])
        if p in used or any(p[:k] in used for k in range(1, len(p))) or any(q[:len(p)] == p for q in used):
            continue
        used.add(p)
        size = 0 if all_empty else (rng.choice(sizes_pool) if rng.random() < 0.7 else rng.randint(0, 6 * mx))
        spec.append({'parts': list(p), 'size': size, 'kind': rng.choice(['data', 'data', 'zero', 'rep', 'same'])})
    if rng.random() < 0.25:   # a non-UTF-8 name
        spec.append({'parts': ['raw\udcff\udcfe' + str(len(spec))], 'size': rng.choice(sizes_pool), 'kind': 'data'})
    return spec


def make_content(rng, size, kind, shared):
    if kind == 'zero':
        return bytes(size)
    if kind == 'rep':
        pat = rng.randbytes(rng.choice([1, 4, 8]))
        return (pat * (size // len(pat) + 1))[:size]
    if kind == 'same':
        return (shared * (size // len(shared) + 1))[:size]
    return rng.randbytes(size)


def gen_case(rng):
    cfg = gen_config(rng)
    ch = cfg['settings']['chunking']
    tree = gen_tree(rng, ch['max_length'], ch['min_length'])
    nargs = rng.random()
    case = {'cfg': cfg, 'tree': tree, 'content_seed': rng.randint(0, 2 ** 31),
            'args': 'root' if nargs < 0.35 else ('each' if nargs < 0.55 else ('dups' if nargs < 0.8 else 'overlap')),
            'symlinks': rng.random() < 0.3, 'pre': rng.choice(['none', 'longer', 'shorter', 'mixed']),
            'bystander': rng.random() < 0.5}
    return case


# --------------------------------------------------------------------------- recording instrumentation
class Recorder:
    def __init__(self):
        self.files = []      # _SnapshotFile instances in stream order
        self.pieces = []     # bytes fed to the chunker
        self.chunks = []     # bytes produced by the chunker
        self.key = None
        self.writes = []     # (path, offset, length)


@contextlib.contextmanager
def instrument(rec: Recorder):
    import replicat.repository as R
    orig_file, orig_chunkify, orig_write = R._SnapshotFile, R.RepositoryProps.chunkify, R.Repository._write_file_part

    class RecFile(orig_file):
        def __init__(self, *a, **k):
            super().__init__(*a, **k)
            rec.files.append(self)

    def chunkify(self, it):
        rec.key = self.private['chunker_params'] if self.encrypted else None

        def tap(it):
            for p in it:
                rec.pieces.append(bytes(p))
                yield p
        for c in orig_chunkify(self, tap(it)):
            rec.chunks.append(bytes(c))
            yield c

    def write_part(self, path, data, offset):
        rec.writes.append((str(path), offset, len(data)))
        return orig_write(self, path, data, offset)

    R._SnapshotFile, R.RepositoryProps.chunkify, R.Repository._write_file_part = RecFile, chunkify, write_part
    try:
        yield
    finally:
        R._SnapshotFile, R.RepositoryProps.chunkify, R.Repository._write_file_part = orig_file, orig_chunkify, orig_write


def expected_files(args):
    """Independent reading of which files a list of path arguments denotes (README: directories are walked,
    symlinks followed; top-level arguments are resolved), de-duplicated by recorded path."""
    out = {}
    for a in args:
        p = Path(os.path.realpath(a))
        if p.is_dir():
            for root, dirs, files in os.walk(p, followlinks=True):
                for f in files:
                    q = os.path.join(root, f)
                    if os.path.isfile(q):
                        out.setdefault(q, None)
        elif p.is_file():
            out.setdefault(str(p), None)
    return list(out)


def run_case(case, workdir: Path):
    """Runs the real snapshot + restore; returns an observation dict (JSON-able) or raises."""
    import random as _random
    from replicat.repository import Repository
    from replicat.backends.local import Local
    rng = _random.Random(case['content_seed'])
    src = workdir / 'src'
    src.mkdir(parents=True)
    shared = rng.randbytes(37)
    created = []
    for f in case['tree']:
        p = src.joinpath(*f['parts'])
        p.parent.mkdir(parents=True, exist_ok=True)
        p.write_bytes(make_content(rng, f['size'], f['kind'], shared))
        os.utime(p, ns=(rng.randint(10 ** 17, 16 * 10 ** 17), rng.randint(10 ** 17, 16 * 10 ** 17)))
        created.append(p)
    if case['symlinks'] and created:
        os.symlink(created[0], src / 'link-to-file')
        sub = [p.parent for p in created if p.parent != src]
        if sub:
            (workdir / 'elsewhere').mkdir()
            tgt = workdir / 'elsewhere' / 'real'
            tgt.mkdir()
            (tgt / 'inner').write_bytes(rng.randbytes(rng.choice([0, 5, 70])))
            os.symlink(tgt, src / 'link-to-dir')
    if case['args'] == 'root':
        args = [src]
    elif case['args'] == 'each':
        args = list(created)
    elif case['args'] == 'dups':
        args = [src, src] if rng.random() < 0.5 else list(created) + list(created[:2])
    else:
        args = [src] + created[:2] + [p.parent for p in created[:1]]
    if case['symlinks'] and created and rng.random() < 0.5:
        args.append(src / 'link-to-file')      # top-level symlink argument
    cfg = case['cfg']
    brng = _random.Random(case['content_seed'] + 1)
    if cfg['backend'] == 'mem':
        backend = MemBackend(brng, cfg['delay'])
    elif cfg['backend'] == 'amem':
        backend = AsyncMemBackend(brng, cfg['delay'])
    else:
        backend = Local(workdir / 'repo')
    settings = json.loads(json.dumps(cfg['settings']))
    encrypted = settings.get('encryption', {}) is not None
    password = b'pw' if encrypted else None
    rec = Recorder()
    devnull = io.StringIO()

    async def go():
        repo = Repository(backend, concurrent=cfg['concurrent'], quiet=True, cache_directory=None)
        init = await repo.init(password=password, settings=settings)
        repo2 = Repository(backend, concurrent=cfg['concurrent'], quiet=True, cache_directory=None)
        await repo2.unlock(password=password, key=init.key)
        snap = await repo2.snapshot(paths=[Path(a) for a in args], note='n')
        target = workdir / 'out'
        target.mkdir()
        exp = expected_files(args)
        pre = {}
        prng = _random.Random(case['content_seed'] + 2)
        for i, path in enumerate(exp):
            mode = case['pre'] if case['pre'] != 'mixed' else prng.choice(['none', 'longer', 'shorter'])
            if mode == 'none':
                continue
            t = Path(target, *Path(path).parts[1:])
            t.parent.mkdir(parents=True, exist_ok=True)
            n = os.path.getsize(path)
            t.write_bytes(b'Z' * (n + 1 + prng.randint(0, 300)) if mode == 'longer' else b'Y' * max(0, n - 1 - prng.randint(0, 5)))
            pre[str(t)] = mode
        bystanders = {}
        if case['bystander']:
            b = target / 'bystander.bin'
            b.write_bytes(b'keep me')
            bystanders[str(b)] = b'keep me'
        repo3 = Repository(backend, concurrent=cfg['concurrent'], quiet=True, cache_directory=None)
        await repo3.unlock(password=password, key=init.key)
        res = await repo3.restore(path=target)
        return snap, res, target, exp, bystanders, repo2.props

    with contextlib.redirect_stdout(devnull), contextlib.redirect_stderr(devnull), instrument(rec):
        snap, res, target, exp, bystanders, props = asyncio.run(go())

    problems = []
    # ---- oracle: every expected file exactly once, identical bytes and mtime; nothing else
    recorded = [f['path'] for f in snap.data['files']]
    if sorted(recorded) != sorted(exp):
        problems.append(('files recorded in the snapshot differ from the files the arguments denote: '
                         f'{len(recorded)} recorded, {len(set(recorded))} distinct, {len(exp)} expected', 'file_set'))
    if sorted(res.files) != sorted(set(exp)) or len(res.files) != len(set(res.files)):
        problems.append((f'restore reports {len(res.files)} files, expected {len(exp)}', 'file_set'))
    expected_targets = {}
    for path in exp:
        t = Path(target, *Path(path).parts[1:])
        expected_targets[str(t)] = path
        if not t.is_file() or t.is_symlink():
            problems.append((f'file not restored (size {os.path.getsize(path)})', 'missing'))
            continue
        want, got = Path(path).read_bytes(), t.read_bytes()
        if want != got:
            kind = 'pre_existing' if len(got) > len(want) and got[:len(want)] == want else ('doubled' if got == want * 2 else 'content')
            problems.append((f'restored content differs: {len(got)} bytes restored, {len(want)} bytes original', kind))
        elif os.stat(path).st_mtime_ns != t.stat().st_mtime_ns:
            problems.append(('modification time not restored', 'mtime'))
    present = {str(p) for p in target.rglob('*') if p.is_file() or p.is_symlink()}
    extra = present - set(expected_targets) - set(bystanders)
    if extra:
        problems.append((f'{len(extra)} file(s) created that are not part of the snapshot', 'extra_file'))
    for b, content in bystanders.items():
        if Path(b).read_bytes() != content:
            problems.append(('a file outside the restored paths was modified', 'bystander'))

    # ---- observation for the model
    digests = [props.hash_digest(c) for c in rec.chunks]
    table = list(dict.fromkeys(digests))
    by_path = {f['path']: f for f in snap.data['files']}
    obs = {
        'flens': [f.stream_end - f.stream_start for f in rec.files],
        'extents': [[f.stream_start, f.stream_end] for f in rec.files],
        'paths': [f.path for f in rec.files],
        'clens': [len(c) for c in rec.chunks],
        'stream_len': sum(len(p) for p in rec.pieces),
        'pieces': [p.hex() for p in rec.pieces] if sum(len(p) for p in rec.pieces) <= 700 else None,
        'key': (rec.key or b'').hex(),
        'table_ok': [d.hex() for d in snap.chunks] == [d.hex() for d in table],
        'index_ok': True, 'refs': [], 'writes': [],
        'mn': cfg['settings']['chunking']['min_length'], 'mx': cfg['settings']['chunking']['max_length'],
    }
    # the digest sequence for Model.Dedup: digests numbered by the order of their bytes (not by occurrence)
    ids = {d: i for i, d in enumerate(sorted(set(digests) | set(snap.chunks)))}
    obs['dseq'] = [ids[d] for d in digests]
    obs['snap_table'] = [ids[d] for d in snap.chunks]
    obs['ref_index'] = []
    for f in rec.files:
        fd = by_path.get(f.path)
        refs = sorted(fd['chunks'], key=lambda c: c['counter']) if fd else []
        obs['ref_index'] += [[r['counter'], r['index']] for r in refs]
        for r in refs:
            if not (1 <= r['counter'] <= len(digests)) or snap.chunks[r['index']] != digests[r['counter'] - 1]:
                obs['index_ok'] = False
        obs['refs'].append([[r['range'][0], r['range'][1], r['counter']] for r in refs])
        t = str(Path(target, *Path(f.path).parts[1:]))
        obs['writes'].append(sorted([o, n] for (p, o, n) in rec.writes if p == t))
    return obs, problems


# --------------------------------------------------------------------------- model side
def model_file(obss):
    L = ['From Coq Require Import List NArith Arith Bool.',
         'From Replicat Require Import Model.Stream Model.Chunker Model.Clmul Model.Dedup.',
         'Import ListNotations.',
         'Definition refl (r : ref) := (r_start r, r_end r, r_counter r).',
         'Definition run (c : list nat * list nat) :=',
         "  let '(fl, cl) := c in",
         f'  (extents {ALIGN} 0 fl, map (map refl) (manifest {ALIGN} fl cl),',
         '   map (fun m => map (fun pr => (fst pr, r_end (snd pr) - r_start (snd pr))) (plan m)) '
         f'(manifest {ALIGN} fl cl), map plan_size (manifest {ALIGN} fl cl)).',
         'Definition cases : list (list nat * list nat) := [']
    L.append(';\n'.join(f"  ({core.coq_nat_list(o['flens'])}, {core.coq_nat_list(o['clens'])})" for o in obss))
    L.append('].')
    L.append('Eval vm_compute in map run cases.')
    # full mode: the model chunker on the recorded pieces
    full = [o for o in obss if o['pieces'] is not None]
    L.append('Definition full : list (list N * nat * nat * list (list N)) := [')
    L.append(';\n'.join("  (%s, %d, %d, [%s])" % (core.coq_bytes(bytes.fromhex(o['key'])), o['mn'], o['mx'],
                                                   '; '.join(core.coq_bytes(bytes.fromhex(p)) for p in o['pieces'])) for o in full))
    L.append('].')
    L.append("Eval vm_compute in map (fun c => let '(k, mn, mx, ps) := c in map (@length N) (gchunkify k mn mx ps (fun _ => []))) full.")
    # the chunk table: Model.Dedup on the digest sequence
    L.append('Definition tcases : list (list N) := [')
    L.append(';\n'.join('  [' + ';'.join(str(i) for i in o['dseq']) + ']%N' for o in obss))
    L.append('].')
    L.append('Eval vm_compute in map (fun ds => let t := table_of N.eqb ds in (t, map (fun d => index_of N.eqb d t) ds)) tcases.')
    return '\n'.join(L) + '\n'


def run_model(obss, per_file=25):
    jobs = [(f'c01_{i // per_file}', model_file(obss[i:i + per_file])) for i in range(0, len(obss), per_file)]
    res = core.coq_eval_files(jobs)
    layouts, fulls = [], []
    for name, _ in jobs:
        rc, text = res[name]
        if rc != 0:
            return None, None, text[-1500:]
        vals = core.parse_coq_values(text)
        tables = core.parse_coq_term(vals[2])
        layouts += [tuple(l) + (t,) for l, t in zip(core.parse_coq_term(vals[0]), tables)]
        fulls += core.parse_coq_term(vals[1])
    return layouts, fulls, ''


def compare(obs, layout):
    """model (extents, manifest, plans, sizes) vs observed.  Returns list of differences."""
    diffs = []
    extents, manifest, plans, sizes, (mtable, mindex) = layout
    # chunk table (Model.Dedup.table_of / index_of on the digest sequence) vs the snapshot's table and ref indices
    if list(mtable) != obs['snap_table']:
        diffs.append(f'chunk table differs: model {list(mtable)} implementation {obs["snap_table"]} (digests numbered by byte order)')
    for counter, index in obs['ref_index']:
        if not (1 <= counter <= len(mindex)) or mindex[counter - 1] != index:
            diffs.append(f'chunk #{counter}: table index differs: model {mindex[counter - 1] if 1 <= counter <= len(mindex) else None} implementation {index}')
            break
    if [list(e) for e in extents] != obs['extents']:
        diffs.append(f'stream extents differ: model {extents} implementation {obs["extents"]}')
        return diffs
    for i, (mrefs, irefs) in enumerate(zip(manifest, obs['refs'])):
        mrefs = [list(r) for r in mrefs]
        mpos = [r for r in mrefs if r[1] > r[0]]
        ipos = [r for r in irefs if r[1] > r[0]]
        if mpos != ipos:
            diffs.append(f'file #{i}: chunk ranges differ: model {mpos} implementation {ipos}')
        izero = [r for r in irefs if r[1] <= r[0]]
        if any(r not in mrefs for r in izero):
            diffs.append(f'file #{i}: implementation records an empty range the model does not allow: {izero} vs {mrefs}')
        if any(r[1] < r[0] for r in irefs):
            diffs.append(f'file #{i}: negative range {irefs}')
        # plan: positive writes must agree exactly (position, size)
        mw = sorted([list(w) for w in plans[i] if w[1] > 0])
        iw = sorted([w for w in obs['writes'][i] if w[1] > 0])
        if mw != iw:
            diffs.append(f'file #{i}: restore writes differ: model {mw} implementation {iw}')
        if sizes[i] != obs['flens'][i]:
            diffs.append(f'file #{i}: planned size {sizes[i]} != file length {obs["flens"][i]}')
    return diffs


RULE = ('cases = (repository settings incl. cipher/hash/chunk sizes/concurrency/backend flavour, file tree with sizes around '
        '0, alignment, min, max, 2*max, names incl. non-ASCII and non-UTF-8, symlinks, argument lists with repeats and overlaps, '
        'pre-existing longer/shorter targets, bystander file); non-trivial = at least 2 chunks and at least one file spanning '
        'a chunk boundary or sharing a chunk; distinct = distinct case description')


def corpus_cases():
    return [json.loads(p.read_text()) for p in sorted((core.ROOT / 'corpus' / 'C01').glob('*.json'))]


def check_cases(cases, ctx, rep: Report, with_model=True):
    obss, kept = [], []
    for i, case in enumerate(cases):
        wd = ctx.scratch / f'c01-{len(kept)}-{i}'
        try:
            obs, problems = run_case(case, wd)
        except Exception as e:   # a crash of snapshot/restore on a legal tree is a violation
            import traceback
            obs, problems = None, [(f'snapshot/restore raised {type(e).__name__}: {e}', 'exception')]
            tb = traceback.format_exc()[-1500:]
            case = dict(case, traceback=tb)
        finally:
            shutil.rmtree(wd, ignore_errors=True)
        sig_base = {'args': case['args'], 'pre': case['pre']}
        for what, kind in problems:
            rep.violations.append({'what': what, 'signature': dict(sig_base, kind=kind), 'replay': case})
        if obs is None:
            rep.case(case, nontrivial=False)
            continue
        nontrivial = len(obs['clens']) >= 2 and any(len([r for r in refs if r[1] > r[0]]) >= 2 for refs in obs['refs']) or \
            (len(obs['clens']) >= 1 and len(obs['flens']) >= 2)
        rep.case(case, nontrivial=bool(nontrivial))
        rep.count('backend=' + case['cfg']['backend'])
        rep.count('encrypted' if case['cfg']['settings'].get('encryption', {}) is not None else 'unencrypted')
        rep.count(f'concurrent={case["cfg"]["concurrent"]}')
        rep.count('args=' + case['args'])
        rep.count('pre=' + case['pre'])
        rep.count('empty_files', sum(1 for n in obs['flens'] if n == 0))
        rep.sample({'settings': case['cfg']['settings'], 'file_lengths': obs['flens'], 'chunk_lengths': obs['clens'],
                    'refs_of_first_file': obs['refs'][0] if obs['refs'] else None, 'args': case['args'], 'pre': case['pre']})
        if not obs['table_ok']:
            rep.disagreements.append({'what': 'chunk table is not the first-occurrence de-duplication of the chunk digests', 'replay': case})
        if not obs['index_ok']:
            rep.disagreements.append({'what': 'a chunk reference index does not lead to the digest of its chunk', 'replay': case})
        if sum(obs['clens']) != obs['stream_len']:
            rep.disagreements.append({'what': 'chunker output does not add up to the stream', 'replay': case})
        obss.append(obs)
        kept.append(case)
    if with_model and obss:
        layouts, fulls, err = run_model(obss)
        if layouts is None:
            rep.disagreements.append({'what': 'the model could not be evaluated: ' + err, 'replay': None})
            return
        fi = 0
        for case, obs, lay in zip(kept, obss, layouts):
            rep.traces_validated += 1
            for d in compare(obs, lay):
                rep.disagreements.append({'what': d, 'replay': case})
            if obs['pieces'] is not None:
                if fulls[fi] != obs['clens']:
                    rep.disagreements.append({'what': f'model chunker lengths {fulls[fi]} != implementation {obs["clens"]}', 'replay': case})
                fi += 1
                rep.count('full_model_cases')


CLI_MINE = ('exception', 'hang', 'snapshot_unreadable', 'snapshot_objects', 'snapshot_name', 'recorded_files', 'stored_bytes', 'restore_mismatch', 'referenced_chunk_missing')


def run(ctx) -> Report:
    rep = Report(rule=RULE)
    n = ctx.scale(140, 2500)
    cases = corpus_cases() + [gen_case(ctx.rng) for _ in range(n)]
    check_cases(cases, ctx, rep)
    # the round trip through the tool as a user runs it (fresh `python -m replicat` processes, repository on disk, several
    # path arguments incl. spellings that are prefixes of one another), judged by an independent walker and an independent reader
    from harness import cli_hist
    cli_hist.run_scenarios(ctx, rep, {'plain': ctx.scale(5, 50), 'oserror': ctx.scale(3, 30)}, CLI_MINE)
    library_histories(ctx, rep, ctx.scale(36, 400))
    return rep


HIST_WEIGHTS = {'snapshot': 4, 'repeat': 4, 'delete': 3, 'delete_foreign': 1, 'clean': 1, 'orphans': 2, 'observe': 1}
HIST_MINE = ('exception', 'hang', 'restore_mismatch', 'referenced_chunk_missing')


def library_histories(ctx, rep, n, seeds=None):
    """The round trip for a program that uses the library: ONE Repository object per user lives through a whole history of
    snapshots (also of the same tree again), deletions by itself and by others, clean-ups and snapshots whose upload failed and
    which are simply run again; every snapshot still listed at the end must restore to exactly the tree it was made of."""
    import shutil
    from harness import repo_hist
    for sd in seeds or [ctx.rng.randint(0, 2 ** 31) for _ in range(n)]:
        wd = ctx.scratch / f'lib{sd}'
        wd.mkdir(parents=True, exist_ok=True)
        sub = Report(rule=RULE)
        try:
            _, descr, _ = repo_hist.run_history(sd, wd, sub, nops=10, weights=HIST_WEIGHTS, checks={'restore'}, concurrent=1 + sd % 3,
                                                delay=0.001, mode='long_lived')
        finally:
            shutil.rmtree(wd, ignore_errors=True)
        rep.case(('library-history', sd), nontrivial=len(descr) >= 3)
        rep.count('library_histories')
        for v in sub.violations:
            if v['signature']['kind'] in HIST_MINE:
                v['replay'] = {'library_seed': sd, 'what': v['what']}
                rep.violations.append(v)


def search(ctx, broken) -> Report:
    rep = Report(rule=RULE)
    seeds = [b['case'] for b in broken if isinstance(b.get('case'), dict) and 'tree' in b['case']]
    cases = seeds + [gen_case(ctx.rng) for _ in range(1500)]
    check_cases(cases, ctx, rep, with_model=False)
    return rep


def replay(ctx, obj):
    from harness import cli_hist
    rc = cli_hist.replay_cli(ctx, obj, CLI_MINE)
    if rc is not None:
        return rc
    rep = Report(rule=RULE)
    case = obj.get('replay') or {}
    if 'library_seed' in case:
        library_histories(ctx, rep, 1, seeds=[case['library_seed']])
        for v in rep.violations:
            print('VIOLATION-REPRODUCED', v['what'])
        return 1 if rep.violations else 0
    if 'tree' not in case:
        print('replay file does not carry a C01 case:', obj.get('kind'))
        return 0
    check_cases([case], ctx, rep)
    for v in rep.violations:
        print('VIOLATION-REPRODUCED', v['what'])
    for d in rep.disagreements:
        print('DISAGREEMENT-REPRODUCED', d['what'])
    return 1 if rep.violations or rep.disagreements else 0
