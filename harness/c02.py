"""C02 - no history of snapshot/delete/clean damages a remaining snapshot."""
from harness import cli_hist, core, remote_hist, repo_hist
from harness.core import Report

RULE = ('cases = random multi-user histories (2-4 users related as owner/shared/clone/independent, or unencrypted) of snapshot, '
        'concurrent snapshot pairs, delete of own snapshots, refused delete of foreign snapshots, clean, interrupted snapshots '
        '(orphans), over file sets with heavy content overlap; after every command the real object set is lifted to the layer-1 '
        'state and compared with Model/Repo.exec; every remaining snapshot is restored by its owner and compared with ground truth; '
        'non-trivial = at least 3 commands of at least 2 kinds; distinct = distinct command sequence')
WEIGHTS = {'snapshot': 5, 'repeat': 1, 'pair': 1, 'delete': 3, 'delete_foreign': 1, 'clean': 2, 'orphans': 1, 'flaky_gc': 1, 'interrupted_delete': 1, 'observe': 1, 'vanish': 1}
CHECKS = {'restore', 'frame'}
KINDS = None   # all violation kinds are C02-relevant when a remaining snapshot is damaged


def local_overlap_probe(ctx, rep):
    """Two snapshot commands that overlap in time may both upload the same new chunk (different ciphertexts of the same
    plaintext).  On the local backend the stored object must be ENTIRELY one of the two, whatever the interleaving of their
    writes: forced schedule A piece 1, B piece 1, B piece 2 (B completes), A piece 2 (A completes)."""
    import io, threading, shutil as _sh
    from replicat.backends import local as L
    root = ctx.scratch / 'overlap-local'
    for trial in range(3):
        b = L.Local(root / f't{trial}')
        name = 'data/ab/cd/ef-0123'
        pa, pb = ctx.rng.randbytes(200), ctx.rng.randbytes(200)
        first_piece_written = threading.Event()
        b_done = threading.Event()
        observed = []
        orig_copy = L.shutil.copyfileobj

        def stepping_copy(src, dst, length=0):
            who = threading.current_thread().name
            piece = src.read(100)
            dst.write(piece)
            dst.flush()
            if who == 'uploader-A':
                first_piece_written.set()
                b_done.wait(10)
            dst.write(src.read())
            dst.flush()
            if who == 'uploader-A' and not observed:
                # what a reader (or a process killed right now) finds under the object's name at this instant
                try:
                    observed.append(b.download(name))
                except Exception:
                    observed.append(None)

        def up(payload):
            b.upload_stream(name, io.BytesIO(payload), len(payload), 100)

        L.shutil.copyfileobj = stepping_copy
        try:
            ta = threading.Thread(target=up, args=(pa,), name='uploader-A')
            ta.start()
            first_piece_written.wait(10)
            tb = threading.Thread(target=up, args=(pb,), name='uploader-B')
            tb.start()
            tb.join(20)
            b_done.set()
            ta.join(20)
        finally:
            L.shutil.copyfileobj = orig_copy
        rep.case(('local-overlap', trial), nontrivial=True)
        if observed and observed[0] is not None and observed[0] not in (pa, pb):
            rep.violations.append({'what': f'while two uploads of one chunk name overlap, the object visible under that name ({len(observed[0])} bytes) is neither upload '
                                           '(the writers share a temporary): a reader, or a process killed at that instant, is left with a mixture',
                                   'signature': {'kind': 'chunk_mixed_by_overlapping_uploads'}, 'replay': {'probe': 'local_overlap'}})
            break
        stored = b.download(name)
        if stored not in (pa, pb):
            rep.violations.append({'what': f'two overlapping uploads of one chunk name left a stored object ({len(stored)} bytes) that is neither upload '
                                           '(pieces of both interleaved): every snapshot referencing it is unrestorable',
                                   'signature': {'kind': 'chunk_mixed_by_overlapping_uploads'}, 'replay': {'probe': 'local_overlap'}})
            break
        if sorted(b.list_files('')) != [name]:
            rep.violations.append({'what': f'after two overlapping uploads the listing is {sorted(b.list_files(""))}', 'signature': {'kind': 'chunk_mixed_by_overlapping_uploads'},
                                   'replay': {'probe': 'local_overlap'}})
            break
    _sh.rmtree(root, ignore_errors=True)


def overlap_fail_probe(ctx, rep):
    """Two sessions of one key family snapshot overlapping data at the same time; one of them fails for good on a LATE upload (after
    the other one has completed, having seen the common chunks as present and only referenced them).  The snapshot that completed
    must stay restorable whatever the failing command does on its way out."""
    import asyncio, contextlib, io, shutil as _sh
    from pathlib import Path
    from harness.memstore import MemBackend
    from harness.repo_hist import FaultBackend
    from replicat.repository import Repository
    for trial in range(3):
        wd = Path(ctx.scratch) / f'overlap-fail-{trial}'
        (wd / 'common').mkdir(parents=True)
        (wd / 'extra').mkdir(parents=True)
        common = ctx.rng.randbytes(64 * 8)
        (wd / 'common' / 'shared.bin').write_bytes(common)
        (wd / 'extra' / 'zzz-own.bin').write_bytes(ctx.rng.randbytes(64 * 30))
        be = MemBackend(ctx.rng, 0.002)
        out = {}

        async def go():
            r0 = Repository(be, concurrent=2, quiet=True, cache_directory=None)
            await r0.init(settings={'encryption': None, 'chunking': {'min_length': 64, 'max_length': 64}, 'hashing': {'name': 'blake2b', 'length': 16}})
            # the failing session: common data first (smaller file), then its own; the upload that fails is one of the last
            fb = FaultBackend(be, 'fail_late', 8 + 12 + trial * 7)
            ra = Repository(fb, concurrent=2, quiet=True, cache_directory=None)
            await ra.unlock()
            rb = Repository(be, concurrent=2, quiet=True, cache_directory=None)
            await rb.unlock()

            async def b_later():
                await asyncio.sleep(0.05)            # B starts once A has uploaded the common chunks
                return await rb.snapshot(paths=[wd / 'common'])
            res = await asyncio.wait_for(asyncio.gather(ra.snapshot(paths=[wd / 'common', wd / 'extra']), b_later(), return_exceptions=True), 60)
            fb.dead = True
            out['a'], out['b'] = res
            if not isinstance(res[1], BaseException):
                out['missing'] = [d for d in res[1].chunks if rb._chunk_digest_to_location(d) not in be.objects]
                rr = Repository(be, concurrent=2, quiet=True, cache_directory=None)
                await rr.unlock()
                (wd / 'out').mkdir()
                try:
                    await rr.restore(snapshot_regex='^' + res[1].name + '$', path=wd / 'out')
                    t = Path(wd / 'out', *Path(str((wd / 'common' / 'shared.bin').resolve())).parts[1:])
                    out['restored'] = t.is_file() and t.read_bytes() == common
                except Exception as e:
                    out['restored'] = f'{type(e).__name__}: {str(e)[:60]}'
        with contextlib.redirect_stdout(io.StringIO()), contextlib.redirect_stderr(io.StringIO()):
            asyncio.run(go())
        _sh.rmtree(wd, ignore_errors=True)
        rep.case(('overlap-fail', trial, isinstance(out.get('a'), BaseException)), nontrivial=isinstance(out.get('a'), BaseException))
        rep.count('overlap_fail_probe')
        if isinstance(out.get('b'), BaseException):
            rep.violations.append({'what': f'a fault-free snapshot overlapping a failing one raised {type(out["b"]).__name__}: {str(out["b"])[:100]}',
                                   'signature': {'kind': 'exception', 'probe': 'overlap_fail'}, 'replay': {'probe': 'overlap_fail'}})
        elif out.get('missing') or out.get('restored') is not True:
            rep.violations.append({'what': f'a snapshot that completed lost {len(out.get("missing") or [])} of its chunks when an overlapping snapshot command of the same key family '
                                           f'failed on a late upload (restore: {out.get("restored")})',
                                   'signature': {'kind': 'referenced_chunk_missing', 'probe': 'overlap_fail'}, 'replay': {'probe': 'overlap_fail'}})
            return


CLI_MINE = ('exception', 'hang', 'snapshot_unreadable', 'snapshot_objects', 'snapshot_name', 'restore_mismatch', 'referenced_chunk_missing', 'gc_overreach', 'unknown_object', 'stored_bytes', 'snapshot_not_listed')


def _run(ctx, n, nops, rep):
    seeds = [ctx.rng.randint(0, 2 ** 31) for _ in range(n)]
    repo_hist.run_batch(seeds, ctx.scratch, rep, nops=nops, weights=WEIGHTS, checks=CHECKS,
                        concurrent=ctx.rng.choice([1, 2, 3]), delay=0.001)
    local_overlap_probe(ctx, rep)
    overlap_fail_probe(ctx, rep)
    rep.violations[:] = [v for v in rep.violations if v['signature']['kind'] in
                         ('restore_mismatch', 'referenced_chunk_missing', 'gc_overreach', 'exception', 'unknown_object', 'failed_gc_mutated', 'chunk_mixed_by_overlapping_uploads')]
    # the same property through the tool as a user runs it: fresh `python -m replicat` processes, a repository on disk, real faults
    cli_hist.run_scenarios(ctx, rep, {'plain': ctx.scale(3, 30), 'oserror': ctx.scale(4, 40)}, CLI_MINE)
    cli_hist.refused_removal_probe(ctx, rep, CLI_MINE)
    cli_hist.scan_fault_probe(ctx, rep, CLI_MINE)
    # and over the remote adapters (B2 by bucket name and by bucket id, S3-compatible) against in-memory fake services
    # a snapshot whose producer finishes while the only upload worker is looking at the (still empty) queue: what it publishes restores
    from harness import c09 as _c09
    _c09.queue_race_probe(ctx, rep)
    remote_hist.remote_probe(ctx, rep, ('exception', 'restore_mismatch', 'referenced_chunk_missing'))
    # ... and while the service fails one kind of call of a snapshot command for good (in every second trial the existence check of a
    # chunk): whatever the command reports, what is listed afterwards has all its chunks
    remote_hist.remote_fault_probe(ctx, rep, ('referenced_chunk_missing', 'restore_mismatch'), n=ctx.scale(12, 80), focus='snapshot', prefer_exists=True)


def run(ctx) -> Report:
    rep = Report(rule=RULE)
    _run(ctx, ctx.scale(40, 600), ctx.scale(10, 18), rep)
    return rep


def search(ctx, broken) -> Report:
    rep = Report(rule=RULE)
    _run(ctx, ctx.scale(120, 1500), 16, rep)
    rep.disagreements.clear()
    return rep


def replay(ctx, obj):
    rc = cli_hist.replay_cli(ctx, obj, CLI_MINE)
    if rc is not None:
        return rc
    if (obj.get('replay') or {}).get('probe') == 'queue_race':
        from harness import c09 as _c09
        rep = Report(rule=RULE)
        _c09.queue_race_probe(ctx, rep)
        for v in rep.violations:
            print('VIOLATION-REPRODUCED', v['what'])
        return 1 if rep.violations else 0
    if (obj.get('replay') or {}).get('probe') == 'overlap_fail':
        rep = Report(rule=RULE)
        overlap_fail_probe(ctx, rep)
        for v in rep.violations:
            print('VIOLATION-REPRODUCED', v['what'])
        return 1 if rep.violations else 0
    if (obj.get('replay') or {}).get('probe') == 'remote':
        rep = Report(rule=RULE)
        remote_hist.remote_probe(ctx, rep, ('exception', 'restore_mismatch', 'referenced_chunk_missing'), deployments=[obj['replay']['deployment']])
        remote_hist.remote_fault_probe(ctx, rep, ('referenced_chunk_missing', 'restore_mismatch'), n=40, focus='snapshot', prefer_exists=True)
        for v in rep.violations:
            print('VIOLATION-REPRODUCED', v['what'])
        return 1 if rep.violations else 0
    rep = Report(rule=RULE)
    seed = (obj.get('replay') or {}).get('seed')
    if seed is None:
        print('no seed in replay file'); return 0
    repo_hist.run_batch([seed], ctx.scratch, rep, nops=18, weights=WEIGHTS, checks=CHECKS, concurrent=2, delay=0.001)
    for v in rep.violations:
        print('VIOLATION-REPRODUCED', v['what'])
    for d in rep.disagreements:
        print('DISAGREEMENT-REPRODUCED', d['what'])
    return 1 if rep.violations or rep.disagreements else 0
