"""C02 - no history of snapshot/delete/clean damages a remaining snapshot."""
from harness import core, repo_hist
from harness.core import Report

RULE = ('cases = random multi-user histories (2-4 users related as owner/shared/clone/independent, or unencrypted) of snapshot, '
        'concurrent snapshot pairs, delete of own snapshots, refused delete of foreign snapshots, clean, interrupted snapshots '
        '(orphans), over file sets with heavy content overlap; after every command the real object set is lifted to the layer-1 '
        'state and compared with Model/Repo.exec; every remaining snapshot is restored by its owner and compared with ground truth; '
        'non-trivial = at least 3 commands of at least 2 kinds; distinct = distinct command sequence')
WEIGHTS = {'snapshot': 5, 'repeat': 1, 'pair': 1, 'delete': 3, 'delete_foreign': 1, 'clean': 2, 'orphans': 1, 'flaky_gc': 1}
CHECKS = {'restore', 'frame'}
KINDS = None   # all violation kinds are C02-relevant when a remaining snapshot is damaged


def _run(ctx, n, nops, rep):
    seeds = [ctx.rng.randint(0, 2 ** 31) for _ in range(n)]
    repo_hist.run_batch(seeds, ctx.scratch, rep, nops=nops, weights=WEIGHTS, checks=CHECKS,
                        concurrent=ctx.rng.choice([1, 2, 3]), delay=0.001)
    rep.violations[:] = [v for v in rep.violations if v['signature']['kind'] in
                         ('restore_mismatch', 'referenced_chunk_missing', 'gc_overreach', 'exception', 'unknown_object', 'failed_gc_mutated')]


def run(ctx) -> Report:
    rep = Report(rule=RULE)
    _run(ctx, ctx.scale(40, 600), ctx.scale(10, 18), rep)
    return rep


def search(ctx, broken) -> Report:
    rep = Report(rule=RULE)
    _run(ctx, ctx.scale(120, 1500), 16, rep)
    rep.disagreements.clear()
    return rep


def replay(ctx, obj):
    rep = Report(rule=RULE)
    seed = (obj.get('replay') or {}).get('seed')
    if seed is None:
        print('no seed in replay file'); return 0
    repo_hist.run_batch([seed], ctx.scratch, rep, nops=18, weights=WEIGHTS, checks=CHECKS, concurrent=2, delay=0.001)
    for v in rep.violations:
        print('VIOLATION-REPRODUCED', v['what'])
    for d in rep.disagreements:
        print('DISAGREEMENT-REPRODUCED', d['what'])
    return 1 if rep.violations or rep.disagreements else 0
