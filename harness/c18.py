"""C18 - the snapshot cache never changes what a command does.
C (oracle = the property itself): histories of snapshot / list-snapshots / list-files / restore / delete / clean by
several clients (owner, shared key, independent key of an encrypted repository; a user of a second, unencrypted
repository) are run once per cache variant from the same initial state; every observation (outcome class,
canonicalised stdout rows, restored tree, resulting backend object set) must equal the cache-less run.
B2: the same histories, with the cache events of the variant, are run through Model/Cache.run_ops (vm_compute);
outcome class, visible/readable snapshots and the state of every cache entry after each step are compared.
DESIGN.md C18 / design/C18.md."""
from __future__ import annotations

import hashlib
import json
import os
import shutil
import sys
from concurrent.futures import ThreadPoolExecutor
from pathlib import Path

from harness import core, repolab
from harness.core import Report
from harness.membackend import MemBackend, snapshot_local, write_local

RULE = ('cases = (history, cache variant): random histories (8-14 operations) of snapshot/list-snapshots/list-files/restore/delete/clean '
        'by 4 clients (owner, shared-key user, independent-key user of an encrypted repository, user of a second unencrypted repository on the '
        'Local backend); variants: disabled (reference), separate empty caches, separate warm caches, one cache directory shared by all keys and '
        'both repositories, and - before every command - every entry of the acting client\'s cache replaced by: nothing (removed), empty file, '
        '1 byte, half, all but the last byte, the bytes of another entry/another snapshot, same-length garbage, or a random mix; in every second history an '
        'object whose contents do not hash to its name is planted under a well-formed snapshot location (and possibly removed again): all '
        'clients must fail alike; plus the crowded-directory scenario: snapshots are created until two share a cache sub-directory, then every '
        'command is run cache-less and with a cold cache and 4 loader threads whose cache writes into one directory are made to overlap, '
        'and two clients on one cache directory (encrypted repository: independent keys) in both forced orders of "about to write an entry into a '
        'sub-directory" / "deleting the only other entry of that sub-directory"; stale entries '
        'arise from the other clients\' snapshot/delete operations; non-trivial = the variant run actually read or repaired at least one cache '
        'entry that differs from the backend object (or, for plain variants, served at least one entry from the cache); distinct = distinct '
        '(history, variant)')

VARIANTS_QUICK = ['sep', 'warm', 'shared', 'missing', 'empty', 'one', 'half', 'minus1', 'other', 'garbage', 'mixed']
USERS = ['owner', 'shared', 'indep', 'plain']     # client ids 0..3
CODE = {'Ok': 0, 'Corrupted': 1, 'DecryptFail': 2, 'Missing': 3, 'Malformed': 4, 'ReplicatError': 5}


# --------------------------------------------------------------------------- history generation
def gen_history(rng, length, plant=False, objects=False):
    """ops: dicts {op, client, ...}; labels of snapshots = index of the creating step.
    plant: somewhere in the second half an object whose contents do NOT hash to its name is written straight into the
    backend under a well-formed snapshot location (upload-objects, a damaged mirror): from then on every client must fail
    the same way, whatever its cache holds; it may be removed again (delete-objects) before the last observations."""
    h = []
    alive = {0: [], 1: []}      # repo -> [(label, client)]
    ever = {0: [], 1: []}       # repo -> labels of every snapshot ever created
    for i in range(length):
        client = rng.choices([0, 1, 2, 3], weights=[4, 3, 2, 2])[0]
        repo = 1 if client == 3 else 0
        k = rng.random()
        if k < 0.3 or (i < 3 and not alive[repo]):
            h.append({'op': 'snapshot', 'client': client, 'tree': rng.randrange(4), 'note': rng.choice([None, 'n%d' % i])})
            alive[repo].append((i, client))
            ever[repo].append(i)
        elif objects and k < 0.36:
            h.append({'op': rng.choice(['mirror', 'list_objects', 'download_objects', 'upload_objects']), 'client': client,
                      'skip_existing': rng.random() < 0.5})
        elif objects and k < 0.40 and alive[repo]:
            lab = rng.choice(alive[repo])
            h.append({'op': 'delete_objects', 'client': client, 'labels': [lab[0]]})
            alive[repo].remove(lab)
        elif k < 0.45:
            h.append({'op': 'list_snapshots', 'client': client, 'select': rng.choice(ever[repo]) if ever[repo] and rng.random() < 0.3 else None})
        elif k < 0.55:
            h.append({'op': 'list_files', 'client': client, 'select': rng.choice(ever[repo]) if ever[repo] and rng.random() < 0.3 else None})
        elif k < 0.75:
            mine = [l for l, c in alive[repo] if c == client]
            r_ = rng.random()
            # by complete name: mostly an own live snapshot, sometimes ANY snapshot ever created here (deleted, somebody else's)
            tgt = rng.choice(mine) if mine and r_ < 0.6 else (rng.choice(ever[repo]) if ever[repo] and r_ < 0.8 else None)
            h.append({'op': 'restore', 'client': client, 'target': tgt})
        elif k < 0.9 and alive[repo]:
            r = rng.random()
            mine = [l for l, c in alive[repo] if c == client]
            if mine and r < 0.75:
                labels = rng.sample(mine, 1 if len(mine) == 1 or rng.random() < 0.7 else 2)
            else:
                labels = [rng.choice(alive[repo])[0]]           # possibly another user's snapshot: refused
            h.append({'op': 'delete', 'client': client, 'labels': labels})
            for l in labels:
                if (l, client) in alive[repo]:
                    alive[repo].remove((l, client))
        else:
            h.append({'op': 'clean', 'client': client})
    if objects:
        # the object-level commands around a snapshot that ANOTHER client removes: a mirror of the repository is taken,
        # somebody else deletes a snapshot object, the mirror is uploaded again (--skip-existing), objects are listed and downloaded
        a, b = (0, 1) if rng.random() < 0.7 else (3, 3)
        repo = 1 if a == 3 else 0
        if not alive[repo]:
            h.append({'op': 'snapshot', 'client': a, 'tree': rng.randrange(4), 'note': None})
            alive[repo].append((len(h) - 1, a))
        lab = alive[repo][-1][0]
        h += [{'op': 'list_snapshots', 'client': b}, {'op': 'mirror', 'client': b, 'skip_existing': False},
              {'op': 'delete_objects', 'client': a, 'labels': [lab]},
              {'op': 'list_snapshots', 'client': b, 'select': lab}, {'op': 'restore', 'client': b, 'target': lab}, {'op': 'list_files', 'client': b, 'select': lab},
              {'op': 'upload_objects', 'client': b, 'skip_existing': True}, {'op': 'list_objects', 'client': b},
              {'op': 'download_objects', 'client': b, 'skip_existing': False}, {'op': 'download_objects', 'client': a, 'skip_existing': True}]
    planted = None
    if plant:
        at = rng.randint(max(1, len(h) // 2), len(h))
        pc = rng.choices([0, 1, 3], weights=[3, 1, 2])[0]
        h.insert(at, {'op': 'plant', 'client': pc})
        # labels are step indices: shift the labels of the operations that moved
        for op in h[at + 1:]:
            if op.get('target') is not None and op['target'] >= at:
                op['target'] += 1
            if 'labels' in op:
                op['labels'] = [l + 1 if l >= at else l for l in op['labels']]
            if op.get('select') is not None and op['select'] >= at:
                op['select'] += 1
        planted = (at, pc)
    # always end with observations by everybody
    for c in range(4):
        h.append({'op': 'list_snapshots', 'client': c})
    if planted and rng.random() < 0.5:
        h.append({'op': 'unplant', 'client': planted[1], 'label': planted[0]})
        h.append({'op': 'list_snapshots', 'client': planted[1]})
    h.append({'op': 'restore', 'client': 0, 'target': None})
    if objects:
        # one repository's mirror uploaded into the OTHER repository (the cache directory may be shared by both)
        h += [{'op': 'mirror', 'client': 0, 'skip_existing': False}, {'op': 'upload_objects', 'client': 3, 'skip_existing': True, 'from': 0},
              {'op': 'list_objects', 'client': 3}]
    return h


# --------------------------------------------------------------------------- worker: the implementation side
def _install_clock():
    import datetime as _dt
    import replicat.repository as R

    class FakeDT(_dt.datetime):
        current = _dt.datetime(2024, 5, 1, 12, 0, 0)

        @classmethod
        def utcnow(cls):
            return cls.current
    R.datetime = FakeDT
    return FakeDT, _dt


class World:
    """one run of a history under one cache variant"""

    def __init__(self, base, variant, workdir, rng, clock, session_mode='fresh'):
        self.session = repolab.Session(session_mode) if session_mode != 'fresh' and variant != 'none' else None
        self.base, self.variant, self.rng = base, variant, rng
        self.dir = Path(workdir)
        self.FakeDT, self._dt = clock
        from replicat.backends.local import Local
        self.be = {0: MemBackend(dict(base['objects0']))}
        write_local(self.dir / 'repo1', base['objects1'])
        self.be[1] = Local(str(self.dir / 'repo1'))
        self.labels = {}        # snapshot name -> label
        self.paths = {}         # label -> (repo, path, bytes)
        self.creator = {}       # label -> client
        self.planted = {}       # label -> label of the snapshot whose bytes were planted (or None)
        self._readers = {}
        if variant == 'none':
            self.cache = {c: None for c in range(4)}
        elif variant == 'shared':
            self.cache = {c: self.dir / 'cache-all' for c in range(4)}
        else:
            self.cache = {c: self.dir / f'cache-{c}' for c in range(4)}
        self.read_or_repaired = 0

    def client(self, c):
        repo = 1 if c == 3 else 0
        u = self.base['users'][c]
        return repolab.Client(self.be[repo], password=u['password'].encode('latin1') if u['password'] else None,
                              key=u['key'].encode('latin1') if u['key'] else None, cache=self.cache[c], session=self.session)

    def objects(self, repo):
        return dict(self.be[0].objects) if repo == 0 else snapshot_local(self.dir / 'repo1')

    def canon_backend(self, repo):
        out = []
        for n in self.objects(repo):
            if n.startswith('snapshots/'):
                name = n.rpartition('-')[2]
                out.append('snapshot:' + str(self.labels.get(name, name)))
            else:
                out.append(n)
        return sorted(out)

    def canon_rows(self, stdout, sort):
        rows = []
        for line in stdout.splitlines():
            cells = [c.strip() for c in line.split('\t')]
            cells = [('S%s' % self.labels[c]) if c in self.labels else c for c in cells]
            rows.append(cells)
        if sort:
            return sorted(rows)
        # list-snapshots orders by timestamp; rows without one (other users' snapshots) tie and come out in
        # completion order, so only their multiset is an observable
        dated = [r for r in rows if len(r) < 3 or r[2] != '--']
        undated = sorted(r for r in rows if len(r) >= 3 and r[2] == '--')
        return dated + undated

    # ---- cache manipulation before a command
    def entries(self, c):
        d = self.cache[c]
        if d is None or not d.is_dir():
            return []
        return sorted(str(p.relative_to(d)) for p in d.rglob('*') if p.is_file())

    def corrupt(self, c):
        """returns the list of events [(path, kind, source label or None)] applied to the client's cache"""
        v = self.variant
        if v in ('none', 'sep', 'warm', 'shared'):
            return []
        d = self.cache[c]
        events = []
        ents = self.entries(c)
        for e in ents:
            f = d / e
            data = f.read_bytes()
            kind = v if v != 'mixed' else self.rng.choice(['missing', 'empty', 'one', 'half', 'minus1', 'other', 'garbage', 'keep'])
            src = None
            if kind == 'keep':
                continue
            if kind == 'missing':
                f.unlink()
            elif kind == 'empty':
                f.write_bytes(b'')
            elif kind == 'one':
                f.write_bytes(data[:1])
            elif kind == 'half':
                f.write_bytes(data[:len(data) // 2])
            elif kind == 'minus1':
                f.write_bytes(data[:-1])
            elif kind == 'garbage':
                f.write_bytes(bytes((b + 1) % 256 for b in data))
            elif kind == 'other':
                cands = [(l, p[2]) for l, p in sorted(self.paths.items()) if p[1] != e]
                if cands:
                    src, other = self.rng.choice(cands)
                    f.write_bytes(other)
                else:
                    f.write_bytes(data[::-1] + b'x')
            events.append([e, kind, src])
        return events

    def entry_states(self, c):
        d = self.cache[c]
        out = {}
        for l, (repo, path, data) in self.paths.items():
            if d is None:
                out[l] = 0
                continue
            f = d / path
            out[l] = 0 if not f.is_file() else (1 if f.read_bytes() == data else 2)
        return out

    # ---- objects written / removed behind replicat's back
    def reader(self, c):
        """(independent reader, key) of client c - only used to compute a well-formed location"""
        from harness import refreader
        if c not in self._readers:
            repo = 1 if c == 3 else 0
            rr = refreader.RefReader(self.base['objects1' if repo else 'objects0']['config'])
            u = self.base['users'][c]
            key = rr.open_key(u['key'].encode('latin1'), u['password'].encode('latin1')) if u['key'] else None
            self._readers[c] = (rr, key)
        return self._readers[c]

    def write_object(self, repo, name, data):
        if repo == 0:
            self.be[0].objects[name] = data
        else:
            f = self.dir / 'repo1' / name
            f.parent.mkdir(parents=True, exist_ok=True)
            f.write_bytes(data)

    def remove_object(self, repo, name):
        if repo == 0:
            self.be[0].objects.pop(name, None)
        else:
            (self.dir / 'repo1' / name).unlink(missing_ok=True)

    def canon_name(self, n):
        if n.startswith('snapshots/'):
            name = n.rpartition('-')[2]
            return 'snapshot:' + str(self.labels.get(name, name))
        return n

    def mirror_dir(self, repo):
        return self.dir / f'mirror-{repo}'

    def object_step(self, i, op, cl, repo, obs):
        kind = op['op']
        objs = self.objects(repo)
        if kind == 'mirror':
            o = cl.download_objects(self.mirror_dir(repo), skip_existing=op.get('skip_existing', False))
            got = repolab.read_tree(self.mirror_dir(repo)) if self.mirror_dir(repo).is_dir() else {}
            obs['files'] = {self.canon_name(n): ('same' if objs.get(n) == d else 'differs') for n, d in sorted(got.items())}
        elif kind == 'download_objects':
            dest = self.dir / f'dl-{i}'
            # (names differ from run to run: the file that is "already there" is the oldest snapshot's, by label)
            snaps = [p_[1] for l, p_ in sorted(self.paths.items()) if p_[0] == repo and p_[1] in objs]
            if op.get('skip_existing') and snaps:
                f = dest / snaps[0]
                f.parent.mkdir(parents=True, exist_ok=True)
                f.write_bytes(b'a file that is already there')
            o = cl.download_objects(dest, prefix='snapshots/', skip_existing=op.get('skip_existing', False))
            got = repolab.read_tree(dest) if dest.is_dir() else {}
            modes = repolab.tree_modes(dest) if dest.is_dir() else {}
            obs['files'] = {self.canon_name(n): ('same' if objs.get(n) == d else 'differs') + ' ' + modes.get(n, '') for n, d in sorted(got.items())}
            obs['modes'] = sorted(set(m for n, m in modes.items() if n not in got))       # directory modes (names are random)
            shutil.rmtree(dest, ignore_errors=True)
        elif kind == 'list_objects':
            o = cl.list_objects()
            obs['rows'] = sorted(self.canon_name(l.strip()) for l in o.stdout.splitlines() if l.strip())
        elif kind == 'delete_objects':
            paths = [self.paths[l][1] for l in op['labels'] if l in self.paths and self.paths[l][0] == repo]
            o = cl.delete_objects(paths)
        elif kind == 'upload_objects':
            src = self.mirror_dir(op.get('from', repo))
            tops = sorted(p.name for p in src.iterdir()) if src.is_dir() else []
            o = cl.upload_objects(src, tops, skip_existing=op.get('skip_existing', False)) if tops else repolab.Outcome('Ok')
            now = self.objects(repo)
            mirror = repolab.read_tree(src) if src.is_dir() else {}
            obs['files'] = {self.canon_name(n): ('stored' if now.get(n) == d else ('other' if n in now else 'absent')) for n, d in sorted(mirror.items())}
        return o

    def plant(self, i, c):
        repo = 1 if c == 3 else 0
        rr, key = self.reader(c)
        objs = self.objects(repo)
        live = [l for l, (r, p, d) in self.paths.items() if r == repo and p in objs and l not in self.planted]
        mine = [l for l in live if self.creator.get(l) == c]
        src = max(mine) if mine else (max(live) if live else None)
        if src is not None:
            data = objs[self.paths[src][1]]
        elif repo == 1:
            data = b'{"chunks":[],"data":{"utc_timestamp":"2024-05-01 11:00:00","files":[]}}'
        else:
            return None
        fake = rr.hash(b'planted object %d' % i)
        loc = rr.snapshot_path(key, fake)
        self.write_object(repo, loc, data)
        self.labels[fake.hex()] = i
        self.paths[i] = (repo, loc, data)
        self.planted[i] = src
        return src

    def selection(self, op):
        """--snapshot-regex <complete name> of the snapshot with that label (also when it has been deleted meanwhile)"""
        if op.get('select') is None:
            return {}
        return {'snapshot_regex': next((n for n, l in self.labels.items() if l == op['select']), 'd' * 16)}

    # ---- one step
    def step(self, i, op):
        c = op['client']
        repo = 1 if c == 3 else 0
        self.FakeDT.current = self._dt.datetime(2024, 5, 1, 12, 0, 0) + self._dt.timedelta(seconds=10 * i)
        events = self.corrupt(c)
        before = self.entry_states(c)
        cl = self.client(c)
        kind = op['op']
        obs = {'op': kind, 'client': c}
        planted_from = None
        if kind in ('plant', 'unplant'):
            if kind == 'plant':
                planted_from = self.plant(i, c)
            elif op['label'] in self.planted:
                self.remove_object(repo, self.paths[op['label']][1])
            o = repolab.Outcome('Ok')
        elif kind in ('mirror', 'download_objects', 'list_objects', 'delete_objects', 'upload_objects'):
            o = self.object_step(i, op, cl, repo, obs)
        elif kind == 'snapshot':
            o = cl.snapshot([self.base['trees'][op['tree']]], note=op['note'])
            if o.ok:
                self.labels[o.value.name] = i
                self.creator[i] = c
                self.paths[i] = (repo, o.value.location, self.objects(repo)[o.value.location])
        elif kind == 'list_snapshots':
            o = cl.list_snapshots(**self.selection(op))
            obs['rows'] = self.canon_rows(o.stdout, sort=False)
        elif kind == 'list_files':
            o = cl.list_files(**self.selection(op))
            obs['rows'] = self.canon_rows(o.stdout, sort=True)
        elif kind == 'restore':
            dest = self.dir / f'out-{i}'
            name = None
            if op['target'] is not None:
                name = next((n for n, l in self.labels.items() if l == op['target']), 'f' * 16)
            o = cl.restore(dest, snapshot_regex=name)
            tree = repolab.read_tree(dest) if dest.is_dir() else {}
            obs['tree'] = {p: hashlib.sha256(d).hexdigest() for p, d in sorted(tree.items())} if o.ok else None
            obs['modes'] = repolab.tree_modes(dest) if o.ok and dest.is_dir() else None
            shutil.rmtree(dest, ignore_errors=True)
        elif kind == 'delete':
            names = [next((n for n, l in self.labels.items() if l == lab), 'e' * 16) for lab in op['labels']]
            o = cl.delete_snapshots(names)
        elif kind == 'clean':
            o = cl.clean()
        else:
            raise ValueError(kind)
        obs['cls'] = o.cls
        obs['detail'] = o.detail[:160]
        obs['backend'] = self.canon_backend(repo)
        # a delete that is refused for its own reasons while a damaged object is listed can end in either error,
        # whichever loader finishes first: only "an error" is schedule independent then
        objs_now = self.objects(repo)
        obs['either_error'] = kind == 'delete' and any(self.paths[l][0] == repo and self.paths[l][1] in objs_now for l in self.planted)
        after = self.entry_states(c)
        # entries that were not the object before and are now (repaired), or were valid and present (served)
        self.read_or_repaired += sum(1 for l in after if after[l] == 1 and (before.get(l) != 1 or self.variant in ('sep', 'warm', 'shared')))
        extra = {'events': events, 'cache_after': {str(k): v for k, v in after.items()}, 'planted_from': planted_from,
                 'planted': kind == 'plant' and i in self.planted}
        return obs, extra


def make_base(rng, workdir):
    """the two repositories with their keys, and the file trees used by snapshot operations"""
    wd = Path(workdir)
    trees = []
    shared_block = rng.randbytes(300)
    for t in range(4):
        repolab.make_tree(rng, wd / 'trees' / f't{t}', rng.randint(1, 3), maxlen=500, shared_block=shared_block)
        trees.append(str(wd / 'trees' / f't{t}'))
    be0 = MemBackend()
    owner = repolab.Client(be0, password=b'owner-pw')
    assert owner.init(repolab.settings_for(('aes_gcm', None))).ok
    cheap = {'encryption': {'kdf': {'name': 'scrypt', 'n': 4}}}
    k2 = owner.add_key(b'shared-pw', shared=True, settings=cheap)
    k3 = owner.add_key(b'indep-pw', shared=False, settings=cheap)
    assert k2.ok and k3.ok, (k2.detail, k3.detail)
    write_local(wd / 'base1', {})
    from replicat.backends.local import Local
    plain = repolab.Client(Local(str(wd / 'base1')))
    assert plain.init(repolab.settings_for(None)).ok
    users = [{'password': 'owner-pw', 'key': owner.key.decode('latin1')},
             {'password': 'shared-pw', 'key': repolab.serialize_key(k2.value.new_key).decode('latin1')},
             {'password': 'indep-pw', 'key': repolab.serialize_key(k3.value.new_key).decode('latin1')},
             {'password': None, 'key': None}]
    return {'objects0': dict(be0.objects), 'objects1': snapshot_local(wd / 'base1'), 'users': users, 'trees': trees}


SESSION_MODES = ['fresh', 'one', 'per-user']


def session_mode(hid, variant, variants):
    """how the commands of a run get their Repository objects: a fresh object per command, ONE long-lived object per
    repository and cache directory that is re-unlocked with the credentials of whoever issues the command, or one long-lived
    object per user; rotates over histories and variants (the shared-directory variant starts with 'one')."""
    if variant == 'none':
        return 'fresh'
    idx = variants.index(variant) if variant in variants else 0
    if variant == 'shared':
        return ['one', 'per-user', 'fresh'][hid % 3]
    return SESSION_MODES[(hid + idx) % 3]


def worker_main():
    import random
    inp = json.load(sys.stdin)
    repolab.silence_backoff()
    clock = _install_clock()
    rng = random.Random(inp['seed'])
    wd = Path(inp['workdir'])
    base = make_base(rng, wd)
    out = {}
    for variant in ['none'] + inp['variants']:
        os.umask(0o022)         # every variant starts from the same process state
        mode = session_mode(inp.get('hid', 0), variant, inp['variants'])
        w = World(base, variant, wd / f'v-{variant}', random.Random(inp['seed'] * 7919 + len(variant) * 131 + sum(map(ord, variant))), clock, mode)
        steps = []
        for i, op in enumerate(inp['history']):
            if variant == 'warm' and i and i % 3 == 0:
                # keep every client's cache warm: an extra listing by every client (not an observation)
                for c in range(4):
                    w.client(c).list_snapshots()
            obs, extra = w.step(i, op)
            steps.append({'obs': obs, 'extra': extra})
        if w.session is not None:
            w.session.close()
        out[variant] = {'steps': steps, 'touched': w.read_or_repaired, 'session': mode,
                        'paths': {str(l): [p[0], p[1]] for l, p in w.paths.items()}}
        shutil.rmtree(wd / f'v-{variant}', ignore_errors=True)
    sys.stdout.write(json.dumps(out))
    sys.stdout.flush()
    os._exit(0)


# --------------------------------------------------------------------------- concurrent cache writers
class Rendezvous:
    """Schedule control for writers of the local cache: a thread that has just written a file into a cache
    sub-directory in which a second object is still to be cached waits (bounded) until another thread has written
    there too, so that concurrent cache writes into one directory overlap as much as they can."""

    def __init__(self, cache_root, crowded_dirs):
        import threading
        from collections import defaultdict
        self.root = str(cache_root)
        self.crowded = {str(Path(cache_root, d)) for d in crowded_dirs}
        self.cv = threading.Condition()
        self.arrived = defaultdict(set)
        self.ident = threading.get_ident

    def after_write(self, path):
        d = str(Path(path).parent)
        if d not in self.crowded:
            return
        with self.cv:
            self.arrived[d].add(self.ident())
            self.cv.notify_all()
            self.cv.wait_for(lambda: len(self.arrived[d]) >= 2, timeout=1.5)

    def before_mkdir(self, path):
        """two threads that are about to create the SAME crowded sub-directory do it at the same moment"""
        d = str(path)
        if d not in self.crowded:
            return
        with self.cv:
            self.making[d].add(self.ident())
            self.cv.notify_all()
            self.cv.wait_for(lambda: len(self.making[d]) >= 2, timeout=0.25)

    def __enter__(self):
        from collections import defaultdict
        orig, orig_mkdir = Path.write_bytes, Path.mkdir
        me = self
        self.making = defaultdict(set)

        def write_bytes(self, data):
            n = orig(self, data)
            if str(self).startswith(me.root):
                me.after_write(self)
            return n

        def mkdir(self, mode=0o777, parents=False, exist_ok=False):
            if str(self).startswith(me.root):
                me.before_mkdir(self)
            return orig_mkdir(self, mode=mode, parents=parents, exist_ok=exist_ok)
        self._orig, self._orig_mkdir = orig, orig_mkdir
        Path.write_bytes, Path.mkdir = write_bytes, mkdir
        return self

    def __exit__(self, *exc):
        Path.write_bytes, Path.mkdir = self._orig, self._orig_mkdir


class Gate:
    """Schedule control for two clients that share one cache directory: the first cache operation of the chosen kind
    in the chosen sub-directory stops ('before_write': a client has created the sub-directory and is about to write an
    entry; 'after_unlink': a client has just removed an entry) until the harness lets it continue."""

    def __init__(self, cache_root, subdir, point):
        import threading
        self.dir = str(Path(cache_root, subdir))
        self.point = point
        self.paused, self.resume = threading.Event(), threading.Event()
        self.lock = threading.Lock()
        self.fired = False

    def _stop(self):
        with self.lock:
            if self.fired:
                return
            self.fired = True
        self.paused.set()
        self.resume.wait(20)

    def __enter__(self):
        ow, ou, me = Path.write_bytes, Path.unlink, self

        def write_bytes(self, data):
            if me.point == 'before_write' and str(self.parent) == me.dir:
                me._stop()
            return ow(self, data)

        def unlink(self, missing_ok=False):
            r = ou(self, missing_ok=missing_ok)
            if me.point == 'after_unlink' and str(self.parent) == me.dir:
                me._stop()
            return r
        self._orig = (ow, ou)
        Path.write_bytes, Path.unlink = write_bytes, unlink
        return self

    def __exit__(self, *exc):
        Path.write_bytes, Path.unlink = self._orig


def duo_interleavings(wd, be_objects, deleter_kw, lister_kw, subdir, victim_loc, fresh_loc, canon):
    """Two clients on ONE cache directory.  The deleter has `victim_loc` (its own snapshot) cached in `subdir`; the lister is
    about to cache `fresh_loc`, which belongs to the same sub-directory.  Both forced orders are run; the lister's listing must
    equal the listing of a cache-less client taken on the same backend state, and so must a later listing."""
    import threading
    victim_name = victim_loc.rpartition('-')[2]
    results = []

    def listing(b, kw, cache, concurrent=1):
        o = repolab.Client(b, cache=cache, concurrent=concurrent, **kw).list_snapshots()
        return {'op': 'list_snapshots', 'cls': o.cls, 'detail': o.detail[:200], 'rows': canon(o.stdout)}

    for k, point in enumerate(('before_write', 'after_unlink')):
        b = MemBackend(dict(be_objects))
        cache = wd / f'duo-cache-{k}'
        shutil.rmtree(cache, ignore_errors=True)
        # the deleter's entries are cached; the fresh snapshot is not (it was added by the other client meanwhile)
        warm = listing(b, deleter_kw, cache, concurrent=4)
        checks, box = [('the first listing with the shared cache', listing(b, deleter_kw, None), warm)], {}
        if warm['cls'] != 'Ok':
            results.append({'order': point, 'paused': False, 'checks': checks})
            continue
        Path(cache, fresh_loc).unlink(missing_ok=True)
        gate = Gate(cache, subdir, point)
        with gate:
            if point == 'before_write':
                ref = listing(b, lister_kw, None)                   # cache-less client, same moment
                t = threading.Thread(target=lambda: box.update(got=listing(b, lister_kw, cache)))
                t.start()
                paused = gate.paused.wait(8)
                d = repolab.Client(b, cache=cache, concurrent=1, **deleter_kw).delete_snapshots([victim_name])
                gate.resume.set()
                t.join(30)
                checks.append(('the listing that was storing an entry while the other client deleted its snapshot', ref, box.get('got', {'cls': 'hung'})))
                checks.append(('the delete', {'cls': 'Ok'}, {'cls': d.cls, 'detail': d.detail[:200]}))
            else:
                t = threading.Thread(target=lambda: box.update(d=repolab.Client(b, cache=cache, concurrent=1, **deleter_kw).delete_snapshots([victim_name])))
                t.start()
                paused = gate.paused.wait(8)
                ref = listing(b, lister_kw, None)
                got = listing(b, lister_kw, cache)
                gate.resume.set()
                t.join(30)
                d = box.get('d')
                checks.append(('the listing run while the other client was between removing a cache entry and finishing its delete', ref, got))
                checks.append(('the delete', {'cls': 'Ok'}, {'cls': d.cls if d else 'hung', 'detail': d.detail[:200] if d else ''}))
        checks.append(('a later listing', listing(b, lister_kw, None), listing(b, lister_kw, cache)))
        results.append({'order': point, 'paused': bool(paused), 'checks': checks})
    return results


def crowd_main(inp):
    """Many snapshots, so that some of them share a cache sub-directory (snapshots/<first tag byte>/); every command is
    run by the cache-less client and by a client whose cache is cold, with 4 loader threads under the Rendezvous."""
    import posixpath
    import random
    repolab.silence_backoff()
    FakeDT, _dt = _install_clock()
    rng = random.Random(inp['seed'])
    wd = Path(inp['workdir'])
    tree = wd / 'tree'
    repolab.make_tree(rng, tree, 2, maxlen=200)
    be = MemBackend()
    encrypted = inp['kind'] == 'encrypted'
    pw = b'crowd-pw' if encrypted else None
    maker = repolab.Client(be, password=pw)
    assert maker.init(repolab.settings_for(('aes_gcm', None) if encrypted else None, hashing={'name': 'blake2b', 'length': 32})).ok
    t0 = _dt.datetime(2024, 5, 1, 12, 0, 0)
    dirs, labels, n = {}, {}, 0
    while n < inp['cap']:
        FakeDT.current = t0 + _dt.timedelta(seconds=n)
        o = maker.snapshot([tree], note=f'crowd-{n}')
        assert o.ok, o.detail
        labels[o.value.name] = n
        dirs.setdefault(posixpath.dirname(o.value.location), []).append(o.value.location)
        n += 1
        if n >= inp['least'] and any(len(v) >= 2 for v in dirs.values()):
            break
    crowded = sorted(d for d, v in dirs.items() if len(v) >= 2)
    base = dict(be.objects)
    target = sorted(labels, key=labels.get)[-1]
    commands = [('list_snapshots', None), ('restore', None), ('list_files', None), ('restore', target), ('delete', target), ('clean', None),
                ('list_snapshots', None)]

    def canon(text):
        rows = []
        for line in text.splitlines():
            cells = [c.strip() for c in line.split('\t')]
            rows.append([('S%s' % labels[c]) if c in labels else c for c in cells])
        return rows

    out = {'n': n, 'crowded': crowded}
    for variant in ('none', 'cold'):
        b = MemBackend(dict(base))
        out.setdefault('umask', {})[variant] = oct(os.umask(0o022))      # every variant starts from the same process state
        cache = wd / f'cache-{variant}'
        steps = []
        for i, (cmd, arg) in enumerate(commands):
            FakeDT.current = t0 + _dt.timedelta(seconds=1000 + i)
            if variant == 'cold':
                shutil.rmtree(cache, ignore_errors=True)        # cold before every command
            cl = repolab.Client(b, password=pw, key=maker.key, cache=cache if variant == 'cold' else None, concurrent=4)
            obs = {'op': cmd}
            with Rendezvous(cache, crowded):
                if cmd == 'list_snapshots':
                    o = cl.list_snapshots()
                    obs['rows'] = canon(o.stdout)
                elif cmd == 'list_files':
                    o = cl.list_files()
                    obs['rows'] = sorted(canon(o.stdout))
                elif cmd == 'restore':
                    dest = wd / f'out-{variant}-{i}'
                    o = cl.restore(dest, snapshot_regex=arg)
                    tr = repolab.read_tree(dest) if dest.is_dir() else {}
                    obs['tree'] = {p_: hashlib.sha256(d).hexdigest() for p_, d in sorted(tr.items())} if o.ok else None
                    obs['modes'] = repolab.tree_modes(dest) if o.ok and dest.is_dir() else None
                    shutil.rmtree(dest, ignore_errors=True)
                elif cmd == 'delete':
                    o = cl.delete_snapshots([arg])
                else:
                    o = cl.clean()
            obs['cls'] = o.cls
            obs['detail'] = o.detail[:200]
            obs['backend'] = sorted(('snapshot:%s' % labels.get(x.rpartition('-')[2], '?')) if x.startswith('snapshots/') else x for x in b.objects)
            steps.append(obs)
        out[variant] = steps
    # ---- two clients on one cache directory, forced orders
    b = MemBackend(dict(base))
    owner_kw = {'password': pw, 'key': maker.key}
    subdir = victim = fresh = None
    if encrypted:
        # the other client holds an INDEPENDENT key (the README declares destructive commands safe next to those)
        cheap = {'encryption': {'kdf': {'name': 'scrypt', 'n': 4}}}
        k2 = repolab.Client(b, **owner_kw).add_key(b'crowd-indep', shared=False, settings=cheap)
        assert k2.ok, k2.detail
        lister_kw = {'password': b'crowd-indep', 'key': repolab.serialize_key(k2.value.new_key)}
        single = {d: v[0] for d, v in dirs.items() if len(v) == 1}
        other = repolab.Client(b, **lister_kw)
        for j in range(inp['cap']):
            FakeDT.current = t0 + _dt.timedelta(seconds=5000 + j)
            o = other.snapshot([tree], note=f'indep-{j}')
            assert o.ok, o.detail
            labels[o.value.name] = n + j
            d = posixpath.dirname(o.value.location)
            if d in single:
                subdir, victim, fresh = d, single[d], o.value.location
                break
    else:
        lister_kw = owner_kw
        if crowded:
            subdir = crowded[0]
            victim, fresh = sorted(dirs[subdir])[:2]
    if subdir is not None:
        try:
            out['duo'] = {'subdir': subdir, 'runs': duo_interleavings(wd, dict(b.objects), owner_kw, lister_kw, subdir, victim, fresh, canon)}
        except Exception as e:  # noqa: BLE001 - reported by the parent, the crowded-directory results are kept
            out['duo_error'] = f'{type(e).__name__}: {e}'[:300]
    sys.stdout.write(json.dumps(out))
    sys.stdout.flush()
    os._exit(0)


def run_crowds(ctx, rep, specs):
    """specs: [(kind, seed)]"""
    def one(spec):
        kind, seed = spec
        wd = ctx.scratch / f'crowd-{kind}-{seed}'
        wd.mkdir(parents=True, exist_ok=True)
        rc, out, err = core.run_impl(['-m', 'harness.c18', 'crowd'], {'seed': seed, 'kind': kind, 'workdir': str(wd), 'cap': 400, 'least': 12}, timeout=900)
        shutil.rmtree(wd, ignore_errors=True)
        if rc != 0 or not out.strip():
            return {'error': f'worker rc={rc}: {err[-600:]}'}
        return json.loads(out)
    with ThreadPoolExecutor(max_workers=4) as ex:
        results = list(ex.map(one, specs))
    for (kind, seed), r in zip(specs, results):
        replay = {'crowd': {'kind': kind, 'seed': seed}}
        if 'error' in r:
            rep.disagreements.append({'what': 'the crowded-directory scenario could not be run on the implementation: ' + r['error'], 'replay': replay})
            continue
        rep.case(('crowd', kind, seed), nontrivial=bool(r['crowded']))
        rep.count('variant:cold-crowded')
        rep.count('crowd:snapshots', r['n'])
        if r.get('duo_error'):
            rep.disagreements.append({'what': 'the two-clients scenario could not be run on the implementation: ' + r['duo_error'], 'replay': replay})
        for run_ in (r.get('duo') or {}).get('runs', []):
            rep.case(('duo', kind, seed, run_['order']), nontrivial=run_['paused'])
            rep.count('variant:shared-concurrent/' + run_['order'])
            for what, ref, got in run_['checks']:
                key = diff_obs(ref, got)
                if key:
                    rep.violations.append({
                        'what': f'{kind} repository, two clients on one cache directory, sub-directory {r["duo"]["subdir"]}, order "{run_["order"]}": {what} differs '
                                f'from the cache-less client in {key}: {json.dumps(got.get(key))[:120]} ({got.get("detail", "")[:140]}) vs {json.dumps(ref.get(key))[:120]}',
                        'signature': {'variant': 'shared-concurrent', 'op': run_['order'], 'differs': key}, 'replay': replay})
                    break
        for i, (a, b) in enumerate(zip(r['none'], r['cold'])):
            key = diff_obs(a, b)
            if key == 'modes' and isinstance(a.get(key), dict) and isinstance(b.get(key), dict):
                ks = [k_ for k_ in sorted(set(a[key]) | set(b[key])) if a[key].get(k_) != b[key].get(k_)][:3]
                a, b = dict(a, modes={k_[-24:]: a[key].get(k_) for k_ in ks}), dict(b, modes={k_[-24:]: b[key].get(k_) for k_ in ks})
            if key:
                rep.violations.append({
                    'what': f'{kind} repository with {r["n"]} snapshots, {len(r["crowded"])} cache sub-directories holding two or more ({r["crowded"][:2]}): '
                            f'with a cold cache and 4 loader threads {a["op"]} (command {i}) differs from the cache-less run in {key}: '
                            f'{json.dumps(b.get(key))[:120]} ({b.get("detail", "")[:120]}) vs {json.dumps(a.get(key))[:120]}',
                    'signature': {'variant': 'cold-crowded', 'op': a['op'], 'differs': key}, 'replay': replay})
                break


# --------------------------------------------------------------------------- model side
KR = {0: '(Some {| k_shared := Bytes 1; k_salt := Bytes 2; k_mac := Bytes 3; k_user := Kdf (Bytes 4) (Bytes 5) |})',
      1: '(Some {| k_shared := Bytes 1; k_salt := Bytes 2; k_mac := Bytes 3; k_user := Kdf (Bytes 14) (Bytes 15) |})',
      2: '(Some {| k_shared := Bytes 21; k_salt := Bytes 22; k_mac := Bytes 23; k_user := Kdf (Bytes 24) (Bytes 25) |})'}


def model_text(history, run, variant):
    """repository 0 only (the second repository's entries live under paths repository 0 never lists)"""
    lines = ['From Coq Require Import List NArith Bool.', 'From Replicat Require Import Model.Crypto Model.Objects Model.Cache.',
             'Import ListNotations.', 'Local Open Scope N_scope.', 'Set Printing Depth 1000000.']
    for u, t in KR.items():
        lines.append(f'Definition KR{u} : mode := {t}.')
    created = [(i, op) for i, op in enumerate(history) if op['client'] != 3 and
               (op['op'] == 'snapshot' or (op['op'] == 'plant' and run['steps'][i]['extra'].get('planted_from') is not None))]
    for i, op in created:
        if op['op'] == 'plant':
            # another snapshot's bytes under a well-formed name they do not hash to (tag valid for the planting client's family)
            lines.append(f'Definition SN{i} : term := SN{run["steps"][i]["extra"]["planted_from"]}.')
            lines.append(f'Definition P{i} : loc := snapshot_loc KR{op["client"]} (Garbage {5000 + i}).')
            continue
        lines.append(f'Definition SN{i} : term := encrypt_body KR{op["client"]} {2 * i} {2 * i + 1} (tlist []) (enc_data (Bytes {1000 + i}) []).')
        lines.append(f'Definition P{i} : loc := snapshot_loc KR{op["client"]} (Hash SN{i}).')
    label_by_path = {v[1]: int(l) for l, v in run['paths'].items() if v[0] == 0}
    ops = []
    garbage = 9000
    steps_idx = []
    for i, (op, st) in enumerate(zip(history, run['steps'])):
        c = op['client']
        if variant == 'warm' and i and i % 3 == 0:
            for wc in range(3):         # the warm-keeping listings of the worker (not observations)
                ops.append(f'((Some {wc}%nat, KR{wc}), OLoad None)')
                steps_idx.append(None)
        if c == 3:
            continue
        slot = 'None' if variant == 'none' else ('Some 0%nat' if variant == 'shared' else f'Some {c}%nat')
        who = f'({slot}, KR{c})'
        for path, kind, src in st['extra']['events']:
            if path not in label_by_path:
                continue            # an entry of the other repository (shared directory): never listed here
            garbage += 1
            lab = label_by_path[path]
            if kind == 'missing':
                e = 'None'
            elif kind == 'other' and src is not None and run['paths'][str(src)][0] == 0:
                e = f'Some SN{src}'
            else:
                e = f'Some (Garbage {garbage})'
            ops.append(f'({who}, OCacheSet P{lab} ({e}))')
            steps_idx.append(None)
        k = op['op']
        if k == 'snapshot':
            o = f'OPut P{i} SN{i}' if st['obs']['cls'] == 'Ok' else 'OLoad (Some [])'
        elif k in ('mirror', 'download_objects', 'list_objects'):
            o = 'OLoad (Some [])'
        elif k == 'delete_objects':
            for l in op['labels']:
                if any(j == l for j, _ in created):
                    if variant != 'none':
                        ops.append(f'({who}, OCacheSet P{l} None)')       # delete-objects also drops the acting client's entry
                        steps_idx.append(None)
                    ops.append(f'({who}, ORemove P{l})')
                    steps_idx.append(None)
            o = 'OLoad (Some [])'
        elif k == 'upload_objects':
            # whatever snapshot objects of this repository the upload brought back (read off this run's own backend sets)
            before = set(run['steps'][i - 1]['obs']['backend']) if i else set()
            for j, cop in created:
                if f'snapshot:{j}' in st['obs']['backend'] and f'snapshot:{j}' not in before and cop['op'] == 'snapshot' and 'from' not in op:
                    ops.append(f'({who}, OPut P{j} SN{j})')
                    steps_idx.append(None)
            o = 'OLoad (Some [])'
        elif k == 'plant':
            o = f'OPut P{i} SN{i}' if st['extra'].get('planted_from') is not None else 'OLoad (Some [])'
        elif k == 'unplant':
            o = f'ORemove P{op["label"]}' if any(j == op['label'] for j, _ in created) else 'OLoad (Some [])'
        elif k in ('list_snapshots', 'list_files') and op.get('select') is not None:
            sl = op['select']
            o = f'OLoad (Some [Hash SN{sl}])' if any(j == sl for j, _ in created) else 'OLoad (Some [])'
        elif k in ('list_snapshots', 'list_files', 'clean'):
            o = 'OLoad None'
        elif k == 'restore':
            o = 'OLoad None' if op['target'] is None else (f'OLoad (Some [Hash SN{op["target"]}])' if str(op['target']) in run['paths'] and
                                                           run['paths'][str(op['target'])][0] == 0 else 'OLoad (Some [])')
        elif k == 'delete':
            o = 'ODelete [' + '; '.join(f'Hash SN{l}' if str(l) in run['paths'] and run['paths'][str(l)][0] == 0 else f'Garbage {7000 + l}'
                                          for l in op['labels']) + ']'
        ops.append(f'({who}, {o})')
        steps_idx.append(i)
    watch = '[' + '; '.join(f'P{i}' for i, _ in created) + ']'
    lines.append('Definition h : list (option nat * mode * op) := [\n  ' + ';\n  '.join(ops) + '\n].')
    lines.append(f'Definition watch : list loc := {watch}.')
    lines.append('Eval vm_compute in map (fun x => (fst x, match snd x with Some c => map (entry_state c) watch | None => [] end)) '
                 '(fst (fst (run_ops true [[]; []; []] [] h))).')
    return '\n'.join(lines) + '\n', steps_idx, [i for i, _ in created]


def compare_with_model(rep, hid, history, run, variant, vals):
    text, steps_idx, created = vals['meta']
    model = vals['model']
    # a command that ended in an error leaves loader threads behind which may still re-cache (verified) objects at
    # any later time; from then on the entry states of that cache directory are not schedule independent
    unsettled = set()
    for entry, i in zip(model, steps_idx):
        if i is None:
            continue
        code, loaded, states = entry
        st = run['steps'][i]
        obs, op = st['obs'], history[i]
        rep.traces_validated += 1
        what = None
        if obs.get('either_error') and obs['cls'] != 'Ok' and code != 0:
            pass
        elif CODE.get(obs['cls'], 4) != code:
            what = f'outcome class: model {code}, implementation {obs["cls"]} ({obs["detail"]})'
        elif op['op'] == 'list_snapshots' and obs['cls'] == 'Ok':
            impl_rows = sorted((r[0], r[2] != '--') for r in obs['rows'][1:]) if obs['rows'] else []
            name_of = {}
            mod_rows = []
            for t, readable in loaded:
                # t = Hash SN<k> printed in full; identify k through the info atom 1000+k
                mod_rows.append((_label_of_term(t), bool(readable)))
            if impl_rows != sorted((f'S{l}', r) for l, r in mod_rows):
                what = f'visible snapshots: model {sorted(mod_rows)}, implementation {impl_rows}'
        slot = 0 if variant == 'shared' else op['client']
        if obs['cls'] != 'Ok':
            unsettled.add(slot)
        if variant == 'warm' and op['op'] == 'plant':
            unsettled |= {0, 1, 2}          # the warm-keeping listings (not steps) fail from here on, for every client
        if what is None and obs['cls'] == 'Ok' and variant != 'none' and slot not in unsettled:
            impl_states = [st['extra']['cache_after'].get(str(l), 0) for l in created]
            # labels not yet created are absent in both; entries of snapshots that no longer exist are inert
            # (never looked at), so their state is not an observable
            live = [f'snapshot:{l}' in obs['backend'] for l in created]
            states = [x for x, keep in zip(states, live) if keep]
            impl_states = [x for x, keep in zip(impl_states, live) if keep]
            if list(states) != impl_states:
                what = f'cache entries after the step: model {list(states)}, implementation {impl_states} (snapshots {created})'
        if what:
            rep.disagreements.append({'what': f'[{variant}] step {i} {op["op"]} by {USERS[op["client"]]}: {what}',
                                      'replay': {'history_id': hid, 'history': history, 'variant': variant, 'step': i}})
            return


def _label_of_term(t):
    """find the info atom Bytes (1000+k) inside the printed term of Hash SN<k>"""
    best = None
    stack = [t]
    while stack:
        x = stack.pop()
        if isinstance(x, tuple):
            if x[0] == 'Bytes' and isinstance(x[1], int) and 1000 <= x[1] < 2000:
                best = x[1] - 1000
            stack.extend(a for a in x[1:] if isinstance(a, tuple))
    return best


# --------------------------------------------------------------------------- comparison with the cache-less run
def diff_obs(a, b):
    if a.get('files') != b.get('files'):
        return 'files'
    if a.get('modes') != b.get('modes'):
        return 'modes'
    if (a.get('either_error') or b.get('either_error')) and a.get('cls') != 'Ok' and b.get('cls') != 'Ok':
        a, b = dict(a, cls='error'), dict(b, cls='error')
    for key in ('cls', 'rows', 'tree', 'backend'):
        if a.get(key) != b.get(key):
            return key
    return None


def check_history(rep: Report, hid, history, result, variants, with_model=True):
    ref = result['none']
    jobs = {}
    for v in ['none'] + variants:
        run = result[v]
        if v != 'none':
            rep.case((hid, v), nontrivial=run['touched'] > 0)
            rep.count('variant:' + v)
            rep.count('objects:' + run.get('session', 'fresh'))
            for i, (sa, sb) in enumerate(zip(ref['steps'], run['steps'])):
                key = diff_obs(sa['obs'], sb['obs'])
                if key:
                    op = history[i]
                    got_, ref_ = sb['obs'].get(key), sa['obs'].get(key)
                    if key in ('files', 'modes') and isinstance(got_, dict) and isinstance(ref_, dict):
                        keys_ = [k_ for k_ in sorted(set(got_) | set(ref_)) if got_.get(k_) != ref_.get(k_)][:3]
                        got_, ref_ = {k_[-24:]: got_.get(k_, 'not written') for k_ in keys_}, {k_[-24:]: ref_.get(k_, 'not written') for k_ in keys_}
                    rep.violations.append({
                        'what': f'with cache variant "{v}" ({run.get("session", "fresh")} Repository object{"" if run.get("session", "fresh") == "fresh" else ", long-lived"}) '
                                f'step {i} ({op["op"]}{" --skip-existing" if op.get("skip_existing") else ""} by {USERS[op["client"]]}) '
                                f'differs from the cache-less run in {key}: {json.dumps(got_)[:150]} vs {json.dumps(ref_)[:150]}',
                        'signature': {'variant': v, 'op': op['op'], 'differs': key},
                        'replay': {'history_id': hid, 'history': history, 'variant': v, 'step': i}})
                    break
        if with_model:
            jobs[v] = model_text(history, run, v)
    for st in ref['steps']:
        rep.count('op:' + st['obs']['op'])
        rep.count('outcome:' + st['obs']['cls'])
    rep.sample({'history': [{k: v for k, v in op.items()} for op in history][:8], 'variants': variants,
                'reference_outcomes': [s['obs']['cls'] for s in ref['steps']]}, limit=2)
    return jobs


def run_histories(ctx, rep, histories, variants, with_model=True):
    def one(args):
        hid, seed, history = args
        wd = ctx.scratch / f'h{hid}'
        wd.mkdir(parents=True, exist_ok=True)
        rc, out, err = core.run_impl(['-m', 'harness.c18', 'worker'],
                                     {'seed': seed, 'hid': hid, 'history': history, 'variants': variants, 'workdir': str(wd)}, timeout=1500)
        shutil.rmtree(wd, ignore_errors=True)
        if rc != 0 or not out.strip():
            return {'error': f'worker rc={rc}: {err[-600:]}'}
        return json.loads(out)
    with ThreadPoolExecutor(max_workers=8) as ex:
        results = list(ex.map(one, histories))
    coq_jobs, meta = [], {}
    for (hid, seed, history), result in zip(histories, results):
        if 'error' in result:
            rep.disagreements.append({'what': 'the history could not be run on the implementation: ' + result['error'],
                                      'replay': {'history_id': hid, 'history': history}})
            continue
        jobs = check_history(rep, hid, history, result, variants, with_model)
        for v, (text, steps_idx, created) in jobs.items():
            name = f'c18_{hid}_{v}'
            coq_jobs.append((name, text))
            meta[name] = (hid, history, result[v], v, (text, steps_idx, created))
    if with_model and coq_jobs:
        res = core.coq_eval_files(coq_jobs)
        for name, _ in coq_jobs:
            rc, text = res[name]
            hid, history, run, v, m = meta[name]
            if rc != 0:
                rep.disagreements.append({'what': 'the model could not be evaluated: ' + text[-800:], 'replay': {'history_id': hid, 'variant': v}})
                continue
            vals = core.parse_coq_values(text)
            model = core.parse_coq_term(vals[-1]) if vals else []
            compare_with_model(rep, hid, history, run, v, {'meta': m, 'model': model})


def run(ctx) -> Report:
    rep = Report(rule=RULE)
    n = ctx.scale(8, 60)
    histories = []
    for hid in range(n):
        seed = ctx.rng.randrange(1 << 30)
        histories.append((hid, seed, gen_history(ctx.rng, ctx.rng.randint(8, 14), plant=hid % 2 == 0, objects=hid % 2 == 1)))
    run_histories(ctx, rep, histories, VARIANTS_QUICK)
    run_crowds(ctx, rep, [(kind, ctx.rng.randrange(1 << 30)) for kind in ('plain', 'encrypted') for _ in range(ctx.scale(1, 4))])
    return rep


def search(ctx, broken) -> Report:
    rep = Report(rule=RULE)
    histories = []
    for b in broken:
        c = b.get('case')
        if isinstance(c, dict) and 'history' in c:
            histories.append((1000 + len(histories), ctx.rng.randrange(1 << 30), c['history']))
    for hid in range(40):
        histories.append((hid, ctx.rng.randrange(1 << 30), gen_history(ctx.rng, ctx.rng.randint(8, 16), plant=hid % 2 == 0, objects=hid % 2 == 1)))
    run_histories(ctx, rep, histories, VARIANTS_QUICK, with_model=False)
    run_crowds(ctx, rep, [(kind, ctx.rng.randrange(1 << 30)) for kind in ('plain', 'encrypted') for _ in range(4)])
    return rep


def replay(ctx, obj):
    r = obj.get('replay') or {}
    if 'crowd' in r:
        rep = Report(rule=RULE)
        run_crowds(ctx, rep, [(r['crowd']['kind'], r['crowd']['seed'])])
        for v in rep.violations:
            print('VIOLATION-REPRODUCED', v['what'])
        return 1 if rep.violations or rep.disagreements else 0
    if 'history' not in r:
        print('replay file does not carry a history:', obj.get('kind'))
        for b in obj.get('broken', []):
            print(' broken:', b.get('what'))
        return 0
    rep = Report(rule=RULE)
    variants = [r['variant']] if r.get('variant') not in (None, 'none') else VARIANTS_QUICK
    for k in range(3):      # the base repositories are regenerated: try a few seeds
        run_histories(ctx, rep, [(k, ctx.rng.randrange(1 << 30), r['history'])], variants)
    for v in rep.violations:
        print('VIOLATION-REPRODUCED', v['what'])
    for d in rep.disagreements:
        print('DISAGREEMENT-REPRODUCED', d['what'])
    return 1 if rep.violations or rep.disagreements else 0


if __name__ == '__main__':
    if sys.argv[1:] == ['worker']:
        worker_main()
    elif sys.argv[1:] == ['crowd']:
        crowd_main(json.load(sys.stdin))
