"""Process-level deployment scenarios shared by the repository-level properties (C01 C02 C03 C04 C06 C07 C08).

Everything here goes through the tool exactly as a user runs it: `python -m replicat <command> ...` in a FRESH interpreter per
command (harness/cli_child.py), against a repository in a real directory (the Local backend, utils.fs, the command-line layer,
the module entry point and its exit status are all on the path).  Faults are real: SIGKILL of the process at the k-th
rename / unlink / temp-file creation inside the repository, or one OSError out of the k-th directory scan.

Ground truth never comes from replicat: what a snapshot must contain is read from the source tree by an independent walker, and
what the repository holds is read from the directory and decoded by harness/refreader.py (written from the README).

run_scenarios(ctx, rep, kinds, n, mine) runs n scenarios per kind in parallel and appends the violations whose kind is in `mine`."""
from __future__ import annotations

import json
import os
import random
import shutil
import subprocess
import sys
from concurrent.futures import ThreadPoolExecutor
from pathlib import Path

from harness.refreader import RefReader

FAST_KDF = ['--encryption.kdf.name', 'scrypt', '--encryption.kdf.n', '4', '--encryption.kdf.r', '1', '--encryption.kdf.p', '1']


def expected_files(args):
    """which files a list of path arguments denotes (README: directories are walked, symlinks followed), de-duplicated"""
    out = {}
    for a in args:
        p = Path(os.path.realpath(a))
        if p.is_dir():
            for root, _, files in os.walk(p, followlinks=True):
                for f in files:
                    q = os.path.join(root, f)
                    if os.path.isfile(q):
                        out.setdefault(q, None)
        elif p.is_file():
            out.setdefault(str(p), None)
    return list(out)


class Result:
    def __init__(self, rc, out, err):
        self.rc, self.out, self.err = rc, out, err
        self.killed = rc == -9

    @property
    def ok(self):
        return self.rc == 0


class Deployment:
    def __init__(self, wd: Path, concurrent, cache):
        self.wd = wd
        self.repo = wd / 'repo'
        self.keys = wd / 'keys'
        self.keys.mkdir(parents=True)
        self.concurrent = concurrent
        self.cache = cache
        self.ncmd = 0
        self.log = []

    def run(self, action, *extra, user=None, inject=None, timeout=int(os.environ.get("VERIF_CLI_TIMEOUT", "180"))):
        # interpreter flags a user may run the tool with: -O removes assert statements (nothing may rely on them)
        argv = [sys.executable] + list(getattr(self, 'pyflags', [])) + ['-m', 'harness.cli_child', action, '--ignore-config', '-q', '-c', str(self.concurrent), '-r', str(self.repo)]
        argv += ['--cache-directory', str(self.cache)] if self.cache else ['--no-cache']
        if user is not None and user.get('keyfile'):
            argv += ['-p', user['pw'], '-K', str(user['keyfile'])]
        argv += [str(x) for x in extra]
        env = {k: v for k, v in os.environ.items() if not k.startswith('REPLICAT_')}
        env['HOME'] = str(self.wd / 'home')
        env.pop('VERIF_INJECT', None)
        env['VERIF_NATIVE_GUARD'] = '1'       # (recompiled native chunker only) memory behind a buffer is different in every process
        if inject:
            env['VERIF_INJECT'] = json.dumps(inject)
            env['VERIF_INJECT_ROOT'] = str(self.repo)
        self.ncmd += 1
        import time as _t
        t0 = _t.time()
        try:
            p = subprocess.run(argv, cwd=str(self.wd), env=env, stdout=subprocess.PIPE, stderr=subprocess.PIPE, timeout=timeout)
            res = Result(p.returncode, p.stdout.decode('utf-8', 'replace'), p.stderr.decode('utf-8', 'replace'))
        except subprocess.TimeoutExpired as e:
            res = Result(-100, '', 'timeout: ' + str(e))
        self.log.append([action, [str(x) for x in extra][:6], user['name'] if user else None, inject, res.rc, round(_t.time() - t0, 2)])
        return res

    # -- the directory as an object map, read without replicat
    def disk(self, root=None):
        """name -> (size, inode); temporaries (names ending .tmp) are returned separately"""
        root = str(root or self.repo)
        objs, temps = {}, []
        if not os.path.isdir(root):
            return objs, temps
        for d, _, files in os.walk(root, followlinks=True):
            for f in files:
                p = os.path.join(d, f)
                name = os.path.relpath(p, root).replace(os.sep, '/')
                if f.endswith('.tmp'):
                    temps.append(name)
                    continue
                st = os.stat(p)
                objs[name] = (st.st_size, st.st_ino)
        return objs, temps

    def read(self, name, root=None):
        return Path(root or self.repo, name).read_bytes()


class Scenario:
    """One deployment, several users, a random history of commands of the given kind."""

    def __init__(self, seed, wd: Path, kind, nops):
        self.seed, self.wd, self.kind, self.nops = seed, wd, kind, nops
        self.rng = random.Random(seed)
        self.viol = []
        self.descr = []
        self.encrypted = self.rng.random() < 0.75
        self.dep = Deployment(wd, self.rng.choice([1, 2, 4]), (wd / 'cache') if self.rng.random() < 0.45 else None)
        self.dep.pyflags = ['-O'] if self.rng.random() < 0.35 else []
        self.users = []
        self.snaps = {}            # name -> dict(owner, fam, uid, files, table, chunk_paths, path)
        self.orphans = {}          # chunk path -> (fam, digest) expected leftovers of killed snapshots
        self.pool = [self.rng.randbytes(self.rng.choice([40, 90, 130, 200])) for _ in range(8)]
        self.nsrc = 0
        self.rr = None
        self.relocated = False
        self.dirty = False         # a killed / failed command may have left garbage: exactness only after the next completed clean

    # ------------------------------------------------------------------ reporting
    def v(self, kind, what, detail=None):
        self.viol.append({'what': what, 'signature': {'kind': kind, 'via': 'cli'},
                          'replay': {'cli_seed': self.seed, 'cli_kind': self.kind, 'nops': self.nops, 'commands': self.dep.log[-12:], 'detail': detail}})

    class Stop(Exception):
        pass

    def must(self, res: Result, what):
        if res.rc == -100:
            self.v('hang', f'{what}: `replicat` did not end within the time limit')
            raise Scenario.Stop()
        if not res.ok:
            self.v('exception', f'{what}: `replicat` exited with status {res.rc}: {res.err.strip().splitlines()[-1][:160] if res.err.strip() else ""}')
            raise Scenario.Stop()
        return res

    # ------------------------------------------------------------------ setup
    def setup(self):
        rng, dep = self.rng, self.dep
        mn, mx = rng.choice([(16, 64), (8, 32), (32, 96), (12, 61), (8, 35)])
        flags = ['--chunking.min-length', mn, '--chunking.max-length', mx, '--hashing.length', 32]
        if self.encrypted:
            pw = 'pw0' if rng.random() < 0.7 else 'L' * 70 + 'pw0'
            u0 = {'name': 'u0', 'pw': pw, 'keyfile': dep.keys / 'u0.key', 'fam': 0, 'uid': 0, 'how': 'init'}
            self.must(dep.run('init', '-p', pw, '-o', u0['keyfile'], *flags, *FAST_KDF,
                              '--encryption.cipher.name', rng.choice(['aes_gcm', 'chacha20_poly1305'])), 'init')
        else:
            u0 = {'name': 'u0', 'pw': None, 'keyfile': None, 'fam': 0, 'uid': 0, 'how': 'init'}
            self.must(dep.run('init', '--encryption', 'none', *flags), 'init')
        self.users.append(u0)
        self.config0 = dep.read('config')
        self.rr = RefReader(self.config0)
        (dep.repo / 'other').mkdir()
        # objects that are not the tool's: outside the chunk and snapshot areas, some with names that look like its own temporaries
        self.outside = {'other/keep': b'foreign', 'other/state.tmp': b'somebody else\'s file', 'notes.tmp': b'kept by the admin'}
        for nm_, data_ in self.outside.items():
            (dep.repo / nm_).write_bytes(data_)
        nfam = 1
        for i in range(1, rng.choice([2, 3, 3])):
            if not self.encrypted:
                self.users.append({'name': f'u{i}', 'pw': None, 'keyfile': None, 'fam': 0, 'uid': 0, 'how': 'unencrypted'})
                continue
            # every kind of key relationship shows up: the kinds rotate with the scenario's position in the run
            how = ['clone', 'shared', 'independent'][(getattr(self, 'rotation', rng.randrange(3)) + i) % 3]
            kf = dep.keys / f'u{i}.key'
            if how == 'independent':
                pw = f'pw{i}'
                self.must(dep.run('add-key', '-n', pw, '-o', kf, *FAST_KDF), 'add-key')
                self.users.append({'name': f'u{i}', 'pw': pw, 'keyfile': kf, 'fam': nfam, 'uid': i, 'how': how})
                nfam += 1
            else:
                src = rng.choice(self.users)
                if how == 'clone':
                    pw = src['pw']
                    self.must(dep.run('add-key', '--clone', '-o', kf, *FAST_KDF, user=src), 'add-key --clone')
                else:
                    pw = f'pw{i}'
                    self.must(dep.run('add-key', '--shared', '-n', pw, '-o', kf, *FAST_KDF, user=src), 'add-key --shared')
                self.users.append({'name': f'u{i}', 'pw': pw, 'keyfile': kf, 'fam': src['fam'], 'uid': i, 'how': how, 'src': src['name']})
        if self.encrypted:
            for u in self.users:
                try:
                    u['rkey'] = self.rr.open_key(u['keyfile'].read_bytes(), u['pw'].encode())
                except Exception as e:
                    self.v('key_unusable', f'the key file written by {"init" if u["how"] == "init" else "add-key (" + u["how"] + ")"} does not open with its password '
                                            f'when read as the README describes: {type(e).__name__}: {str(e)[:80]}')
                    raise Scenario.Stop()
            secrets = lambda k: (k.shared_key, k.shared_salt, k.mac_key, k.chunker_key)
            for u in self.users[1:]:
                if u['how'] in ('shared', 'clone'):
                    src = next(x for x in self.users if x['name'] == u['src'])
                    if secrets(u['rkey']) != secrets(src['rkey']):
                        self.v('shared_secrets_differ', f'add-key --{u["how"]} produced a key whose shared secrets (chunking, naming, chunk encryption) '
                                                        'differ from the key it was made from: data of one is not reused by the other')
                else:
                    if any(secrets(u['rkey'])[j] == secrets(o['rkey'])[j] for o in self.users if o is not u and o['fam'] != u['fam'] for j in range(4)):
                        self.v('independent_secrets_equal', 'an independent key shares a secret with another key family')
        else:
            for u in self.users:
                u['rkey'] = None
        self.descr.append(['setup', 'encrypted' if self.encrypted else 'plain', [(u['name'], u['how'], u['fam']) for u in self.users],
                           'c=%d' % dep.concurrent, 'cache' if dep.cache else 'no-cache', 'python ' + ' '.join(dep.pyflags) if dep.pyflags else 'python'])

    # ------------------------------------------------------------------ helpers
    def make_files(self, user, big=False):
        """-> (argument list, {recorded path: bytes})"""
        rng = self.rng
        d = self.wd / 'src' / f's{self.nsrc}'
        self.nsrc += 1
        d.mkdir(parents=True)
        args = []

        def content():
            if rng.random() < 0.12:
                return b''
            c = b''.join(rng.choice(self.pool) for _ in range(rng.choice([1, 2, 3, 5])))
            return c[:rng.randint(1, len(c))] if rng.random() < 0.3 else c
        shape = rng.random()
        if big:
            # many chunks: more than the pipeline between chunking and uploading holds
            (d / 'big.bin').write_bytes(b''.join(rng.choice(self.pool) for _ in range(45)) + rng.randbytes(700))
            (d / 'small').write_bytes(content())
            args = [d]
        elif shape < 0.45:
            for j in range(rng.choice([1, 2, 3])):
                (d / f'f{j}').write_bytes(content())
            if rng.random() < 0.5:
                # names that are not ASCII / not even valid UTF-8 (a Latin-1 byte, a lone continuation byte)
                for raw in rng.sample([b'caf\xe9.txt', 'na\u00efve \u6f22\u5b57.bin'.encode(), b'track-\xed\xb2\x80.dat', b'x\x80y',
                                       'de\u0301compose\u0301.txt'.encode(), '\u212b.dat'.encode()], 2):
                    Path(os.fsdecode(os.fsencode(str(d)) + b'/' + raw)).write_bytes(content())
            if rng.random() < 0.5:
                # names that mean something to the tool's own storage layer (temporary suffix, area names): in a SOURCE tree they are files
                for nm in rng.sample(['.tmp', 'swap.tmp', 'a.tmp.txt', 'config', 'data', 'snapshots'], 3):
                    (d / nm).write_bytes(content())
            if rng.random() < 0.4:
                (d / 'sub' / 'deep').mkdir(parents=True)
                (d / 'sub' / 'deep' / 'g').write_bytes(content())
                (d / 'sub' / 'blob.bin').write_bytes(rng.randbytes(150))
                (d / 'sub' / 'deep' / 'blob.bin').write_bytes(rng.randbytes(150))
            args = [d]
        elif shape < 0.75:
            # several arguments whose spellings are prefixes of one another, a file among them, a repeated and an overlapping argument
            (d / 'docs').mkdir()
            (d / 'docs' / 'a.txt').write_bytes(content())
            (d / 'docs' / 'inner').mkdir()
            (d / 'docs' / 'inner' / 'b.txt').write_bytes(content())
            (d / 'docs-old').mkdir()
            (d / 'docs-old' / 'a.txt').write_bytes(content())
            (d / 'docs2').mkdir()
            (d / 'docs2' / 'c').write_bytes(content())
            (d / 'docs.tar').write_bytes(content())
            args = [d / 'docs', d / 'docs-old', d / 'docs.tar', d / 'docs2']
            if rng.random() < 0.5:
                args.append(d / 'docs' / 'inner')
            if rng.random() < 0.5:
                rng.shuffle(args)
        else:
            for j in range(rng.choice([2, 3])):
                (d / f'f{j}').write_bytes(content())
            args = sorted(d.iterdir())
            rng.shuffle(args)
        files = {p: Path(p).read_bytes() for p in expected_files(args)}
        return args, files

    def key_of_fam(self, fam):
        return next(u['rkey'] for u in self.users if u['fam'] == fam)

    def fam_of_object(self, name):
        """which key family a chunk object belongs to (its tag verifies under that family's MAC key); None = nobody's"""
        if not self.encrypted:
            return 0
        try:
            nm, tag = RefReader.parse_chunk_path(name)
            raw = bytes.fromhex(nm)
        except Exception:
            return None
        for fam in sorted({u['fam'] for u in self.users}):
            if self.rr.mac(self.key_of_fam(fam), raw).hex() == tag:
                return fam
        return None

    def present(self, objs):
        return {n: s for n, s in self.snaps.items() if s['path'] in objs}

    def referenced(self, objs, fam=None):
        out = set()
        for s in self.present(objs).values():
            if fam is None or s['fam'] == fam:
                out |= set(s['chunk_paths'])
        return out

    def record_snapshot(self, user, files, before, after, note=None):
        new = [n for n in after if n.startswith('snapshots/') and n not in before]
        if len(new) != 1:
            self.v('snapshot_objects', f'a completed snapshot command created {len(new)} snapshot object(s)')
            raise Scenario.Stop()
        path = new[0]
        data = self.dep.read(path)
        try:
            body = self.rr.read_snapshot(user['rkey'], data)
        except Exception as e:
            self.v('snapshot_unreadable', f'the snapshot object just written cannot be read as the README describes: {type(e).__name__}: {str(e)[:100]}')
            raise Scenario.Stop()
        name = RefReader.parse_snapshot_path(path)[0]
        if self.rr.hash(data).hex() != name:
            self.v('snapshot_name', 'the name of the snapshot object is not the hash of its contents')
        table = list(body['chunks'])
        cps = {d: self.rr.chunk_path(user['rkey'], d) for d in table}
        self.snaps[name] = {'owner': user['name'], 'fam': user['fam'], 'uid': user['uid'], 'files': files, 'table': table,
                            'chunk_paths': set(cps.values()), 'cps': cps, 'path': path, 'body': body, 'note': note}
        return name

    def check_stored(self, name, objs, kinds=('recorded', 'stored')):
        """the snapshot records exactly the files the arguments denote, and the bytes stored for them are the files' bytes
        (independent restore from the directory, no replicat involved)"""
        s = self.snaps[name]
        body = s['body']
        if body['data'] is None:
            self.v('snapshot_unreadable', 'the private part of the snapshot does not open with the key of the user who made it')
            return
        rec = [f['path'] for f in body['data']['files']]
        if sorted(rec) != sorted(s['files']):
            missing = sorted(set(s['files']) - set(rec))[:3]
            extra = sorted(set(rec) - set(s['files']))[:3]
            self.v('recorded_files', f'the snapshot records {len(rec)} file(s), the arguments denote {len(s["files"])}: missing {missing}, unexpected or repeated {extra}')
            return
        gone = [p for p in s['chunk_paths'] if p not in objs]
        if gone:
            self.v('referenced_chunk_missing', f'{len(gone)} chunk(s) referenced by the snapshot just taken are not in the repository')
            return
        try:
            got = self.rr.restore_files(user_key(self, s), {p: self.dep.read(p) for p in s['chunk_paths']}, body)
        except Exception as e:
            self.v('stored_bytes', f'the chunks stored for the snapshot do not decode: {type(e).__name__}: {str(e)[:100]}')
            return
        bad = [p for p, c in s['files'].items() if got.get(p) != c]
        if bad:
            self.v('stored_bytes', f'the bytes stored for {len(bad)} file(s) differ from the files (e.g. {bad[0]}: {len(got.get(bad[0]) or b"")} bytes stored, {len(s["files"][bad[0]])} in the file)')

    def cli_restore_check(self, name, objs):
        s = self.snaps[name]
        user = next(u for u in self.users if u['name'] == s['owner'])
        out = self.wd / f'out{self.dep.ncmd}'
        out.mkdir()
        res = self.dep.run('restore', '-S', '^' + name + '$', out, user=user)
        try:
            if not res.ok:
                self.v('restore_mismatch', f'restore of a listed snapshot failed (exit status {res.rc}): {res.err.strip().splitlines()[-1][:140] if res.err.strip() else ""}',
                       {'snapshot': name[:8]})
                return
            want = {str(Path(out, *Path(p).parts[1:])): c for p, c in s['files'].items()}
            got = {}
            for d, _, fs in os.walk(out):
                for f in fs:
                    got[os.path.join(d, f)] = Path(d, f).read_bytes()
            if got != want:
                self.v('restore_mismatch', f'restore wrote {len(got)} file(s), the snapshot holds {len(want)}; '
                                           f'{sum(1 for p in want if got.get(p) != want[p])} missing or different, {len(set(got) - set(want))} unexpected', {'snapshot': name[:8]})
            elif want and self.rng.random() < 0.6:
                # repair: an earlier restore was damaged in place (same size, same timestamps): restoring again must put the bytes back
                victims = self.rng.sample(sorted(want), min(len(want), 2))
                for p in victims:
                    st = os.stat(p)
                    data = bytearray(Path(p).read_bytes())
                    if not data:
                        continue
                    for i in range(0, len(data), max(1, len(data) // 7)):
                        data[i] ^= 0x5A
                    Path(p).write_bytes(bytes(data))
                    os.utime(p, ns=(st.st_atime_ns, st.st_mtime_ns))
                res2 = self.dep.run('restore', '-S', '^' + name + '$', out, user=user)
                got2 = {}
                for d, _, fs in os.walk(out):
                    for f in fs:
                        got2[os.path.join(d, f)] = Path(d, f).read_bytes()
                if not res2.ok or got2 != want:
                    self.v('restore_mismatch', f'restore over an earlier restore whose files were damaged in place (same size and timestamps) '
                                               f'{"exits with status " + str(res2.rc) if not res2.ok else "leaves " + str(sum(1 for q in want if got2.get(q) != want[q])) + " file(s) with the damaged bytes"}',
                           {'snapshot': name[:8]})
        finally:
            shutil.rmtree(out, ignore_errors=True)

    def frame_check(self, what, user, before, after, allowed_gone):
        """objects of other families, config and foreign objects untouched"""
        if self.dep.read('config') != self.config0 or not self.outside_ok():
            self.v('config_touched', f'{what} modified config or an object outside the chunk/snapshot areas')
        for n, meta in before.items():
            if n in allowed_gone:
                continue
            if n.startswith('data/') and self.fam_of_object(n) == user['fam']:
                continue
            if n.startswith('snapshots/') and any(s['path'] == n and s['fam'] == user['fam'] for s in self.snaps.values()):
                continue
            if n not in after:
                self.v('gc_overreach', f'{what} by family {user["fam"]} removed {n[:40]}, which belongs to another family or to nobody')
                return

    def exact_check(self, what, user, after):
        fam = user['fam']
        mine = {n for n in after if n.startswith('data/') and self.fam_of_object(n) == fam}
        ref = self.referenced(after, fam)
        if mine - ref:
            self.v('gc_incomplete', f'{what} reported success but left {len(mine - ref)} unreferenced chunk(s) of the caller\'s family')
        if ref - mine:
            self.v('referenced_chunk_missing', f'after {what} {len(ref - mine)} chunk(s) referenced by a still listed snapshot are gone')

    def restorable_check(self, what, after):
        for n, s in self.present(after).items():
            gone = [p for p in s['chunk_paths'] if p not in after]
            if gone:
                self.v('referenced_chunk_missing', f'after {what} a listed snapshot misses {len(gone)} of its chunks', {'snapshot': n[:8]})
                return False
        return True

    def outside_ok(self):
        for nm_, data_ in getattr(self, 'outside', {}).items():
            try:
                if (self.dep.repo / nm_).read_bytes() != data_:
                    return False
            except OSError:
                return False
        return True

    def whole_check(self, what, after, temps):
        """C03: every object that is visible is whole"""
        known = dict(self.orphans)
        for s in self.snaps.values():
            for d, p in s['cps'].items():
                known[p] = (s['fam'], d)
        for n in after:
            if n.startswith('data/'):
                if n not in known:
                    self.v('unknown_object', f'after {what} an object is visible that no command should have written: {n[:50]}')
                    continue
                fam, d = known[n]
                if self.rr.read_chunk(self.key_of_fam(fam) if self.encrypted else None, self.dep.read(n), d) is None:
                    self.v('partial_object', f'after {what} a chunk object is visible under its final name but its contents are not the chunk '
                                             f'({after[n][0]} bytes): every snapshot that reuses it is unrestorable')
            elif n.startswith('snapshots/'):
                nm = RefReader.parse_snapshot_path(n)[0]
                if self.rr.hash(self.dep.read(n)).hex() != nm:
                    self.v('partial_object', f'after {what} a snapshot object is visible whose contents do not hash to its name')

    # ------------------------------------------------------------------ operations
    def op_snapshot(self, user, args, files, repeat_of=None, inject=None, what='snapshot', slow=False):
        before, _ = self.dep.disk()
        note = 'n%d' % self.dep.ncmd if self.rng.random() < 0.3 else None
        res = self.dep.run('snapshot', *args, *(['-n', note] if note else []), user=user, inject=inject)
        after, temps = self.dep.disk()
        if inject and not res.ok and not slow:
            return res, before, after, temps
        self.must(res, what)
        name = self.record_snapshot(user, files, before, after, note)
        self.descr.append([what, user['name'], name[:8], len(args)])
        self.check_stored(name, after)
        s = self.snaps[name]
        new_data = {n for n in after if n.startswith('data/') and n not in before}
        want_new = s['chunk_paths'] - set(before)
        if new_data != want_new:
            self.v('upload_set', f'snapshot created {len(new_data)} chunk object(s), {len(want_new)} were missing ({len(new_data - want_new)} not referenced by it)')
        rewritten = [n for n in s['chunk_paths'] if n in before and n in after and before[n][1] != after[n][1]]
        if rewritten:
            self.v('repeat_uploaded_payload', f'snapshot wrote {len(rewritten)} chunk object(s) again that were already stored')
        if len(set(s['table'])) != len(s['table']):
            self.v('table_dup', 'snapshot chunk table lists a digest twice')
        if not self.dirty:
            data = {n for n in after if n.startswith('data/')}
            ref = self.referenced(after)
            if data != ref:
                self.v('not_exact', f'chunk objects differ from the chunks referenced by the snapshots: {len(data - ref)} unreferenced, {len(ref - data)} missing (crash-free history)')
        self.frame_check(what, user, before, after, set())
        return res, before, after, temps

    def op_delete(self, user, names, inject=None):
        before, _ = self.dep.disk()
        res = self.dep.run('delete', '--yes', *names, user=user, inject=inject)
        after, temps = self.dep.disk()
        if inject and not res.ok:
            return res, before, after, temps
        self.must(res, 'delete of own snapshots')
        self.descr.append(['delete', user['name'], [n[:8] for n in names]])
        left = [n for n in names if self.snaps[n]['path'] in after]
        if left:
            self.v('gc_incomplete', 'delete left a named snapshot object in place')
        ref = self.referenced(after)
        only = set().union(*(self.snaps[n]['chunk_paths'] for n in names)) - ref
        if only & set(after):
            self.v('gc_incomplete', f'delete left {len(only & set(after))} chunk(s) that only the deleted snapshots referenced')
        self.restorable_check('delete', after)
        self.frame_check('delete', user, before, after, {self.snaps[n]['path'] for n in names} | only)
        return res, before, after, temps

    def op_clean(self, user, inject=None):
        before, _ = self.dep.disk()
        res = self.dep.run('clean', user=user, inject=inject)
        after, temps = self.dep.disk()
        if inject and not res.ok:
            return res, before, after, temps
        self.must(res, 'clean')
        self.descr.append(['clean', user['name']])
        self.exact_check('clean', user, after)
        self.restorable_check('clean', after)
        self.frame_check('clean', user, before, after, set())
        if len({u['fam'] for u in self.users}) == 1:
            self.dirty = False
            self.orphans = {p: v for p, v in self.orphans.items() if p in after}
        return res, before, after, temps

    def op_delete_foreign(self, user, victim):
        before, _ = self.dep.disk()
        res = self.dep.run('delete', '--yes', victim, user=user)
        after, _ = self.dep.disk()
        self.descr.append(['delete-foreign', user['name'], victim[:8], res.rc])
        if res.ok:
            self.v('delete_foreign_succeeded', "delete of another user's snapshot was accepted (exit status 0)",
                   {'caller': user['name'], 'owner': self.snaps[victim]['owner']})
        if set(after) != set(before):
            self.v('refused_delete_mutated', 'a refused delete changed the repository')

    def op_observe(self, user):
        objs, _ = self.dep.disk()
        present = self.present(objs)
        fam_visible = {n for n, s in present.items() if s['fam'] == user['fam']}
        self.descr.append(['observe', user['name']])
        for cols in (None, 'name', 'name,note', 'name,timestamp,file_count', 'timestamp,name'):
            res = self.must(self.dep.run('ls', '--no-header', *(['--columns', cols] if cols else []), user=user), 'list-snapshots')
            names_col = 1 if cols == 'timestamp,name' else 0
            rows = [ln.split('\t') for ln in res.out.splitlines() if ln.strip() and not ln.startswith('\x1b')]
            seen = {}
            for row in rows:
                if len(row) > names_col and len(row[names_col].strip()) >= 32:
                    seen[row[names_col].strip()] = [c.strip() for c in row]
            if set(seen) - fam_visible:
                self.v('visibility', f'list-snapshots{" --columns " + cols if cols else ""} shows {len(seen)} snapshot(s), the caller\'s key family has {len(fam_visible)}',
                       {'caller': user['name'], 'extra': sorted(set(seen) - fam_visible)[:2]})
            if fam_visible - set(seen):
                self.v('snapshot_not_listed', f'list-snapshots{" --columns " + cols if cols else ""} does not show {len(fam_visible - set(seen))} snapshot(s) of the caller\'s '
                                              'key family whose objects are in the repository', {'caller': user['name'], 'missing': sorted(fam_visible - set(seen))[:2]})
            if cols is None:
                for n, row in seen.items():
                    if n in present and len(row) >= 3:
                        readable = row[2] != '--'
                        own = present[n]['uid'] == user['uid']
                        if readable != own:
                            self.v('details', 'snapshot details (note, time, files) are %s to a user who %s its key' %
                                   ('shown' if readable else 'hidden', 'does not hold' if not own else 'holds'))
        res = self.must(self.dep.run('lf', '--no-header', '--columns', 'snapshot_name,path', user=user), 'list-files')
        listed = {ln.split('\t')[0].strip() for ln in res.out.splitlines() if '\t' in ln}
        if any(n in present and present[n]['uid'] != user['uid'] for n in listed):
            self.v('file_list_foreign', 'list-files shows files of a snapshot made under another key', {'caller': user['name']})
        others = [n for n, s in present.items() if s['uid'] != user['uid']]
        if others:
            victim = self.rng.choice(others)
            out = self.wd / f'steal{self.dep.ncmd}'
            out.mkdir()
            res = self.dep.run('restore', '-S', '^' + victim + '$', out, user=user)
            got = [p for p in out.rglob('*') if p.is_file()]
            if got:
                self.v('restore_foreign', "restore wrote files of another user's snapshot", {'caller': user['name'], 'owner': present[victim]['owner']})
            elif not res.ok:
                self.v('restore_foreign_crash', f"restore naming another user's snapshot (nothing to restore for the caller) exited with status {res.rc}")
            shutil.rmtree(out, ignore_errors=True)

    def op_relocate(self):
        """some first-level shard directories live on another disk and are linked back"""
        disk2 = self.wd / 'disk2'
        moved = 0
        for area in ('data', 'snapshots'):
            base = self.dep.repo / area
            if not base.is_dir():
                continue
            for shard in sorted(base.iterdir()):
                if shard.is_dir() and not shard.is_symlink() and self.rng.random() < 0.6:
                    target = disk2 / area / shard.name
                    target.parent.mkdir(parents=True, exist_ok=True)
                    shutil.move(str(shard), str(target))
                    os.symlink(target, shard, target_is_directory=True)
                    moved += 1
        self.relocated = moved > 0
        self.descr.append(['relocate-shards', moved])

    def op_damage_cache(self):
        """an earlier run was interrupted while it wrote a cache entry: the entry is empty / a proper prefix / has a flipped byte.
        Everything afterwards must behave exactly as with a sound cache (the oracles of the following commands do not know)"""
        files = [p for p in Path(self.dep.cache).rglob('*') if p.is_file()] if self.dep.cache and Path(self.dep.cache).exists() else []
        if not files:
            # warm the cache first
            u = self.rng.choice(self.users)
            self.must(self.dep.run('ls', '--no-header', user=u), 'list-snapshots')
            files = [p for p in Path(self.dep.cache).rglob('*') if p.is_file()] if Path(self.dep.cache).exists() else []
        hit = 0
        for p in self.rng.sample(files, min(len(files), self.rng.choice([1, 1, 2, 3]))):
            data = p.read_bytes()
            how = self.rng.choice(['empty', 'prefix', 'prefix', 'flip'])
            if how == 'empty' or not data:
                p.write_bytes(b'')
            elif how == 'prefix':
                p.write_bytes(data[:self.rng.randrange(1, len(data))] if len(data) > 1 else b'')
            else:
                i = self.rng.randrange(len(data))
                p.write_bytes(data[:i] + bytes([data[i] ^ 0x01]) + data[i + 1:])
            hit += 1
        self.descr.append(['damage-cache', hit])

    # -- faulted commands
    def dry_table(self, user, args):
        """chunk paths the snapshot of these arguments will reference: taken from a completed run in a copy of the repository"""
        copy = self.wd / 'dry'
        shutil.rmtree(copy, ignore_errors=True)
        shutil.copytree(self.dep.repo, copy, symlinks=False)
        dep2 = Deployment.__new__(Deployment)
        dep2.__dict__.update(self.dep.__dict__)
        dep2.repo, dep2.cache, dep2.log = copy, None, []
        before, _ = dep2.disk()
        res = dep2.run('snapshot', *args, user=user)
        out = {}
        if res.ok:
            after, _ = dep2.disk()
            for n in after:
                if n.startswith('snapshots/') and n not in before:
                    body = self.rr.read_snapshot(user['rkey'], dep2.read(n))
                    out = {self.rr.chunk_path(user['rkey'], d): (user['fam'], d) for d in body['chunks']}
        shutil.rmtree(copy, ignore_errors=True)
        return out

    def op_faulted(self):
        rng = self.rng
        objs, _ = self.dep.disk()
        user = rng.choice(self.users)
        own = [n for n, s in self.present(objs).items() if s['owner'] == user['name']]
        victim = rng.choice(['snapshot', 'delete', 'clean']) if own else 'snapshot'
        if self.kind == 'kill' or (self.kind == 'oserror' and rng.random() < 0.3):
            if self.kind == 'oserror':
                victim = 'snapshot'          # leaves garbage for the cleans that follow
            fn = rng.choice(['replace', 'replace', 'unlink', 'tempfile'] if victim == 'snapshot' else ['unlink', 'unlink', 'scandir', 'replace'])
            inject = [{'fn': fn, 'k': rng.randint(0, 7), 'when': rng.choice(['before', 'after']), 'action': 'kill'}]
        elif victim == 'snapshot' or rng.random() < 0.35:
            # ONE transient I/O error while an object is created (temp-file creation or the final rename): the backend retries it;
            # the command must either mask it completely or fail - never publish a damaged object
            victim = 'snapshot'
            inject = [{'fn': rng.choice(['replace', 'replace', 'tempfile']), 'k': rng.randint(0, 5), 'when': 'before', 'action': rng.choice(['EIO', 'EMFILE', 'ENOSPC'])}]
        elif rng.random() < 0.35:
            # ONE refused removal (EACCES / EPERM / EROFS on one object): retried by the backend, or the command fails
            inject = [{'fn': 'unlink', 'k': rng.randint(0, 4), 'when': 'before', 'action': rng.choice(['EACCES', 'EPERM', 'EROFS'])}]
        else:
            inject = [{'fn': 'scandir', 'k': rng.randint(0, 9), 'when': 'before', 'action': rng.choice(['EACCES', 'EACCES', 'EIO', 'EMFILE'])}]
        what = f'{victim} with {inject[0]["action"]} at {inject[0]["fn"]} #{inject[0]["k"]} ({inject[0]["when"]})'
        if victim == 'snapshot':
            args, files = self.make_files(user)
            self.orphans.update(self.dry_table(user, args))
            res, before, after, temps = self.op_snapshot(user, args, files, inject=inject, what='snapshot')
        elif victim == 'delete':
            names = rng.sample(own, 1)
            res, before, after, temps = self.op_delete(user, names, inject=inject)
        else:
            res, before, after, temps = self.op_clean(user, inject=inject)
        if res.ok:
            return                   # the fault point was never reached: an ordinary completed command, already checked
        self.descr.append(['faulted', what, 'killed' if res.killed else f'exit {res.rc}'])
        self.dirty = True
        # ---- C03: the repository is consistent and usable
        self.whole_check(what, after, temps)
        self.restorable_check(what, after)
        if self.dep.read('config') != self.config0 or not self.outside_ok():
            self.v('config_touched', f'{what} modified config or an object outside the chunk/snapshot areas')
        # a new, unknown snapshot object can only be the one of the interrupted snapshot: it must then be complete
        for n in after:
            if n.startswith('snapshots/') and not any(s['path'] == n for s in self.snaps.values()):
                if victim == 'snapshot':
                    try:
                        self.record_snapshot(user, files, before, after)
                        self.restorable_check(what + ' (its snapshot object is visible)', after)
                    except Scenario.Stop:
                        pass
                else:
                    self.v('unknown_object', f'after {what} a snapshot object is visible that no command should have written')
        # frame: other families untouched even by a failing command
        for n in before:
            if n not in after and n.startswith('data/') and self.fam_of_object(n) not in (user['fam'],):
                self.v('gc_overreach', f'{what} by family {user["fam"]} removed a chunk of another family')
                break
        # the tool keeps working: listing by the same user
        self.must(self.dep.run('ls', '--no-header', user=user), f'list-snapshots after {what}')

    # ------------------------------------------------------------------ the history
    def run(self):
        try:
            self.setup()
            self.history()
        except Scenario.Stop:
            pass
        except Exception as e:                                   # harness error: surfaces as a disagreement, never silently
            import traceback
            self.viol.append({'what': 'harness error in a CLI scenario: ' + traceback.format_exc()[-600:], 'signature': {'kind': '_harness'},
                              'replay': {'cli_seed': self.seed, 'cli_kind': self.kind}})
        return self

    def history(self):
        rng = self.rng
        weights = {'snapshot': 5, 'repeat': 2, 'delete': 3, 'delete_foreign': 1, 'clean': 2, 'observe': 1.5, 'relocate': 1.2}
        if self.dep.cache:
            weights['damage_cache'] = 2
        if self.kind == 'kill':
            weights['faulted'] = 4
        if self.kind == 'oserror':
            weights['faulted'] = 7
        kinds, ws = zip(*weights.items())
        for _ in range(self.nops):
            kind = rng.choices(kinds, ws)[0]
            objs, _ = self.dep.disk()
            present = self.present(objs)
            user = rng.choice(self.users)
            own = [n for n, s in present.items() if s['owner'] == user['name']]
            others = [n for n, s in present.items() if s['uid'] != user['uid']]
            if kind == 'delete' and not own:
                kind = 'snapshot'
            if kind == 'delete_foreign' and (not others or not self.encrypted):
                kind = 'snapshot'
            if kind == 'repeat' and not present:
                kind = 'snapshot'
            if kind == 'relocate' and (self.relocated or not present):
                kind = 'observe'
            if kind == 'snapshot':
                slow = rng.random() < 0.25
                args, files = self.make_files(user, big=slow)
                # a slow backend: object creation takes longer than chunking, the queue between them stays full
                self.op_snapshot(user, args, files, inject=[{'fn': 'slow_io', 'seconds': 0.04}] if slow else None, slow=slow)
            elif kind == 'repeat':
                prev = rng.choice(list(present.values()))
                mate = rng.choice([u for u in self.users if u['fam'] == prev['fam']])
                args = [Path(p) for p in prev['files']]
                rng.shuffle(args)
                if not args:
                    continue
                files = {p: Path(p).read_bytes() for p in expected_files(args)}
                all_there = prev['chunk_paths'] <= set(objs)
                res, before, after, _ = self.op_snapshot(mate, args, files, what='repeat')
                if all_there and files == prev['files'] and {n for n in after if n.startswith('data/')} != {n for n in before if n.startswith('data/')}:
                    self.v('repeat_uploaded_payload', 'snapshot of unchanged data by a user of the same key family stored new chunk objects')
            elif kind == 'delete':
                self.op_delete(user, rng.sample(own, rng.randint(1, min(2, len(own)))))
            elif kind == 'delete_foreign':
                self.op_delete_foreign(user, rng.choice(others))
            elif kind == 'clean':
                self.op_clean(user)
            elif kind == 'observe':
                self.op_observe(user)
            elif kind == 'relocate':
                self.op_relocate()
            elif kind == 'damage_cache':
                self.op_damage_cache()
            elif kind == 'faulted':
                self.op_faulted()
        # final: every listed snapshot restores through the tool
        objs, _ = self.dep.disk()
        for n in list(self.present(objs))[:6]:
            self.cli_restore_check(n, objs)
        if self.kind == 'corrupt':
            self.corruptions(objs)

    # ------------------------------------------------------------------ C04 at process level
    def corruptions(self, objs):
        rng = self.rng
        present = [n for n, s in self.present(objs).items() if s['chunk_paths']]
        # one case always, when the history allows it: another snapshot object of the same user replayed under this snapshot's name
        forced = None
        for n_ in present:
            same_ = [x for x in self.snaps.values() if x['owner'] == self.snaps[n_]['owner'] and x['path'] != self.snaps[n_]['path']
                     and x['path'] in objs and x['files'] != self.snaps[n_]['files']]
            if same_:
                forced = (n_, same_[0]['path'])
                break
        for round_ in range(6):
            if not present:
                return
            name = rng.choice(present)
            if round_ == 0 and forced:
                name = forced[0]
            s = self.snaps[name]
            user = next(u for u in self.users if u['name'] == s['owner'])
            target = s['path'] if (rng.random() < 0.35 or (round_ == 0 and forced)) else rng.choice(sorted(s['chunk_paths']))
            p = Path(os.path.realpath(self.dep.repo / target))
            orig = p.read_bytes()
            how = rng.choice(['flip', 'truncate', 'extend', 'swap', 'remove', 'empty'])
            if how == 'remove' and target == s['path']:
                how = 'flip'
            other = [q for q in objs if q.startswith(target.split('/')[0] + '/') and q != target]
            if target == s['path']:
                # prefer another snapshot object of the same user (decrypts under the same key: only the name check stands in the way)
                same = [x['path'] for x in self.snaps.values() if x['owner'] == s['owner'] and x['path'] != target and x['path'] in objs]
                other = same or other
                if how in ('flip', 'truncate', 'extend', 'empty') and same and rng.random() < 0.5:
                    how = 'swap'
                if round_ == 0 and forced:
                    how, other = 'swap', [forced[1]]
            if how == 'flip' and orig:
                i = rng.randrange(len(orig))
                p.write_bytes(orig[:i] + bytes([orig[i] ^ (1 << rng.randrange(8))]) + orig[i + 1:])
            elif how == 'truncate' and orig:
                p.write_bytes(orig[:rng.randrange(len(orig))])
            elif how == 'extend':
                p.write_bytes(orig + rng.randbytes(rng.choice([1, 16])))
            elif how == 'swap' and other:
                p.write_bytes(self.dep.read(rng.choice(other)))
            elif how == 'remove':
                p.unlink()
            else:
                p.write_bytes(b'')
            changed = (not p.exists()) or p.read_bytes() != orig
            out = self.wd / f'cor{self.dep.ncmd}'
            out.mkdir()
            res = self.dep.run('restore', '-S', '^' + name + '$', out, user=user)
            want = {str(Path(out, *Path(q).parts[1:])): c for q, c in s['files'].items()}
            got = {}
            for d, _, fs in os.walk(out):
                for f in fs:
                    got[os.path.join(d, f)] = Path(d, f).read_bytes()
            self.descr.append(['corrupt', how, target.split('/')[0], res.rc])
            if changed and res.ok and got != want:
                self.v('silent_corruption', f'restore exited with status 0 after a {"chunk" if target.startswith("data/") else "snapshot"} object was damaged ({how}) '
                                            f'although {sum(1 for q in want if got.get(q) != want[q])} of {len(want)} file(s) are missing or wrong',
                       {'how': how, 'target': target[:30]})
            shutil.rmtree(out, ignore_errors=True)
            p.parent.mkdir(parents=True, exist_ok=True)
            p.write_bytes(orig)


def user_key(sc: Scenario, s):
    return next(u['rkey'] for u in sc.users if u['name'] == s['owner'])


def large_object_corruption(wd: Path, rng):
    """C04 with objects larger than any internal block size: damage far inside a multi-megabyte chunk / a large snapshot object"""
    viol = []
    dep = Deployment(wd, 2, None)
    res = dep.run('init', '--encryption', 'none', '--chunking.min-length', 2_000_000, '--chunking.max-length', 3_000_000, '--hashing.length', 32)
    if not res.ok:
        return [{'what': 'init failed in the large-object probe: ' + res.err[-1500:], 'signature': {'kind': '_harness'}, 'replay': {'probe': 'large'}}]
    src = wd / 'big'
    src.mkdir()
    content = rng.randbytes(2_600_000)
    (src / 'big.bin').write_bytes(content)
    res = dep.run('snapshot', src)
    objs, _ = dep.disk()
    chunks = sorted((n for n in objs if n.startswith('data/')), key=lambda n: -objs[n][0])
    if not res.ok or not chunks:
        return [{'what': 'snapshot failed in the large-object probe: ' + res.err[-1500:], 'signature': {'kind': '_harness'}, 'replay': {'probe': 'large'}}]
    target = dep.repo / chunks[0]
    orig = target.read_bytes()
    for off in (len(orig) - 1, len(orig) // 2 + 4321, 1_048_576 + 17, 70_000):
        if off >= len(orig):
            continue
        target.write_bytes(orig[:off] + bytes([orig[off] ^ 0x20]) + orig[off + 1:])
        out = wd / f'o{off}'
        out.mkdir()
        r = dep.run('restore', out)
        got = [p.read_bytes() for p in out.rglob('*') if p.is_file()]
        if r.ok and got != [content]:
            viol.append({'what': f'restore exited with status 0 although byte {off} of a {len(orig)}-byte chunk object was flipped; the file written differs from the original',
                         'signature': {'kind': 'silent_corruption', 'via': 'cli', 'size': 'large'}, 'replay': {'probe': 'large', 'offset': off}})
        shutil.rmtree(out, ignore_errors=True)
    target.write_bytes(orig)
    return viol


SLOW_EXIT = [{'fn': 'slow_loop_close', 'seconds': 0.5}, {'fn': 'slow_submit', 'seconds': 0.15}]


def termination_probe(ctx, rep, which):
    """A command that fails must END with an error status under every schedule of its worker threads, in particular the one where
    a loader thread is slow to hand its next request to the event loop and the loop is slow to close after the failure
    (harness/cli_child.py: slow_submit + slow_loop_close).  which: 'delete' (refused delete of a foreign snapshot, C06) and/or
    'restore' (restore that needs a removed chunk, C04 / C09)."""
    rng = random.Random(ctx.rng.randint(0, 2 ** 31))
    wd = Path(ctx.scratch) / 'cli-exit'
    shutil.rmtree(wd, ignore_errors=True)
    wd.mkdir(parents=True)
    sc = Scenario(rng.randint(0, 2 ** 31), wd, 'plain', 0)
    sc.encrypted = True
    try:
        sc.setup()
        users = sc.users
        while len({u['uid'] for u in users}) < 2:           # need two different keys
            shutil.rmtree(wd)
            wd.mkdir(parents=True)
            sc = Scenario(rng.randint(0, 2 ** 31), wd, 'plain', 0)
            sc.encrypted = True
            sc.setup()
            users = sc.users
        for i in range(8):
            u = users[i % len(users)]
            args, files = sc.make_files(u)
            sc.op_snapshot(u, args, files)
    except Scenario.Stop:
        pass
    for v in sc.viol:
        rep.disagreements.append({'what': 'termination probe could not be set up: ' + v['what'], 'replay': v['replay']})
    if sc.viol:
        return
    objs, _ = sc.dep.disk()
    present = sc.present(objs)
    rep.count('termination_probe')
    if 'delete' in which:
        for caller in users[:2]:
            foreign = [n for n, s_ in present.items() if s_['uid'] != caller['uid']]
            if not foreign:
                continue
            res = sc.dep.run('delete', '--yes', foreign[0], user=caller, inject=SLOW_EXIT, timeout=25)
            rep.case(('exit-delete', caller['name']), nontrivial=True)
            if res.rc == -100:
                rep.violations.append({'what': 'a refused delete of another user\'s snapshot never ends: the process hangs at exit when a snapshot-loader thread '
                                               'hands its next request to the event loop after the command has failed (slow thread, slow loop close)',
                                       'signature': {'kind': 'hang', 'command': 'delete', 'via': 'cli'}, 'replay': {'probe': 'termination', 'command': 'delete'}})
                break
            if res.ok:
                rep.violations.append({'what': "delete of another user's snapshot exited with status 0", 'signature': {'kind': 'delete_foreign_succeeded', 'via': 'cli'},
                                       'replay': {'probe': 'termination', 'command': 'delete'}})
    if 'restore' in which:
        name = max(present, key=lambda n: len(present[n]['chunk_paths']))
        s_ = present[name]
        owner = next(u for u in users if u['name'] == s_['owner'])
        victim = sorted(s_['chunk_paths'])[len(s_['chunk_paths']) // 2]
        p = Path(os.path.realpath(sc.dep.repo / victim))
        keep = p.read_bytes()
        p.unlink()
        out = wd / 'out-exit'
        out.mkdir()
        res = sc.dep.run('restore', '-S', '^' + name + '$', out, user=owner, inject=SLOW_EXIT, timeout=40)
        rep.case(('exit-restore', len(s_['chunk_paths'])), nontrivial=True)
        if res.rc == -100:
            rep.violations.append({'what': 'a restore that needs a removed chunk never ends: the process hangs at exit when a chunk-loader thread hands its next request '
                                           'to the event loop after the command has failed (slow thread, slow loop close)',
                                   'signature': {'kind': 'hang', 'command': 'restore', 'via': 'cli'}, 'replay': {'probe': 'termination', 'command': 'restore'}})
        elif res.ok:
            rep.violations.append({'what': 'restore exited with status 0 although a chunk it needs was removed', 'signature': {'kind': 'silent_corruption', 'via': 'cli'},
                                   'replay': {'probe': 'termination', 'command': 'restore'}})
        p.write_bytes(keep)
    shutil.rmtree(wd, ignore_errors=True)



def linked_shards_probe(ctx, rep, mine):
    """A deployment whose shard directories live on another disk and are linked back: after a delete has emptied them, a clean that
    has something to collect (garbage of an interrupted snapshot) must still succeed and collect it."""
    rng = random.Random(ctx.rng.randint(0, 2 ** 31))
    wd = Path(ctx.scratch) / 'cli-linked'
    shutil.rmtree(wd, ignore_errors=True)
    wd.mkdir(parents=True)
    sc = Scenario(rng.randint(0, 2 ** 31), wd, 'plain', 0)
    sc.encrypted = False
    try:
        sc.setup()
        u = sc.users[0]
        args, files = sc.make_files(u, big=True)
        sc.op_snapshot(u, args, files)
        first = next(iter(sc.snaps))
        sc.rng = random.Random(1)
        for _ in range(4):
            sc.relocated = False
            sc.op_relocate()                      # repeated: every shard ends up linked
        # with every shard linked: listings are complete, unchanged data transfers nothing, a second snapshot sharing the chunks and its
        # deletion leave the first one whole and the chunk area exact
        sc.op_observe(u)
        args2, files2 = sc.make_files(u)
        sc.op_snapshot(u, list(args) + list(args2), dict(files, **files2), what='repeat')
        second = [n for n in sc.snaps if n != first][0]
        sc.op_delete(u, [second])
        objs_, _ = sc.dep.disk()
        data_ = {n for n in objs_ if n.startswith('data/')}
        if data_ != sc.referenced(objs_):
            sc.v('not_exact', f'with linked shard directories: after snapshot + delete the chunk objects differ from the chunks referenced: '
                              f'{len(data_ - sc.referenced(objs_))} unreferenced, {len(sc.referenced(objs_) - data_)} missing')
        name = first
        sc.op_delete(u, [name])
        orphan = sc.dep.repo / 'data' / 'zz' / 'yy' / 'orphan-of-an-interrupted-snapshot'
        orphan.parent.mkdir(parents=True)
        orphan.write_bytes(b'garbage')
        res = sc.dep.run('clean', user=u)
        rep.case(('linked-shards', res.rc), nontrivial=True)
        rep.count('linked_shards_probe')
        if not res.ok and 'exception' in mine:
            sc.v('exception', f'clean on a repository whose (emptied) shard directories are symbolic links exits with status {res.rc}: '
                              f'{res.err.strip().splitlines()[-1][:160] if res.err.strip() else ""}', {'probe': 'linked_shards'})
        elif orphan.exists() and 'gc_incomplete' in mine:
            sc.v('gc_incomplete', 'clean left an unreferenced chunk in a repository whose shard directories are symbolic links', {'probe': 'linked_shards'})
    except Scenario.Stop:
        pass
    for v in sc.viol:
        v['replay'] = {'probe': 'linked_shards'}
        if v['signature']['kind'] in mine:
            rep.violations.append(v)
    shutil.rmtree(wd, ignore_errors=True)


def refused_removal_probe(ctx, rep, mine):
    """delete / clean while ONE removal is refused by the file system (EACCES, EPERM, EROFS on one object - the first, second, ...
    removal of the command; in the last trial the snapshot object itself can never be removed - a write-protected or retention-locked
    object): the backend may retry it or the command may fail, but what is still listed afterwards must still have all its chunks, and
    a command that reports success has done its job."""
    rng = random.Random(ctx.rng.randint(0, 2 ** 31))
    for trial in range(4):
        wd = Path(ctx.scratch) / f'cli-refused-{trial}'
        shutil.rmtree(wd, ignore_errors=True)
        wd.mkdir(parents=True)
        sc = Scenario(rng.randint(0, 2 ** 31), wd, 'plain', 0)
        sc.encrypted = trial == 1
        sc.dep.cache = None
        try:
            sc.setup()
            u = sc.users[0]
            for _ in range(2):
                args, files = sc.make_files(u)
                sc.op_snapshot(u, args, files)
            victim = sorted(sc.snaps)[0]
            inject = [{'fn': 'unlink', 'k': trial, 'when': 'before', 'action': ['EACCES', 'EPERM', 'EROFS'][trial]}] if trial < 3 else \
                [{'fn': 'unlink', 'path_contains': os.sep + 'snapshots' + os.sep, 'action': 'EPERM'}]
            before, _ = sc.dep.disk()
            res = sc.dep.run('delete', '--yes', victim, user=u, inject=inject)
            after, _ = sc.dep.disk()
            rep.case(('refused-removal', trial, res.rc), nontrivial=True)
            rep.count('refused_removal_probe')
            what = f'delete while removal #{trial} is refused once ({inject[0]["action"]})' if trial < 3 else \
                'delete while the removal of the snapshot object is refused for good (EPERM)'
            sc.restorable_check(what, after)
            if res.ok:
                if sc.snaps[victim]['path'] in after:
                    sc.v('gc_incomplete', f'{what}: the command exits with status 0 but the snapshot object is still there')
                only = sc.snaps[victim]['chunk_paths'] - sc.referenced(after)
                if only & set(after):
                    sc.v('gc_incomplete', f'{what}: the command exits with status 0 but left {len(only & set(after))} chunk(s) only the deleted snapshot referenced')
        except Scenario.Stop:
            pass
        for v in sc.viol:
            v['replay'] = {'probe': 'refused_removal'}
            if v['signature']['kind'] in mine:
                rep.violations.append(v)
        shutil.rmtree(wd, ignore_errors=True)


def scan_fault_probe(ctx, rep, mine):
    """EVERY directory scan of a clean and of a delete fails once (EACCES, then EIO), one at a time, each on a fresh copy of one
    repository that holds three snapshots with shared chunks and the garbage of a killed snapshot.  A command that fails has lost
    nothing; a command that reports success has seen everything: what is still listed has all its chunks, and clean leaves exactly
    the referenced chunks."""
    rng = random.Random(ctx.rng.randint(0, 2 ** 31))
    wd = Path(ctx.scratch) / 'cli-scan'
    shutil.rmtree(wd, ignore_errors=True)
    wd.mkdir(parents=True)
    sc = Scenario(rng.randint(0, 2 ** 31), wd, 'plain', 0)
    sc.encrypted = False
    sc.dep.cache = None
    try:
        sc.setup()
        u = sc.users[0]
        for _ in range(3):
            args, files = sc.make_files(u)
            sc.op_snapshot(u, args, files)
        args, files = sc.make_files(u, big=True)
        sc.orphans.update(sc.dry_table(u, args))
        sc.op_snapshot(u, args, files, inject=[{'fn': 'replace', 'k': 5, 'when': 'after', 'action': 'kill'}])
    except Scenario.Stop:
        pass
    if sc.viol:
        for v in sc.viol:
            rep.disagreements.append({'what': 'scan fault probe could not be set up: ' + v['what'], 'replay': {'probe': 'scan_fault'}})
        shutil.rmtree(wd, ignore_errors=True)
        return
    base, _ = sc.dep.disk()
    victim = sorted(sc.present(base))[0]
    master = sc.dep.repo
    jobs = [(command, k, errno_name) for command in ('clean', 'delete') for k in range(14)
            for errno_name in (('EACCES', 'EIO') if k % 2 == 0 else ('EIO',))]
    # ... or fails in the middle, after it has produced one entry
    jobs += [(command, k, 'mid-EIO') for command in ('clean', 'delete') for k in range(14)]
    # ... or one snapshot object cannot be read, whatever is tried (this client has no cached copy of it)
    kept = sorted(sc.present(base))[1:]
    jobs += [(command, sc.snaps[n]['path'], 'unreadable') for command in ('clean', 'delete') for n in kept[:2]]
    # ... and the two commands undisturbed (clean has the garbage of the killed snapshot to collect)
    jobs += [('clean', -1, 'nothing'), ('delete', -1, 'nothing')]

    def one(job):
        command, k, errno_name = job
        copy = wd / f'copy-{command}-{abs(hash((k, errno_name))) % 10 ** 9}-{errno_name}'
        shutil.copytree(master, copy, symlinks=True)
        dep2 = Deployment.__new__(Deployment)
        dep2.__dict__.update(sc.dep.__dict__)
        dep2.repo, dep2.log = copy, []
        inject = [{'fn': 'scandir', 'k': k, 'when': 'before', 'action': errno_name}]
        if errno_name == 'mid-EIO':
            inject = [{'fn': 'scandir_iter', 'k': k, 'after': 1, 'action': 'EIO'}]
        elif errno_name == 'unreadable':
            inject = [{'fn': 'read', 'path_contains': k.replace('/', os.sep), 'action': 'EIO'}]
        if errno_name == 'nothing':
            inject = None
        res = dep2.run(*((command,) if command == 'clean' else (command, '--yes', victim)), user=u, inject=inject)
        after, _ = dep2.disk()
        # what is not the tool's (outside the chunk and snapshot areas) is as it was
        touched = [nm_ for nm_, data_ in getattr(sc, 'outside', {}).items()
                   if not (copy / nm_).is_file() or (copy / nm_).read_bytes() != data_]
        shutil.rmtree(copy, ignore_errors=True)
        return job, res, (after, touched)
    with ThreadPoolExecutor(max_workers=8) as ex:
        results = list(ex.map(one, jobs))
    n = len(results)
    for (command, k, errno_name), res, (after, touched) in results:
        what = f'{command} while directory scan #{k} fails once with {errno_name}'
        if errno_name == 'nothing':
            what = f'{command} (undisturbed, with the garbage of a killed snapshot in the repository)'
        if touched:
            sc.v('config_touched', f'{what} removed or modified {touched}: objects outside the chunk and snapshot areas')
        if errno_name == 'mid-EIO':
            what = f'{command} while directory scan #{k} fails with EIO after its first entry'
        elif errno_name == 'unreadable':
            what = f'{command} while the snapshot object {k[:22]}.. cannot be read (EIO for good)'
        if os.environ.get('VERIF_DEBUG'):
            print('DEBUG', what, res.rc, len(base), len(after), res.err[-1500:].replace('\n', ' | '))
        if res.rc == -100:
            sc.v('hang', what + ': the command does not end')
        sc.restorable_check(what, after)
        if res.ok and command == 'clean':
            sc.exact_check(what, u, after)
        if res.ok and command == 'delete':
            if sc.snaps[victim]['path'] in after:
                sc.v('gc_incomplete', f'{what}: the command exits with status 0 but the snapshot object is still there')
            only = sc.snaps[victim]['chunk_paths'] - sc.referenced(after)
            if only & set(after):
                sc.v('gc_incomplete', f'{what}: the command exits with status 0 but left {len(only & set(after))} chunk(s) that only the deleted snapshot referenced')
    rep.case(('scan-fault', n), nontrivial=True)
    rep.count('scan_fault_probe_commands', n)
    for v in sc.viol:
        v['replay'] = {'probe': 'scan_fault'}
        if v['signature']['kind'] in mine:
            rep.violations.append(v)
    shutil.rmtree(wd, ignore_errors=True)


def run_scenarios(ctx, rep, plan, mine, nops=9, encrypted=None):
    """plan: {kind: count}; kinds: 'plain', 'kill', 'oserror', 'corrupt'.  Violations whose kind is in `mine` are kept."""
    jobs = []
    for kind, n in plan.items():
        for _ in range(n):
            jobs.append((ctx.rng.randint(0, 2 ** 31), kind))
    root = Path(ctx.scratch) / 'cli'

    def one(job):
        seed, kind = job
        wd = root / f'{kind}-{seed}'
        wd.mkdir(parents=True)
        try:
            sc = Scenario(seed, wd, kind, nops)
            if encrypted is not None:
                sc.encrypted = encrypted
            sc.rotation = jobs.index(job)
            if jobs.index(job) % 4 == 0:
                sc.encrypted = True          # at least the first scenario of every kind has keys
            return sc.run()
        finally:
            shutil.rmtree(wd, ignore_errors=True)
    with ThreadPoolExecutor(max_workers=min(10, max(1, len(jobs)))) as ex:
        done = list(ex.map(one, jobs))
    for sc in done:
        rep.case(('cli', sc.kind, json.dumps(sc.descr, default=str)), nontrivial=len(sc.descr) >= 4)
        rep.count('cli_scenarios_' + sc.kind)
        rep.count('cli_commands', sc.dep.ncmd)
        for d in sc.descr:
            rep.count('cli_op=' + str(d[0]))
        for v in sc.viol:
            k = v['signature']['kind']
            if k == '_harness':
                rep.disagreements.append({'what': v['what'], 'replay': v['replay']})
            elif k in mine:
                rep.violations.append(v)
    if done:
        rep.sample({'cli_scenario': done[0].descr[:10]})


def replay_scenario(ctx, r):
    """re-run one scenario from a replay record; returns its violations"""
    wd = Path(ctx.scratch) / 'cli-replay'
    wd.mkdir(parents=True, exist_ok=True)
    sc = Scenario(r['cli_seed'], wd, r['cli_kind'], r.get('nops', 9)).run()
    return sc.viol


def replay_cli(ctx, obj, mine):
    """replay of a record produced here; returns None when the record is not one of ours, else 0/1"""
    r = obj.get('replay') or {}
    from harness.core import Report
    rep = Report(rule='replay')
    if 'cli_seed' in r:
        viol = [v for v in replay_scenario(ctx, r) if v['signature']['kind'] in mine]
    elif r.get('probe') == 'termination':
        termination_probe(ctx, rep, {r.get('command', 'delete')})
        viol = rep.violations
    elif r.get('probe') == 'scan_fault':
        scan_fault_probe(ctx, rep, mine)
        viol = rep.violations
    elif r.get('probe') == 'refused_removal':
        refused_removal_probe(ctx, rep, mine)
        viol = rep.violations
    elif r.get('probe') == 'linked_shards':
        linked_shards_probe(ctx, rep, mine)
        viol = rep.violations
    elif r.get('probe') == 'large':
        viol = large_object_corruption(Path(ctx.scratch) / 'large', random.Random(1))
    else:
        return None
    for v in viol:
        print('VIOLATION-REPRODUCED', v['what'])
    return 1 if viol else 0
