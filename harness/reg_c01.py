from harness.registry import COMMON_TB
ENTRY = {
    'level': 'proof',
    'technique': 'Coq proof (tiling of files by chunk ranges, order-independent restore plan, write commutation via pointwise invariant) + semantic tie of the translated Python arithmetic (lia) + differential correspondence on real snapshot/restore runs + round-trip oracle',
    'design_ref': 'DESIGN.md section 4 C01, section 3.2',
    'text': ('Theorems C01_restore_one_file / C01_restore_every_file / C01_roundtrip_gclmul / C01_tiling / C01_writes_restore: for every '
             'alignment, file list, lossless chunking (in particular the gclmul chunker for all valid parameters and segmentations), every '
             'completion order of chunk uploads (any permutation of the refs, empty refs optional), every order of the part writes and every '
             'pre-existing target content, the restore plan rebuilds exactly each file. The Python arithmetic of _chunk_done, the padding, the '
             'restore plan and _write_file_part is translated from the working tree into Gen/StreamGen.v and proved to mean what the model '
             'says (C01_tie_*). Layout, manifest, plan and (small streams) the model chunker are compared with real snapshot/restore runs over '
             'generated trees/configurations; a model-free oracle compares the restored tree with the source.'),
    'note': ('Modelled, not verified: file-system calls beyond open/seek/truncate/write/utime, path flattening and symlink traversal '
             '(compared against an independent walker), hashing/encryption (round trip assumed; C04/C05), thread scheduling (C09). '
             'Files do not change during the snapshot. Correspondence is sampled.'),
    'trusted_base': COMMON_TB + ['instrumentation by monkeypatching _SnapshotFile / RepositoryProps.chunkify / _write_file_part (recording only)'],
    'assumptions': ['hash function injective on the chunks of one snapshot', 'cipher decrypt(encrypt(x)) = x', 'files do not change while the snapshot runs'],
}
