"""Registry fragment for C13 (see harness/registry.py)."""
from harness.registry import COMMON_TB

ENTRY = {
    'level': 'proof',
    'technique': ('Coq refinement proofs (Store specification <- S3 / B2 service+client models, <- local directory-tree model; '
                  'induction over operation histories, list loops by induction with proved fuel adequacy) + differential '
                  'correspondence of the real adapters against fake services / real directories, a dict and the Coq models'),
    'design_ref': 'DESIGN.md section 4 C13; design/C13.md',
    'text': ('Theorems C13_s3_refines_store, C13_b2_refines_store, C13_local_refines_store: for EVERY operation history (upload, '
             'upload_stream, delete, exists, download, download_stream, list prefix) the adapter logic over the service / directory-tree '
             'model returns what the plain name->bytes map returns; listings are exact, each name once, for every page size >= 1 and any '
             'number of objects and pages (C13_s3_list_exact, C13_b2_list_exact, C13_local_list_exact); B2 delete is idempotent through '
             'hide markers; local upload never exposes a partial object between its micro-steps (C13_local_upload_atomic); names are '
             'sliced independently of the spelling of the repository path; the flat string prefix test equals the segment-level one. '
             'Local names must be legal (non-empty segments, not . or .., not ending in .tmp, none a directory prefix of another). '
             'All theorems are closed under the global context. The models are tied to the code by source facts (Gen/C13Facts) and by '
             'running the same random histories on the real adapters (Local under 11 spellings of the path, S3Compatible and B2 '
             'against fake services with pages of 1..4 keys), on a dict and through the Coq models by vm_compute.'),
    'note': ('The S3 / B2 service semantics (sorted listing, continuation by last key / nextFileName, hide markers, percent-decoding '
             'of names incl. + as space on B2) and POSIX directory semantics are modelled, not verified; the fakes implement the same '
             'reading and every fake run is compared with the Coq service model (results and number of list requests). httpx URL '
             'handling, XML/JSON parsing and iterative_scandir itself are covered by the correspondence only. Known findings: local '
             'names ending in .tmp are never listed; names with . or .. segments address another object on S3/B2 (URL normalisation).'),
    'trusted_base': COMMON_TB + ['fake S3 / B2 services in harness/fakes_http.py (my reading of the published API semantics)',
                                 'the directory-tree model abstracts iterative_scandir as "all files below" (tied by correspondence)'],
    'assumptions': ['S3 ListObjectsV2 returns keys in a fixed total order, at most max-keys per page, continuation after the last key returned',
                    'B2 b2_list_file_names returns visible names in order starting at startFileName; nextFileName lies after the last name returned and not after the next one',
                    'B2 hides a name whose newest version is a hide marker; b2_hide_file answers 400 already_hidden / no_such_file otherwise',
                    'POSIX rename is atomic; a directory listing is consistent; NamedTemporaryFile picks an unused name',
                    'no concurrent writers to the same repository during a history (sequential histories)'],
}
