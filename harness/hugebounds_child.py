"""Child of c10.huge_bounds_probe: one call of the recompiled native next_cut on a buffer that is an anonymous mapping (zero pages,
no real memory), with chunk lengths at and above 2**32.  Prints one JSON line.  Runs in its own process because a wrong answer to
"is enough data buffered?" makes the scan read past the mapping."""
import ctypes, json, mmap, sys
import _replicat_adapters as A

mn, mx, n, final = int(sys.argv[1]), int(sys.argv[2]), int(sys.argv[3]), int(sys.argv[4])
ch = A._gclmulchunker(mn, mx, bytes(range(16)))
mm = mmap.mmap(-1, max(n, 1))
arr = (ctypes.c_char * max(n, 1)).from_buffer(mm)
cut = A._lib.gc_next_cut(ch._h, ctypes.addressof(arr), n, final)
print(json.dumps({'cut': int(cut)}))
del arr
mm.close()
