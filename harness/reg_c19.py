from harness.registry import COMMON_TB

ENTRY = {
    'level': 'proof',
    'technique': ('Coq proof over a model of the option pipeline of replicat.__main__.main() whose option tables, source order and '
                  'merge order are extracted from the working tree + exhaustive enumeration (option x subset of sources x command x '
                  'backend) of the real main() in fresh interpreters with the handler and the backend constructor recorded'),
    'design_ref': 'DESIGN.md section 4 C19, design/C19.md',
    'text': ('Theorems over the extracted tables (all source contents, no bounds): C19_first_present_wins_general / _backend / _custom - '
             'for every option row (general, built-in backend, any custom backend keyword), when only this spelling of the destination '
             'is used and the given values are acceptable, the effective value is the coercion of the first present source in the order '
             'CLI, environment, profile, default section, else the built-in; C19_coercion_agrees_general - the coercions of one general '
             'option agree on every string (flag = true); C19_exclusive_rejected - both members of an exclusive pair in the file or on '
             'the command line stop the program; C19_typed_file_values_unchanged. The full coercion-agreement statement for backend '
             'options is refuted on the unchanged tree (C19_coercion_agrees_refuted, a str from env/file is coerced twice: known finding) '
             'and proved on strings that a second guess_type leaves alone (C19_coercion_agrees_partial). Explored, not proved: that the '
             'model is main() - every option x every subset of its sources x commands x {local, s3c, custom backend} is executed and the '
             'whole namespace and constructor call compared with the model.'),
    'note': ('argparse (parser-level defaults, type applied to string defaults, mutually exclusive groups) and the TOML parser are '
             'modelled by their documented behaviour; guess_type is modelled on a decidable fragment of strings (keywords, decimal ints, '
             'x.0/x.5 floats, simply quoted strings, identifier-like words) and every generated string lies in it. Interplay of '
             'different spellings of one destination across file sections (profile cache-directory vs default-section no-cache, '
             'password vs password-file in different sections = rejected) follows the implementation and is outside the precedence '
             'theorem (hypothesis siblings_absent).'),
    'trusted_base': COMMON_TB + ['harness/c19_driver.py (monkeypatched _cmd_handler / load_backend recorder) and the case materialiser of harness/c19.py'],
    'assumptions': ['argparse: parser-level defaults override argument defaults, a str default is passed through type=, command line last',
                    'TOML parsing; os.fsencode / str.encode / os.environb agree on ASCII',
                    'ast.literal_eval on the modelled fragment of strings'],
}
