"""Single source of truth for MANIFEST.json (bin/mkmanifest) and evidence levels."""
NOTES = ("Technique family: machine-checked proof in Rocq/Coq 8.16.1. Every check = A (theorems in coq/Props/Cxx.v, "
         "recompiled with Print Assumptions on every run) + B (tie to /repo: translated definitions/source facts in coq/Gen "
         "regenerated from the working tree, and model-vs-implementation correspondence on generated cases) + C (direct oracle "
         "search on the implementation). See DESIGN.md.")
NOT_APPLICABLE = {}
COMMON_TB = [
    'Coq 8.16.1 kernel incl. vm_compute (no native_compute); full .vo build; lint for Admitted/admit/Axiom/Parameter/unsafe flags on every run',
    'Python-ast translator /verif/translate (source facts and translated definitions in coq/Gen), fail-closed',
    'correspondence harness /verif/harness (generators, canonicalisation, printing/parsing of Gallina values)',
]
REGISTRY = {}

REGISTRY['C10'] = {
    'level': 'proof',
    'technique': 'Coq proof (induction over the driver loop, generic in hash function and in the memory behind the buffer) + differential correspondence model-vs-recompiled-C++ + guard-byte oracle',
    'design_ref': 'DESIGN.md section 4 C10, section 3.1, Appendix A',
    'text': ('Theorems C10_lossless, C10_nonempty, C10_junk_independent, C10_bounds_and_segmentation, C10_head_prefix hold for every byte '
             'stream, segmentation (incl. empty pieces), key/hash function, junk memory and all valid (min,max); unbounded, by induction. '
             'The Gallina chunker is run by vm_compute on the same generated cases as the Python adapter over src/adapters.cpp recompiled '
             'from the working tree, with controlled guard bytes behind every buffer; model-free oracles check the statement directly.'),
    'note': ('Trusted: Coq kernel; pybind11 stand-in header + ctypes front used to run the recompiled C++ (pybind11 is not installed, the '
             'prebuilt .so in /repo cannot be rebuilt); unbounded nat (no size_t overflow of 2*max_length); correspondence is sampled.'),
    'trusted_base': COMMON_TB + ['pybind11 stand-in /verif/native/shim and ctypes front /verif/native/pyshim (B3)'],
    'assumptions': ['size_t arithmetic does not overflow (2*max_length)', 'the Python bytearray handed to next_cut is not mutated concurrently'],
}


# per-property fragments harness/reg_cXX.py (ENTRY = {...}) override / extend the table above
import importlib as _il, pkgutil as _pk, harness as _h
for _m in sorted(_pk.iter_modules(_h.__path__), key=lambda m: m.name):
    if _m.name.startswith('reg_c'):
        _mod = _il.import_module('harness.' + _m.name)
        REGISTRY[_m.name[4:].upper()] = _mod.ENTRY
        if hasattr(_mod, 'NOT_APPLICABLE'):
            NOT_APPLICABLE.update(_mod.NOT_APPLICABLE)
