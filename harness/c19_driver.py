"""C19 driver: runs replicat.__main__.main() once, in this fresh interpreter, with the command handler and the
backend constructor replaced by recorders; prints one JSON line.  Usage: c19_driver.py <argv as JSON list>.
(Fresh interpreter per case: set_defaults on the sub-parsers mutates the module-level parent parsers.)"""
import functools
import inspect
import json
import os
import sys
from pathlib import PurePath


def enc(v):
    import replicat.__main__ as m
    if v is m._missing_backend_argument:
        return ['missing']
    if v is None:
        return ['null']
    if isinstance(v, bool):
        return ['bool', v]
    if isinstance(v, int):
        return ['int', v]
    if isinstance(v, float):
        return ['float', repr(v)]
    if isinstance(v, str):
        return ['str', v]
    if isinstance(v, (bytes, bytearray)):
        return ['bytes', bytes(v).decode('latin-1')]
    if isinstance(v, PurePath):
        return ['path', str(v)]
    if isinstance(v, (tuple, list)):
        return ['tuple' if isinstance(v, tuple) else 'list', [enc(x) for x in v]]
    if isinstance(v, dict):
        return ['dict', sorted([str(k), enc(x)] for k, x in v.items())]
    return ['other', type(v).__name__, repr(v)[:80]]


def main():
    argv = json.loads(sys.argv[1])
    out = {'status': None}
    sys.argv = ['replicat'] + argv
    import replicat.__main__ as m
    from replicat import utils
    from replicat.utils import config
    out['default_cache'] = str(config.DEFAULT_CACHE_DIRECTORY)
    out['cwd'] = os.getcwd()
    record = {}
    real_load = utils.load_backend

    def load_backend(name, connection_string):
        cls, conn = real_load(name, connection_string)
        orig = cls.__init__
        if not getattr(orig, '_c19_recorder', False):
            @functools.wraps(orig)          # keeps the signature that config_for_backend / parser_for_backend read
            def recorder(self, connection_string, **kwargs):
                record['backend'] = {'type': type(self).__name__, 'conn': enc(connection_string),
                                     'kwargs': {k: enc(v) for k, v in kwargs.items()}}
            recorder._c19_recorder = True
            cls.__init__ = recorder
        record['loaded'] = name
        return cls, conn

    async def handler(backend_type, connection_string, args, settings):
        m._instantiate_backend(backend_type, connection_string, vars(args))
        record['args'] = {k: enc(v) for k, v in vars(args).items()}
        record['settings'] = enc(settings)
        record['signature'] = [n for n, p in inspect.signature(backend_type).parameters.items() if p.kind is p.KEYWORD_ONLY]

    utils.load_backend = load_backend
    m._cmd_handler = handler
    try:
        m.main()
        out['status'] = 'ok' if 'args' in record else 'no-handler'
    except SystemExit as e:
        out['status'] = 'exit'
        out['code'] = e.code if isinstance(e.code, int) else 1
    except BaseException as e:  # noqa
        out['status'] = 'error'
        out['error'] = type(e).__name__
        out['message'] = str(e)[:200]
    import logging
    out['root_log_level'] = logging.getLogger().level
    out['default_config'] = str(config.DEFAULT_CONFIG_PATH)
    out.update(record)
    sys.stdout.write('\nC19RESULT ' + json.dumps(out) + '\n')


if __name__ == '__main__':
    main()
