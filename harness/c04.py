"""C04 - damaged or substituted objects are never restored silently.
B2: real repositories x corruptions; each corruption is applied to the bytes (implementation) and to the
lifted symbolic store (Model/Objects.restore, vm_compute); outcome class and restored bytes compared.
C: oracle "restore returned normally AND a restored file differs from the original".
DESIGN.md C04 / design/C04.md."""
from __future__ import annotations

import base64
import hashlib
import json
import os
import shutil
import sys
from concurrent.futures import ThreadPoolExecutor
from pathlib import Path

from harness import core, repolab, refreader
from harness.core import Report
from harness.membackend import MemBackend, write_local

RULE = ('cases = (repository, corruption list, restored snapshot): repositories with two snapshots (shared and unshared chunks) '
        'for cipher in {none, aes_gcm, chacha20_poly1305} (+ key sizes / hash algorithms in thorough), in-memory and Local backend; '
        'corruptions = every stored chunk/snapshot object x {bit flip at boundary offsets (0, nonce-1, nonce, len-17, len-16, len-1) and '
        'sampled offsets, truncation to 0 / <nonce / <tag / len-1, extension, nonce splice, delete, swap with and replay of another '
        'object of the same and of the other kind, copy under a new name / another tag}, singly and in random pairs, plus config damage '
        'each damage to a snapshot object (and a quarter of the others) also in the variants "same command twice over one initially empty cache '
        'directory" and "applied between the listing and the downloads", and a snapshot-table ciphertext stored as the chunk that backs up that snapshot\'s data ciphertext (oracle only); non-trivial = the corruption touches an object the restored snapshot needs (the model predicts an error) ; '
        'distinct = distinct (repository id, corruption list, target)')

ERR_CODE = {0: 'Ok', 1: 'Corrupted', 2: 'DecryptFail', 3: 'Missing', 4: 'Malformed'}


def b64(b):
    return base64.b64encode(b).decode()


def unb64(s):
    return base64.b64decode(s)


# --------------------------------------------------------------------------- building repositories
def build_repo(rng, scratch, rid, cipher, hashing=None, backend='mem'):
    """two snapshots over a small tree; returns a JSON-able description incl. all objects and the originals"""
    src = Path(scratch) / f'src-{rid}'
    be = MemBackend()
    pw = b'correct horse ' + str(rid).encode()
    cl = repolab.Client(be, password=pw if cipher else None)
    o = cl.init(repolab.settings_for(cipher, hashing=hashing))
    assert o.ok, o.detail
    files1 = repolab.make_tree(rng, src, rng.randint(3, 4))
    s1 = cl.snapshot([src], note='first')
    assert s1.ok, s1.detail
    # second snapshot: one file changed, one added, the rest unchanged
    victim = sorted(files1)[0]
    newdata = rng.randbytes(rng.randint(200, 700))
    Path(victim).write_bytes(newdata)
    extra = src / 'added.bin'
    extra.write_bytes(rng.randbytes(rng.randint(100, 500)))
    files2 = dict(files1)
    files2[victim] = newdata
    files2[str(extra.resolve())] = extra.read_bytes()
    s2 = cl.snapshot([src], note='second')
    assert s2.ok, s2.detail
    shutil.rmtree(src, ignore_errors=True)
    return {
        'rid': rid, 'cipher': list(cipher) if cipher else None, 'hashing': hashing, 'backend': backend,
        'password': b64(pw) if cipher else None, 'key': b64(cl.key) if cl.key else None,
        'objects': {n: b64(d) for n, d in sorted(be.objects.items())},
        'snapshots': [{'name': s1.value.name, 'location': s1.value.location, 'files': {p: b64(d) for p, d in files1.items()}},
                      {'name': s2.value.name, 'location': s2.value.location, 'files': {p: b64(d) for p, d in files2.items()}}],
    }


# --------------------------------------------------------------------------- corruptions (concrete)
def nonce_len(repo):
    return 12 if repo['cipher'] else 0


def kinds_for(rng, repo, name, data, others_same, others_other, n_sampled):
    """single corruptions of object `name`"""
    L, nl = len(data), nonce_len(repo)
    out = []
    offs = {0, L - 1}
    if nl:
        offs |= {nl - 1, nl, L - 17, L - 16}
    offs = {o for o in offs if 0 <= o < L}
    for _ in range(n_sampled):
        offs.add(rng.randrange(L))
    for o in sorted(offs):
        out.append({'k': 'flip', 'o': name, 'off': o, 'bit': rng.randrange(8)})
    lens = {0, L - 1}
    lens |= ({nl - 1, nl + 8} if nl else {1, L // 2})
    for ln in sorted(l for l in lens if 0 <= l < L):
        out.append({'k': 'trunc', 'o': name, 'len': ln})
    out.append({'k': 'extend', 'o': name, 'data': rng.randbytes(1).hex()})
    out.append({'k': 'extend', 'o': name, 'data': rng.randbytes(16).hex()})
    out.append({'k': 'delete', 'o': name})
    if others_same:
        out.append({'k': 'swap', 'o': name, 'p': rng.choice(others_same)})
        out.append({'k': 'replay', 'o': rng.choice(others_same), 'p': name})
        if nl:
            out.append({'k': 'splice', 'o': name, 'p': rng.choice(others_same)})
    if others_other:
        out.append({'k': 'replay', 'o': rng.choice(others_other), 'p': name})
    out.append({'k': 'copy', 'o': name, 'new': new_name(name, 'name')})
    if name.startswith('snapshots/'):
        out.append({'k': 'copy', 'o': name, 'new': new_name(name, 'tag')})
        # replay / rename that keeps the object's own tag part and takes the NAME part of another snapshot
        for other in others_same:
            out.append({'k': 'rename', 'o': name, 'p': other, 'new': name.rpartition('-')[0] + '-' + other.rpartition('-')[2]})
    return out


def new_name(path, what):
    """a well-formed location that differs from `path` in the last name digit / the first tag digit"""
    def bump(c):
        return '0123456789abcdef'[(int(c, 16) + 1) % 16]
    if what == 'name':
        return path[:-1] + bump(path[-1])
    i = path.index('/') + 1
    return path[:i] + bump(path[i]) + path[i + 1:]


def apply_concrete(orig, objects, spec):
    k, o = spec['k'], spec['o']
    if k == 'flip':
        b = bytearray(orig[o])
        b[spec['off']] ^= 1 << spec['bit']
        objects[o] = bytes(b)
    elif k == 'trunc':
        objects[o] = orig[o][:spec['len']]
    elif k == 'extend':
        objects[o] = orig[o] + bytes.fromhex(spec['data'])
    elif k == 'delete':
        objects.pop(o, None)
    elif k == 'swap':
        objects[o], objects[spec['p']] = orig[spec['p']], orig[o]
    elif k == 'replay':
        objects[spec['p']] = orig[o]
    elif k == 'splice':
        objects[o] = orig[o][:12] + orig[spec['p']][12:]
    elif k in ('copy', 'rename'):
        objects[spec['new']] = orig[o]
    elif k == 'put':
        objects[o] = unb64(spec['data'])
    else:
        raise ValueError(k)


def touched(spec):
    k = spec['k']
    if k == 'swap':
        return {spec['o'], spec['p']}
    if k == 'replay':
        return {spec['p']}
    if k in ('copy', 'rename'):
        return {spec['new']}
    return {spec['o']}


# --------------------------------------------------------------------------- worker: the implementation side
class LateDamage:
    """A backend front: the damage is applied right after the listing of snapshots/ has been produced, i.e. somebody
    changes or removes objects between the moment a command lists the repository and the moment it downloads."""

    def __init__(self, inner, apply):
        self._inner, self._apply, self._done = inner, apply, False

    def __getattr__(self, name):
        return getattr(self._inner, name)

    def list_files(self, prefix=''):
        names = list(self._inner.list_files(prefix))
        if not self._done and prefix.startswith('snapshots'):
            self._done = True
            self._apply()
        return names


def restore_case(repo, orig, case, workdir, idx):
    mode = case.get('mode')
    damaged = dict(orig)
    for spec in case['specs']:
        apply_concrete(orig, damaged, spec)
    objects = dict(orig) if mode in ('late', 'again') else damaged
    if repo['backend'] == 'local':
        from replicat.backends.local import Local
        root = os.path.join(workdir, f'repo-{idx}')
        write_local(root, objects)
        be = Local(root)

        def apply():
            write_local(root, damaged)
    else:
        be = MemBackend(objects)

        def apply():
            objects.clear()
            objects.update(damaged)
    if mode == 'late':
        be = LateDamage(be, apply)
    if mode == 'again':
        res = run_again(repo, be, apply, case, workdir, idx)
        if repo['backend'] == 'local':
            shutil.rmtree(root, ignore_errors=True)
        return res
    cache = os.path.join(workdir, f'cache-{idx}') if mode in ('twice', 'badcache') else None
    if mode == 'badcache':
        # the cache directory already holds a copy of every snapshot object that is NOT the object: empty (interrupted
        # write), a proper prefix, or another snapshot's bytes - in rotation
        snaps = sorted(n for n in set(orig) | set(damaged) if n.startswith('snapshots/'))
        for j, n in enumerate(snaps):
            good = orig.get(n) or damaged.get(n) or b''
            # (foreign = the bytes of a snapshot with ANOTHER name: a copy of the object this name denotes would be a valid entry)
            others = [orig[m] for m in snaps if m in orig and m.rpartition('-')[2] != n.rpartition('-')[2]]
            bad = [b'', good[:len(good) // 2], others[(idx + j) % len(others)] if others else good[:-1]][(idx + j) % 3]
            f = os.path.join(cache, n)
            os.makedirs(os.path.dirname(f), exist_ok=True)
            with open(f, 'wb') as fh:
                fh.write(bad)
    res = run_restore(repo, be, case, workdir, idx, cache)
    if mode == 'badcache':
        shutil.rmtree(cache, ignore_errors=True)
    if mode == 'twice':
        # the very same command once more: a fresh Repository object, the cache directory the first run left behind
        res['second'] = run_restore(repo, be, case, workdir, idx, cache)
        shutil.rmtree(cache, ignore_errors=True)
    if repo['backend'] == 'local':
        shutil.rmtree(root, ignore_errors=True)
    return res


def run_again(repo, be, apply, case, workdir, idx):
    """ONE long-lived Repository object: restore from the honest repository, then the damage happens, then the same
    restore again.  The second restore is the one that is judged (the first must simply succeed)."""
    import asyncio, contextlib, io
    from pathlib import Path as P
    from replicat.repository import Repository
    d1, d2 = os.path.join(workdir, f'out-{idx}-first'), os.path.join(workdir, f'out-{idx}')
    first = {}

    async def go():
        r = Repository(be, concurrent=4, quiet=True, cache_directory=None)
        await r.unlock(password=unb64(repo['password']) if repo['password'] else None, key=unb64(repo['key']) if repo['key'] else None)
        try:
            await r.restore(snapshot_regex=case['target'], path=P(d1))
            first['ok'] = True
            apply()
            return await r.restore(snapshot_regex=case['target'], path=P(d2))
        finally:
            with contextlib.suppress(Exception):
                await r.close()
    try:
        with contextlib.redirect_stdout(io.StringIO()), contextlib.redirect_stderr(io.StringIO()):
            value = asyncio.run(go())
        o = repolab.Outcome('Ok', value)
    except Exception as e:  # noqa: BLE001
        o = repolab.Outcome(repolab.classify(e), None, '', '', f'{type(e).__name__}: {e}'[:300])
    res = {'cls': o.cls, 'detail': o.detail, 'first_ok': bool(first.get('ok'))}
    if o.cls == 'Malformed' and o.detail.startswith('ValueError') and 'once' in o.detail:
        res['cls'] = 'DecryptFail'
    if o.ok:
        res['reported'] = sorted(o.value.files)
        tree = repolab.read_tree(d2) if os.path.isdir(d2) else {}
        res['tree'] = {p: [len(d), hashlib.sha256(d).hexdigest()] for p, d in tree.items()}
    shutil.rmtree(d1, ignore_errors=True)
    shutil.rmtree(d2, ignore_errors=True)
    return res


def run_restore(repo, be, case, workdir, idx, cache):
    dest = os.path.join(workdir, f'out-{idx}')
    cl = repolab.Client(be, password=unb64(repo['password']) if repo['password'] else None,
                        key=unb64(repo['key']) if repo['key'] else None, cache=cache)
    o = cl.restore(dest, snapshot_regex=case['target'])
    res = {'cls': o.cls, 'detail': o.detail}
    if o.cls == 'Malformed' and o.detail.startswith('ValueError') and 'once' in o.detail:
        res['cls'] = 'DecryptFail'      # a nonce that is too short is refused by the AEAD before authentication
    if o.ok:
        res['reported'] = sorted(o.value.files)
        tree = repolab.read_tree(dest) if os.path.isdir(dest) else {}
        res['tree'] = {p: [len(d), hashlib.sha256(d).hexdigest()] for p, d in tree.items()}
    shutil.rmtree(dest, ignore_errors=True)
    return res


def worker_main():
    inp = json.load(sys.stdin)
    repolab.silence_backoff()
    repo = inp['repo']
    orig = {n: unb64(d) for n, d in repo['objects'].items()}
    out = []
    for i, case in enumerate(inp['cases']):
        out.append(restore_case(repo, orig, case, inp['workdir'], i))
    sys.stdout.write(json.dumps(out))
    sys.stdout.flush()
    os._exit(0)     # loader threads of failed restores may still be blocked on a closed loop


def run_impl_cases(ctx, repo, cases, nproc=8):
    if not cases:
        return []
    nproc = max(1, min(nproc, len(cases) // 20 + 1))
    shards = [cases[i::nproc] for i in range(nproc)]

    def one(i):
        wd = ctx.scratch / f'w{repo["rid"]}-{i}'
        wd.mkdir(parents=True, exist_ok=True)
        rc, out, err = core.run_impl(['-m', 'harness.c04', 'worker'], {'repo': repo, 'cases': shards[i], 'workdir': str(wd)}, timeout=1500)
        if rc != 0 or not out.strip():
            raise RuntimeError(f'C04 worker failed rc={rc}: {err[-800:]}')
        return json.loads(out)
    with ThreadPoolExecutor(max_workers=nproc) as ex:
        res = list(ex.map(one, range(nproc)))
    merged = [None] * len(cases)
    for i in range(nproc):
        for j, r in enumerate(res[i]):
            merged[i + j * nproc] = r
    return merged


# --------------------------------------------------------------------------- lifting and the model side
class Lifted:
    """symbolic image of a repository: definitions L<i>/O<i> per object, store, targets"""

    def __init__(self, repo):
        self.repo = repo
        objs = {n: unb64(d) for n, d in repo['objects'].items()}
        self.rr = refreader.RefReader(objs['config'])
        self.key = self.rr.open_key(unb64(repo['key']), unb64(repo['password'])) if self.rr.encrypted else None
        self.lifter = refreader.Lifter(self.rr, self.key)
        snaps = {}
        digests = []
        for n, d in objs.items():
            if n.startswith('snapshots/'):
                snaps[n] = self.rr.read_snapshot(self.key, d)
                digests += snaps[n]['chunks']
        self.names, self.loc, self.obj = [], {}, {}
        plains = {}
        for n, d in objs.items():
            if n.startswith('data/'):
                loc, obj, dg = self.lifter.lift_chunk(n, d, digests)
                plains[dg] = self.rr.read_chunk(self.key, d, dg)
                self.names.append(n); self.loc[n] = loc; self.obj[n] = obj
        self.parsed = {}
        for n, d in objs.items():
            if n.startswith('snapshots/'):
                loc, obj, parsed = self.lifter.lift_snapshot(n, d, plains)
                self.names.append(n); self.obj[n] = obj; self.parsed[n] = parsed
        self.index = {n: i for i, n in enumerate(self.names)}
        # independent restore = the originals (cross-check of the reader itself)
        self.reader_ok = all(self.rr.restore_files(self.key, objs, self.parsed[s['location']]) ==
                             {p: unb64(d) for p, d in s['files'].items()} for s in repo['snapshots'])
        self.garbage = 9000

    def fresh(self):
        self.garbage += 1
        return self.garbage

    def o(self, n):
        return f'O{self.index[n]}'

    def l(self, n):
        return f'L{self.index[n]}'

    def header(self):
        lines = ['From Coq Require Import List NArith Bool.', 'From Replicat Require Import Model.Crypto Model.Objects.',
                 'Import ListNotations.', 'Local Open Scope N_scope.', 'Set Printing Depth 1000000.']
        if self.rr.encrypted:
            lines.append('Definition md : mode := Some {| k_shared := Bytes 1; k_salt := Bytes 2; k_mac := Bytes 3; '
                         'k_user := Kdf (Bytes 4) (Bytes 5) |}.')
        else:
            lines.append('Definition md : mode := None.')
        for n in self.names:
            i = self.index[n]
            lines.append(f'Definition O{i} : term := {refreader.coq(self.obj[n])}.')
            if n.startswith('snapshots/'):
                nt = ('Hash', f'O{i}')
                loc = ('LSnap', nt, self.lifter.mac_t(nt))
            else:
                loc = self.loc[n]
            lines.append(f'Definition L{i} : loc := {refreader.coq(loc)}.')
        lines.append('Definition st0 : store := [' + '; '.join(f'(L{self.index[n]}, O{self.index[n]})' for n in self.names) + '].')
        return lines

    def mods_for(self, spec):
        k = spec['k']
        if k in ('flip', 'trunc', 'extend', 'splice'):
            return [(self.l(spec['o']), f'Some (Garbage {self.fresh()})')]
        if k == 'delete':
            return [(self.l(spec['o']), 'None')]
        if k == 'swap':
            return [(self.l(spec['o']), f'Some {self.o(spec["p"])}'), (self.l(spec['p']), f'Some {self.o(spec["o"])}')]
        if k == 'replay':
            return [(self.l(spec['p']), f'Some {self.o(spec["o"])}')]
        if k == 'copy':
            src, new = spec['o'], spec['new']
            if src.startswith('data/'):
                loc = f'LChunk (Garbage {self.fresh()}) (Garbage {self.fresh()})'
            elif refreader.RefReader.parse_snapshot_path(new)[0] == refreader.RefReader.parse_snapshot_path(src)[0]:
                loc = f'LSnap (Hash {self.o(src)}) (Garbage {self.fresh()})'       # same name, another tag
            else:
                loc = f'LSnap (Garbage {self.fresh()}) (Garbage {self.fresh()})'
            return [(f'({loc})', f'Some {self.o(src)}')]
        if k == 'rename':
            # the contents of o under (name of p, tag of o)
            tag = refreader.coq(self.lifter.mac_t(('Hash', self.o(spec['o']))))
            return [(f'(LSnap (Hash {self.o(spec["p"])}) ({tag}))', f'Some {self.o(spec["o"])}')]
        raise ValueError(k)

    def model_file(self, cases):
        lines = self.header()
        items = []
        for c in cases:
            mods = [m for spec in c['specs'] for m in self.mods_for(spec)]
            tgt = f'Hash {self.o(c["target_loc"])}'
            late = 'true' if c.get('mode') == 'late' else 'false'
            items.append(f'  ({late}, [' + '; '.join(f'({l}, {t})' for l, t in mods) + f'], {tgt})')
        lines.append('Definition cases : list (bool * list (loc * option term) * term) := [')
        lines.append(';\n'.join(items))
        lines.append('].')
        lines.append("(* late = the damage happens after the listing was taken: the listing is the honest store's *)")
        lines.append("Eval vm_compute in map (fun c : bool * list (loc * option term) * term => let '(late, mods, tgt) := c in let st := apply_mods st0 mods in "
                     'summary (restore_listed intended md (snapshot_locs (if late then st0 else st)) st tgt)) cases.')
        return '\n'.join(lines) + '\n'

    def concretise(self, files):
        """model output [(path atom, [(chunk atom, s, e)])] -> {path: bytes}; first occurrence of a path wins"""
        out = {}
        for pid, parts in files:
            path = self.lifter.atoms.value('path', pid)
            if path in out:
                continue
            out[path] = b''.join(self.lifter.plain[c][s:e] for c, s, e in parts)
        return out


def run_model(lifted, cases, per_file=250):
    jobs = []
    for i in range(0, len(cases), per_file):
        jobs.append((f'c04_{lifted.repo["rid"]}_{i // per_file}', lifted.model_file(cases[i:i + per_file])))
    res = core.coq_eval_files(jobs)
    out = []
    for name, _ in jobs:
        rc, text = res[name]
        if rc != 0:
            return None, text[-1500:]
        vals = core.parse_coq_values(text)
        out += core.parse_coq_term(vals[-1])
    return out, ''


# --------------------------------------------------------------------------- case generation
def gen_cases(rng, repo, n_sampled, n_pairs):
    orig = {n: unb64(d) for n, d in repo['objects'].items()}
    chunks = sorted(n for n in orig if n.startswith('data/'))
    snaps = sorted(n for n in orig if n.startswith('snapshots/'))
    by_loc = {s['location']: s for s in repo['snapshots']}
    singles = []
    for n in chunks + snaps:
        same = [x for x in (chunks if n.startswith('data/') else snaps) if x != n]
        other = snaps if n.startswith('data/') else chunks
        singles += kinds_for(rng, repo, n, orig[n], same, other, n_sampled)
    cases = []
    targets = [s['location'] for s in repo['snapshots']]
    for i, spec in enumerate(singles):
        # every single corruption against one snapshot (alternating); a third of them also against the other one
        t = targets[i % 2]
        cases.append({'specs': [spec], 'target_loc': t, 'target': by_loc[t]['name']})
        if i % 3 == 0:
            t2 = targets[(i + 1) % 2]
            cases.append({'specs': [spec], 'target_loc': t2, 'target': by_loc[t2]['name']})
    for _ in range(n_pairs):
        for _try in range(20):
            a, b = rng.sample(singles, 2)
            if not (touched(a) & touched(b)) and not ({a['o'], a.get('p')} & touched(b)) and not ({b['o'], b.get('p')} & touched(a)):
                break
        else:
            continue
        t = rng.choice(targets)
        cases.append({'specs': [a, b], 'target_loc': t, 'target': by_loc[t]['name']})
    for spec in singles:
        if spec['k'] == 'rename':
            t = spec['p']
            cases.append({'specs': [spec], 'target_loc': t, 'target': by_loc[t]['name']})
            cases.append({'specs': [{'k': 'delete', 'o': t}, spec], 'target_loc': t, 'target': by_loc[t]['name'], 'oracle_only': False})
    # an UNFILTERED restore needs the newest snapshot: damage to that object must not silently yield the older versions
    newest = targets[-1]
    for spec in singles:
        # (a REMOVED snapshot object is indistinguishable from a snapshot never taken: the restore does not need it)
        if (spec.get('o') == newest or spec.get('p') == newest) and not kind_of({'specs': [spec]}).startswith('delete'):
            cases.append({'specs': [spec], 'target_loc': newest, 'target': None, 'oracle_only': True})
    # every damage to a snapshot object (and a quarter of the damages to chunks) also
    #   'twice': the same command run twice over one initially empty cache directory (both runs are judged), and
    #   'late' : applied between the listing and the downloads (the object WAS listed: a successful restore owes every file)
    extra = []
    for i, c in enumerate(cases):
        if len(c['specs']) != 1:
            continue
        spec = c['specs'][0]
        on_snapshot = any(str(spec.get(k, '')).startswith('snapshots/') for k in ('o', 'p', 'new'))
        if on_snapshot or i % 4 == 0:
            extra.append(dict(c, mode='twice'))
            extra.append(dict(c, mode='late'))
        #   'again': restore, THEN the damage, then the same restore again on ONE long-lived Repository object
        if on_snapshot or i % 3 == 0:
            extra.append(dict(c, mode='again'))
        #   'badcache': the cache directory holds an empty / truncated / foreign copy of every snapshot object
        if on_snapshot or i % 6 == 0:
            extra.append(dict(c, mode='badcache'))
    for t in targets:       # removal after the listing, by name and unfiltered
        extra.append({'specs': [{'k': 'delete', 'o': t}], 'target_loc': t, 'target': by_loc[t]['name'], 'mode': 'late'})
    extra.append({'specs': [{'k': 'delete', 'o': newest}], 'target_loc': newest, 'target': None, 'oracle_only': True, 'mode': 'late'})
    return cases + extra


def config_cases(rng, repo, n):
    """damage to the config object: oracle only (no model prediction)"""
    data = unb64(repo['objects']['config'])
    out = []
    tgt = repo['snapshots'][1]
    for _ in range(n):
        out.append({'specs': [{'k': 'flip', 'o': 'config', 'off': rng.randrange(len(data)), 'bit': rng.randrange(8)}],
                    'target_loc': tgt['location'], 'target': tgt['name'], 'oracle_only': True})
    out.append({'specs': [{'k': 'trunc', 'o': 'config', 'len': len(data) - 1}], 'target_loc': tgt['location'], 'target': tgt['name'], 'oracle_only': True})
    return out


def self_backup_repo(rng, scratch, rid, cipher):
    """A repository that contains a backup of one of its own snapshot ciphertexts.  The chunk table of a snapshot is
    encrypted under FastKdf(SharedKey, Hash(data ciphertext)) - the very key a CHUNK whose contents are that data
    ciphertext gets - so the table ciphertext authenticates when stored as that chunk; only the re-hash of the
    plaintext rejects it.  Oracle-only case (the symbolic lifting does not identify a file's bytes with a ciphertext)."""
    src = Path(scratch) / f'src-{rid}'
    be = MemBackend()
    pw = b'self backup ' + str(rid).encode()
    cl = repolab.Client(be, password=pw)
    assert cl.init(repolab.settings_for(cipher, chunking={'min_length': 8192, 'max_length': 16384})).ok
    files1 = repolab.make_tree(rng, src / 'a', 2, maxlen=300)
    s1 = cl.snapshot([src / 'a'])
    assert s1.ok, s1.detail
    rr = refreader.RefReader(be.objects['config'])
    key = rr.open_key(cl.key, pw)
    body = refreader.parse_json(be.objects[s1.value.location])
    ed, table_ct = body['data'], body['chunks']
    (src / 'b').mkdir(parents=True)
    x = src / 'b' / 'copy-of-snapshot-data.bin'
    x.write_bytes(ed)
    s2 = cl.snapshot([src / 'b'])
    assert s2.ok, s2.detail
    loc = rr.chunk_path(key, rr.hash(ed))
    shutil.rmtree(src, ignore_errors=True)
    if loc not in be.objects:
        return None, None
    repo = {'rid': rid, 'cipher': list(cipher), 'hashing': None, 'backend': 'mem', 'password': b64(pw), 'key': b64(cl.key),
            'objects': {n: b64(d) for n, d in sorted(be.objects.items())},
            'snapshots': [{'name': s1.value.name, 'location': s1.value.location, 'files': {p: b64(d) for p, d in files1.items()}},
                          {'name': s2.value.name, 'location': s2.value.location, 'files': {str(x.resolve()): b64(ed)}}]}
    case = {'specs': [{'k': 'put', 'o': loc, 'data': b64(table_ct)}], 'target_loc': s2.value.location, 'target': s2.value.name, 'oracle_only': True}
    return repo, case


# --------------------------------------------------------------------------- comparison
def expected_tree(snapshot):
    return {repolab.restored_rel(p): unb64(d) for p, d in snapshot['files'].items()}


def kind_of(case):
    return '+'.join(s['k'] + ('-snap' if s['o'].startswith('snapshots/') else '-cfg' if s['o'] == 'config' else '-chunk') for s in case['specs'])


def replay_obj(repo, case):
    return {'repo': repo, 'case': case}


def check_repo(ctx, rep: Report, repo, cases, with_model=True):
    by_loc = {s['location']: s for s in repo['snapshots']}
    mode = repo['cipher'][0] if repo['cipher'] else 'none'
    impl = run_impl_cases(ctx, repo, cases)
    lifted = None
    model = None
    if with_model:
        try:
            lifted = Lifted(repo)
            if not lifted.reader_ok:
                rep.disagreements.append({'what': 'the independent reader does not reproduce the original files from the honest repository',
                                          'replay': {'repo': repo['rid']}})
            mcases = [c for c in cases if not c.get('oracle_only')]
            model, err = run_model(lifted, mcases)
            if model is None:
                rep.disagreements.append({'what': 'the model could not be evaluated: ' + err, 'replay': None})
        except Exception as e:  # lifting failed: the written format is not what the reader expects
            rep.disagreements.append({'what': f'lifting the honest repository failed: {type(e).__name__}: {e}', 'replay': {'repo': repo['rid']}})
            model = None
    mi = 0
    for case, r in zip(cases, impl):
        snap = by_loc[case['target_loc']]
        want = expected_tree(snap)
        kind = kind_of(case)
        rep.count('kind:' + kind if len(case['specs']) == 1 else 'kind:pair')
        rep.count(f'mode:{mode}/{repo["backend"]}')
        rep.count('impl:' + r['cls'])
        m = None
        if model is not None and not case.get('oracle_only'):
            m = model[mi]
            mi += 1
        nontrivial = (m is not None and m[0] != 0) or (m is None and r['cls'] != 'Ok')
        rep.case((repo['rid'], json.dumps(case['specs'], sort_keys=True), case['target'], case.get('mode')), nontrivial=nontrivial)
        rep.sample({'repository': f'{mode}/{repo["backend"]}',
                    'corruption': [{k: (v[:28] + '...' if isinstance(v, str) and len(v) > 31 else v) for k, v in sp.items()} for sp in case['specs']],
                    'restore': (case['target'][:16] + '...') if case['target'] else 'unfiltered (newest version of every path)',
                    'implementation': r['cls'], 'model': ERR_CODE[m[0]] if m is not None else None})
        variant = case.get('mode')
        if variant:
            rep.count('variant:' + variant)
        runs = [('', r)] + ([(' - SECOND run of the same command over the cache directory the first run left behind', r['second'])] if 'second' in r else [])
        when = ' applied between the listing and the downloads' if variant == 'late' else \
            (' applied after a first restore by the same long-lived Repository object' if variant == 'again' else
             ' with a cache directory that holds an empty / truncated / foreign copy of every snapshot object' if variant == 'badcache' else '')
        if variant == 'again' and not r.get('first_ok'):
            rep.disagreements.append({'what': f'[{kind}] {mode}: the restore from the honest repository failed ({r["detail"][:120]})', 'replay': replay_obj(repo, case)})
            continue
        violated = False
        for which, rr in runs:
            # ---- C: the oracle
            if rr['cls'] == 'Ok':
                tree = rr['tree']
                bad = [p for p, (ln, sh) in tree.items() if p not in want or hashlib.sha256(want[p]).hexdigest() != sh]
                # a snapshot that was listed is needed: success owes every file (an object removed BEFORE the listing is
                # indistinguishable from a snapshot never taken)
                listed = variant == 'late' and snap['location'] in repo['objects']
                lost = [p for p in want if p not in tree] if (rr['reported'] or listed) else []
                if bad or lost:
                    rep.violations.append({
                        'what': f'restore returned normally after [{kind}]{when} in a {mode} repository but {len(bad)} restored file(s) differ from the '
                                f'original and {len(lost)} are missing{which}',
                        'signature': {'kind': kind, 'mode': mode, 'variant': variant}, 'replay': replay_obj(repo, case)})
                    violated = True
                    break
            # ---- B2: model vs implementation (the model has no cache: both runs must behave as predicted)
            if m is None:
                continue
            rep.traces_validated += 1
            mcls = ERR_CODE[m[0]]
            single = len(case['specs']) == 1
            agree = (mcls == rr['cls']) if single else ((mcls == 'Ok') == (rr['cls'] == 'Ok'))
            if agree and mcls == 'Ok':
                pred = {repolab.restored_rel(p): d for p, d in lifted.concretise(m[1]).items()}
                got = rr['tree']
                if {p: hashlib.sha256(d).hexdigest() for p, d in pred.items()} != {p: sh for p, (ln, sh) in got.items()}:
                    agree = False
            if not agree:
                rep.disagreements.append({'what': f'[{kind}]{when} {mode}: model predicts {mcls}, implementation {rr["cls"]} ({rr["detail"][:120]}){which}',
                                          'replay': replay_obj(repo, case)})
                break
        if violated:
            continue


# --------------------------------------------------------------------------- entry points
def try_build(rep, fn, *args):
    try:
        return fn(*args)
    except Exception as e:  # an honest init/snapshot failed on the implementation
        rep.disagreements.append({'what': f'the honest repository could not be built on the implementation: {type(e).__name__}: {str(e)[:300]}',
                                  'replay': {'args': [repr(a)[:60] for a in args[2:]]}})
        return None


def scenarios(ctx):
    quick = [(None, None, 'mem'), (('aes_gcm', None), None, 'mem'), (('chacha20_poly1305', None), None, 'mem'),
             (('aes_gcm', 128), {'name': 'sha2', 'bits': 256}, 'local')]
    if ctx.tier == 'thorough' or ctx.deep:
        quick += [(None, {'name': 'sha3', 'bits': 224}, 'local'), (('aes_gcm', 192), {'name': 'blake2b', 'length': 32}, 'mem'),
                  (('chacha20_poly1305', None), {'name': 'sha3', 'bits': 512}, 'mem'), (None, {'name': 'sha2', 'bits': 512}, 'mem'),
                  (('aes_gcm', 256), {'name': 'sha2', 'bits': 384}, 'mem')]
    return quick


CLI_MINE = ('silent_corruption', 'hang', 'exception')


def cli_probes(ctx, rep):
    """process level: damaged repositories on disk restored by fresh `python -m replicat` processes - the EXIT STATUS is what a user
    or a script sees; objects larger than any internal block size; a failing restore must end"""
    from harness import cli_hist
    cli_hist.run_scenarios(ctx, rep, {'corrupt': ctx.scale(5, 40)}, CLI_MINE)
    import random as _r
    from pathlib import Path as _P
    rep.case(('large-object-corruption',), nontrivial=True)
    rep.violations.extend(cli_hist.large_object_corruption(_P(ctx.scratch) / 'large', _r.Random(ctx.rng.randint(0, 2 ** 31))))
    cli_hist.termination_probe(ctx, rep, {'restore'})


def run(ctx) -> Report:
    rep = Report(rule=RULE)
    for rid, (cipher, hashing, backend) in enumerate(scenarios(ctx)):
        repo = try_build(rep, build_repo, ctx.rng, ctx.scratch, rid, cipher, hashing, backend)
        if repo is None:
            continue
        small = backend == 'local' and ctx.tier == 'quick'
        cases = gen_cases(ctx.rng, repo, n_sampled=ctx.scale(1, 6), n_pairs=ctx.scale(40 if small else 120, 600))
        if small:
            cases = cases[::3]
        cases += config_cases(ctx.rng, repo, ctx.scale(6, 40))
        check_repo(ctx, rep, repo, cases)
    for j, cipher in enumerate([('aes_gcm', None), ('chacha20_poly1305', None)]):
        repo, case = try_build(rep, self_backup_repo, ctx.rng, ctx.scratch, 50 + j, cipher) or (None, None)
        if repo is not None:
            check_repo(ctx, rep, repo, [case], with_model=False)
    cli_probes(ctx, rep)
    return rep


def search(ctx, broken) -> Report:
    """large oracle-only search when a proof / tie / correspondence broke"""
    rep = Report(rule=RULE)
    seeds = [b['case'] for b in broken if isinstance(b.get('case'), dict) and 'case' in b['case']]
    for s in seeds[:20]:
        check_repo(ctx, rep, s['repo'], [s['case']], with_model=False)
    base = 100
    for rid, (cipher, hashing, backend) in enumerate(scenarios(ctx) * 2):
        repo = try_build(rep, build_repo, ctx.rng, ctx.scratch, base + rid, cipher, hashing, backend)
        if repo is None:
            continue
        cases = gen_cases(ctx.rng, repo, n_sampled=8, n_pairs=500) + config_cases(ctx.rng, repo, 30)
        check_repo(ctx, rep, repo, cases, with_model=False)
    from harness import cli_hist
    cli_hist.run_scenarios(ctx, rep, {'corrupt': 30}, CLI_MINE)
    return rep


def replay(ctx, obj):
    from harness import cli_hist
    rc = cli_hist.replay_cli(ctx, obj, CLI_MINE)
    if rc is not None:
        return rc
    r = obj.get('replay') or {}
    if 'repo' not in r or 'case' not in r:
        print('replay file does not carry a corruption case:', obj.get('kind'))
        for b in obj.get('broken', []):
            print(' broken:', b.get('what'))
        return 0
    rep = Report(rule=RULE)
    check_repo(ctx, rep, r['repo'], [r['case']])
    for v in rep.violations:
        print('VIOLATION-REPRODUCED', v['what'])
    for d in rep.disagreements:
        print('DISAGREEMENT-REPRODUCED', d['what'])
    return 1 if rep.violations or rep.disagreements else 0


if __name__ == '__main__':
    if sys.argv[1:] == ['worker']:
        worker_main()
