"""In-memory object store backends for the harness (plain and coroutine flavours), with optional
rng-driven latencies so that completion order of concurrent calls varies with the seed, and a log
of mutations."""
import asyncio
import time
from replicat.backends.base import Backend


class MemBackend(Backend):
    """Plain (thread-pool) flavour."""

    def __init__(self, rng=None, max_delay=0.0):
        self.objects = {}
        self.log = []          # ('put'|'del', name)
        self.calls = []        # (method, name)
        self.rng = rng
        self.max_delay = max_delay

    def _delay(self):
        if self.rng is not None and self.max_delay:
            time.sleep(self.rng.random() * self.max_delay)

    def exists(self, name):
        self.calls.append(('exists', name)); self._delay()
        return name in self.objects

    def upload(self, name, data):
        self.calls.append(('upload', name)); self._delay()
        self.objects[name] = bytes(data); self.log.append(('put', name))

    def upload_stream(self, name, stream, length, chunk_size=128_000):
        self.calls.append(('upload_stream', name)); self._delay()
        buf = bytearray()
        while True:
            piece = stream.read(chunk_size)
            if not piece:
                break
            buf += piece
        assert len(buf) == length, (len(buf), length)
        self.objects[name] = bytes(buf); self.log.append(('put', name))

    def download(self, name):
        self.calls.append(('download', name)); self._delay()
        return self.objects[name]

    def download_stream(self, name, stream, chunk_size=128_000):
        self.calls.append(('download_stream', name)); self._delay()
        data = self.objects[name]
        stream.truncate(len(data))
        for i in range(0, len(data), chunk_size):
            stream.write(data[i:i + chunk_size])

    def list_files(self, prefix=''):
        self.calls.append(('list_files', prefix))
        return sorted(n for n in self.objects if n.startswith(prefix))

    def delete(self, name):
        self.calls.append(('delete', name)); self._delay()
        if self.objects.pop(name, None) is not None:
            self.log.append(('del', name))


class AsyncMemBackend(Backend):
    """Coroutine flavour: every call runs on the event loop."""

    def __init__(self, rng=None, max_delay=0.0):
        self.objects = {}
        self.log = []
        self.calls = []
        self.rng = rng
        self.max_delay = max_delay

    async def _delay(self):
        if self.rng is not None and self.max_delay:
            await asyncio.sleep(self.rng.random() * self.max_delay)
        else:
            await asyncio.sleep(0)

    async def exists(self, name):
        self.calls.append(('exists', name)); await self._delay()
        return name in self.objects

    async def upload(self, name, data):
        self.calls.append(('upload', name)); await self._delay()
        self.objects[name] = bytes(data); self.log.append(('put', name))

    async def upload_stream(self, name, stream, length, chunk_size=128_000):
        self.calls.append(('upload_stream', name)); await self._delay()
        buf = bytearray()
        while True:
            piece = stream.read(chunk_size)
            if not piece:
                break
            buf += piece
        assert len(buf) == length, (len(buf), length)
        self.objects[name] = bytes(buf); self.log.append(('put', name))

    async def download(self, name):
        self.calls.append(('download', name)); await self._delay()
        return self.objects[name]

    async def download_stream(self, name, stream, chunk_size=128_000):
        self.calls.append(('download_stream', name)); await self._delay()
        data = self.objects[name]
        stream.truncate(len(data))
        for i in range(0, len(data), chunk_size):
            stream.write(data[i:i + chunk_size])

    async def list_files(self, prefix=''):
        self.calls.append(('list_files', prefix))
        for n in sorted(n for n in self.objects if n.startswith(prefix)):
            yield n

    async def delete(self, name):
        self.calls.append(('delete', name)); await self._delay()
        if self.objects.pop(name, None) is not None:
            self.log.append(('del', name))
