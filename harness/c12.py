"""C12 - transient faults are masked, persistent ones end in a bounded error.
Fault enumeration on the real adapters: local (fault-injected Path / shutil / tempfile / os entry points), S3Compatible
and B2 (fault plans in the fake services): every fault position x kind x run length 1..max_tries+1 for payloads of
0, 1, chunk-1, chunk, chunk+1, 3*chunk bytes, with the progress and rate-limit wrappers in place as repository.py uses
them; back-off sleeps are virtual.  Outcome class, number of tries, number of re-authentications, final object, final
stream state are compared with the Coq model (Model/Retry.v, evaluated by vm_compute) and checked by a model-free oracle.
DESIGN.md section 4 C12, design/C12.md."""
from __future__ import annotations

import asyncio
import contextlib
import errno
import io
import os
import pathlib
import shutil
from pathlib import Path

from harness import core
from harness.core import Report
from harness import fakes_http as fk

NAME = 'data/ab/obj'
HARD_CAP = 120          # requests / calls: more than this for one operation = unbounded retrying
STREAM_METHODS = ('upload_stream', 'download_stream')


DEFAULT_BUDGETS = {'local_max_tries': 5, 's3_max_tries': 4, 'b2_max_tries': 4, 'max_reauth': 3}


def facts():
    """Budgets and structural facts read off the source; if the source no longer has the expected shape
    (the translated tie is broken and reported as such) the documented budgets are used for the search."""
    from translate import units_c12
    try:
        return units_c12.collect()
    except Exception as e:      # noqa
        core.log(f'C12: source facts not available ({type(e).__name__}: {e}); using the documented budgets')
        return dict(DEFAULT_BUDGETS)


def payload(n, salt=0):
    return bytes((i * 7 + 3 + salt) % 251 for i in range(n))


def nchunks(n, c):
    return (n + c - 1) // c


# --------------------------------------------------------------------------- wrappers as repository.py uses them
def wrap_reader(stream, length):
    from replicat import utils
    limited = utils.RateLimitedIO(10 ** 12).wrap(stream)
    return utils.TQDMIOReader(limited, desc='chunk', total=length, position=0, disable=True), limited


def wrap_writer(stream):
    from replicat import utils
    limited = utils.RateLimitedIO(10 ** 12).wrap(stream)
    return utils.TQDMIOWriter(limited, desc='chunk', total=None, position=0, disable=True), limited


def exc_class(e):
    import httpx
    if isinstance(e, httpx.HTTPStatusError):
        return f'HTTPStatusError:{e.response.status_code}'
    return type(e).__name__


# --------------------------------------------------------------------------- model mapping
KIND = {'drop': 'KTransport', 'drop_body': 'KTransport', '500': 'K5xx', '503': 'K5xx', '500_after': 'K5xx', '429': 'K429',
        '401': 'K401', 'expire': 'K401', '403': 'K403', 'oserror': 'KOs', 'drop_after': 'KTransport', '408': 'K5xx',
        # B2 faults that stick to one upload URL / token pair: a client that asks for a fresh pair per try meets them once
        'expire_upload_tokens': 'K401', 'sick_pod': 'K5xx'}
FL = {'local': 'FlLocal', 's3c': 'FlS3', 'b2': 'FlB2'}


def model_fault(case, f):
    """Coq record for one fault of the case."""
    upload = case['method'] in ('upload', 'upload_stream')
    kind = f['kind']
    if case['backend'] == 'local':
        before = f['target'] in ('mkdir', 'mktemp', 'open', 'read', 'unlink', 'write')
        after = f.get('after', 0) if f['target'] == 'copy' else (10 ** 3 if f['target'] == 'replace' else 0)
        applied = False
    elif upload:
        before = kind == 'drop'
        after = f.get('after', 0) if kind == 'drop_body' else 10 ** 3
        applied = kind in ('500_after', 'drop_after')
    else:
        before = kind != 'drop_body'
        after = f.get('after', 0)
        applied = kind == '500_after'
    return ('{| f_before := %s; f_after := %d; f_kind := %s; f_applied := %s |}'
            % ('true' if before else 'false', after, KIND[kind], 'true' if applied else 'false'))


MODEL_HEADER = '''From Coq Require Import List NArith Bool Arith.
From Replicat Require Import Model.Store Model.Retry Proofs.RetryProofs Proofs.RetryInstances.
From Replicat Require Gen.C12Facts.
Import ListNotations.
Definition res_code {R} (r : result R) : nat := match r with ROk _ => 0 | RError _ => 1 | RAuthRequired => 2 end.
Definition ucase (fl : flavour) (c : nat) (data : bytes) (old : option bytes) (fs : list (option fault)) :=
  let '(r, s, cnt, a) := run_method fl (up_attempt (up_facts fl) (uses_temp fl) c) (mt fl) C12Facts.max_reauth fs (ustart data old) in
  (res_code r, spos (u_src s), u_obj s, u_temps s, cnt, a).
Definition dcase (fl : flavour) (c : nat) (init D : bytes) (fs : list (option fault)) :=
  let '(r, s, cnt, a) := run_method fl (down_attempt (down_facts fl) c) (mt fl) C12Facts.max_reauth fs (dstart init D) in
  (res_code r, spos (d_dst s), sdata (d_dst s), 0, cnt, a).
'''


def model_line(case):
    fl = FL[case['backend']]
    fs = '[' + '; '.join('Some ' + model_fault(case, f) for f in case['faults']) + ']'
    data = core.coq_bytes(payload(case['size'])).replace('%N', '') + '%N'
    c = max(1, case['chunk'])
    if case['method'] == 'download_stream':
        init = core.coq_bytes(payload(case.get('init', 0), 9)).replace('%N', '') + '%N'
        return f'dcase {fl} {c} {init} {data} {fs}'
    if case['method'] in ('upload', 'upload_stream'):
        old = ('(Some ' + core.coq_bytes(payload(3, 5)).replace('%N', '') + '%N)') if case.get('old') else 'None'
        return f'ucase {fl} {c} {data} {old} {fs}'
    # requests without a transfer (exists, download, delete, list): only the retry behaviour is compared
    return f'ucase {fl} 1 [] None {fs}'


def run_model(cases, per_file=400):
    jobs = []
    for i in range(0, len(cases), per_file):
        lines = [MODEL_HEADER]
        for c in cases[i:i + per_file]:
            lines.append(f'Eval vm_compute in {model_line(c)}.')
        jobs.append((f'c12_{i // per_file}', '\n'.join(lines) + '\n'))
    res = core.coq_eval_files(jobs)
    out = []
    for name, _ in jobs:
        rc, text = res[name]
        if rc != 0:
            return None, text[-1500:]
        for v in core.parse_coq_values(text):
            code, pos, obj, temps, cnt, auths = _flatten(core.parse_coq_term(v))
            out.append({'class': ('ok', 'error', 'auth')[code], 'pos': pos, 'obj': obj, 'temps': temps, 'tries': cnt, 'auths': auths})
    return out, ''


def _flatten(t):
    # ((((a, b), c), d), e) printed by Coq as (a, b, c, d, e): parse_coq_term already gives a flat tuple
    return t


# --------------------------------------------------------------------------- S3 / B2 execution
OLD = payload(3, 5)
PRIMARY = {('s3c', 'upload'): 'PUT', ('s3c', 'upload_stream'): 'PUT', ('s3c', 'download'): 'GET', ('s3c', 'download_stream'): 'GET',
           ('s3c', 'exists'): 'HEAD', ('s3c', 'delete'): 'DELETE', ('s3c', 'list'): 'LIST',
           ('b2', 'upload'): 'upload', ('b2', 'upload_stream'): 'upload', ('b2', 'download'): 'download', ('b2', 'download_stream'): 'download',
           ('b2', 'exists'): 'head', ('b2', 'delete'): 'hide_file', ('b2', 'list'): 'list_file_names'}

_LOOP = None


def sync(coro):
    global _LOOP
    if _LOOP is None or _LOOP.is_closed():
        _LOOP = asyncio.new_event_loop()
    return _LOOP.run_until_complete(coro)


async def _call(backend, case, data):
    """Run the method of the case; returns dict(outcome=..., pos=..., content=...)."""
    m, c = case['method'], case['chunk']
    res = {'pos': None, 'content': None, 'value': None}
    inner = None
    try:
        if m == 'upload':
            await backend.upload(NAME, data)
        elif m == 'upload_stream':
            inner = io.BytesIO(data)
            w, lim = wrap_reader(inner, len(data))
            with w:
                await backend.upload_stream(NAME, w, len(data), c)
            res['pos'] = inner.tell()
        elif m == 'download':
            res['value'] = bytes(await backend.download(NAME))
        elif m == 'download_stream':
            inner = io.BytesIO(payload(case.get('init', 0), 9))
            w, lim = wrap_writer(inner)
            with w:
                await backend.download_stream(NAME, w, c)
            res['pos'] = inner.tell()
            res['content'] = inner.getvalue()
        elif m == 'exists':
            res['value'] = await backend.exists(NAME)
        elif m == 'delete':
            await backend.delete(NAME)
        elif m == 'list':
            res['value'] = sorted([x async for x in backend.list_files('data/')])
        res['outcome'] = 'ok'
    except BaseException as e:      # noqa: RecursionError / cap exceeded are results to judge
        res['outcome'] = 'error:' + exc_class(e)
        if inner is not None:
            res['pos'] = inner.tell()
            res['content'] = inner.getvalue() if m == 'download_stream' else None
    return res


async def _prelude(backend, case):
    """Operations of the same client that precede the faulted one (no fault armed): they warm whatever the adapter
    keeps between calls (authorisation, bucket, upload URL, directories)."""
    last = None
    for i, pm in enumerate(case.get('prelude', [])):
        name = f'data/pre/p{i}'
        data = payload(3 + i, 11 + i)
        if pm == 'upload':
            await backend.upload(name, data); last = name
        elif pm == 'upload_stream':
            inner = io.BytesIO(data)
            w, _ = wrap_reader(inner, len(data))
            with w:
                await backend.upload_stream(name, w, len(data), case['chunk'])
            last = name
        elif pm == 'download' and last is not None:
            await backend.download(last)
        elif pm == 'list':
            [x async for x in backend.list_files('data/pre/')]
        elif pm == 'delete' and last is not None:
            await backend.delete(last); last = None


def run_http(case):
    backend_kind, m = case['backend'], case['method']
    data = payload(case['size'])
    piece = case.get('piece') or case['chunk']
    if backend_kind == 's3c':
        from replicat.backends import s3c
        svc = fk.FakeS3('bkt', page_size=1000, piece=piece, max_requests=HARD_CAP)
        with fk.patched_async_client(svc.handler):
            b = s3c.S3Compatible('bkt', key_id='AKIDEXAMPLE', access_key='secret', region='us-east-1', host='s3.fake.test')
        store = svc.objects
    else:
        from replicat.backends import b2
        svc = fk.FakeB2('bkt', page_size=1000, piece=piece, max_requests=HARD_CAP)
        with fk.patched_async_client(svc.handler):
            b = b2.B2('bkt', key_id='kid', application_key='appkey')
        store = None
    # the object exists for reads and for delete (unless the case says it is absent)
    download = m in ('download', 'download_stream', 'exists', 'list') or (m == 'delete' and not case.get('absent'))
    if backend_kind == 's3c':
        if download or case.get('old'):
            svc.objects[NAME] = data if download else OLD
    else:
        if download or case.get('old'):
            svc.versions[NAME] = [('upload', data if download else OLD)]
        sync(b.exists('warm-up'))          # authorize + bucket lookup happen before the faults are armed
    try:
        sync(_prelude(b, case))
    except Exception as e:      # noqa: the fault-free prelude must simply work
        return {'outcome': 'error:prelude:' + exc_class(e), 'pos': None, 'content': None, 'value': None, 'obj': None, 'tries': 0,
                'requests': 0, 'auths': 0, 'temps': 0, 'fired': 0}
    rules = []
    for f in case['faults']:
        r = {'op': f.get('target') or PRIMARY[(backend_kind, m)], 'kind': f['kind'], 'count': 1}
        r.update({k: f[k] for k in ('after', 'exc') if k in f})
        rules.append(r)
    if case.get('persistent'):
        rules[-1]['count'] = 10 ** 9
    svc.plan = fk.FaultPlan(rules)
    svc.log, svc.nrequests = [], 0
    svc.seconds_per_piece = case.get('seconds_per_piece', 0)
    res = sync(_call(b, case, data))
    sync(b.close())
    obj = svc.objects.get(NAME)
    res['obj'] = obj
    res['tries'] = svc.count(PRIMARY[(backend_kind, m)])
    res['requests'] = svc.nrequests
    res['auths'] = svc.count('authorize') if backend_kind == 'b2' else 0
    res['temps'] = 0
    res['fired'] = len(svc.plan.fired)
    return res


# --------------------------------------------------------------------------- several operations in flight on one client
async def _one_of_many(backend, method, name, data, chunk):
    """One of the concurrent operations; returns None if it delivered exactly the intended bytes, else what went wrong."""
    try:
        if method == 'upload':
            await backend.upload(name, data)
        elif method == 'upload_stream':
            inner = io.BytesIO(data)
            w, _ = wrap_reader(inner, len(data))
            with w:
                await backend.upload_stream(name, w, len(data), chunk)
            if inner.tell() != len(data):
                return f'{method}({name}): stream left at {inner.tell()} of {len(data)}'
        elif method == 'download':
            got = bytes(await backend.download(name))
            if got != data:
                return f'{method}({name}): returned {got!r} instead of {data!r}'
        elif method == 'download_stream':
            inner = io.BytesIO()
            w, _ = wrap_writer(inner)
            with w:
                await backend.download_stream(name, w, chunk)
            if inner.getvalue() != data or inner.tell() != len(data):
                return f'{method}({name}): stream holds {inner.getvalue()!r} at {inner.tell()}, object is {data!r}'
        elif method == 'exists':
            if await backend.exists(name) is not True:
                return f'{method}({name}): False for an existing object'
        elif method == 'delete':
            await backend.delete(name)
        elif method == 'list':
            got = [x async for x in backend.list_files(name)]
            if got != [name]:
                return f'{method}({name}): {got}'
    except Exception as e:      # noqa
        return f'{method}({name}): {exc_class(e)}'
    return None


def run_concurrent(case):
    """The operations of case['concurrent'] are started together on ONE client (asyncio.gather) while the fault plan
    applies to whichever request comes first ('*'); the account authorisation may be slow (authorize_delay turns)."""
    backend_kind = case['backend']
    c = case['chunk']
    if backend_kind == 's3c':
        from replicat.backends import s3c
        svc = fk.FakeS3('bkt', page_size=1000, piece=c, max_requests=HARD_CAP * 4)
        with fk.patched_async_client(svc.handler):
            b = s3c.S3Compatible('bkt', key_id='AKIDEXAMPLE', access_key='secret', region='us-east-1', host='s3.fake.test')
    else:
        from replicat.backends import b2
        svc = fk.FakeB2('bkt', page_size=1000, piece=c, max_requests=HARD_CAP * 4)
        with fk.patched_async_client(svc.handler):
            b = b2.B2('bkt', key_id='kid', application_key='appkey')
        sync(b.exists('warm-up'))
        svc.authorize_delay = case.get('authorize_delay', 0)
    jobs = []
    for i, m in enumerate(case['concurrent']):
        name, data = f'data/cc/o{i}', payload(case['size'] + i, 20 + i)
        if m in ('download', 'download_stream', 'exists', 'delete', 'list'):
            if backend_kind == 's3c':
                svc.objects[name] = data
            else:
                svc.versions[name] = [('upload', data)]
        jobs.append((m, name, data))
    rules = []
    for f in case['faults']:
        r = {'op': f.get('target', '*'), 'kind': f['kind'], 'count': 1}
        r.update({k: f[k] for k in ('after', 'skip') if k in f})
        rules.append(r)
    svc.plan = fk.FaultPlan(rules)
    svc.log, svc.nrequests = [], 0

    async def all_of_them():
        return await asyncio.gather(*[_one_of_many(b, m, name, data, c) for m, name, data in jobs])
    try:
        problems = [p for p in sync(all_of_them()) if p]
    except BaseException as e:      # noqa: cap exceeded / recursion
        problems = [f'aborted: {exc_class(e)}']
    sync(b.close())
    for m, name, data in jobs:
        obj = svc.objects.get(name)
        if m in ('upload', 'upload_stream') and obj != data and not problems:
            problems.append(f'{m}({name}): stored object is {obj!r}, payload {data!r}')
        if m == 'delete' and obj is not None and not problems:
            problems.append(f'delete({name}): the object is still there')
    return {'outcome': 'ok' if not problems else 'error:' + problems[0].split(': ', 1)[1].split(' ')[0], 'problems': problems,
            'pos': None, 'content': None, 'value': None, 'obj': None, 'tries': svc.nrequests, 'requests': svc.nrequests,
            'auths': svc.count('authorize'), 'temps': 0, 'fired': len(svc.plan.fired)}


def run_session(case):
    """A session: the operations of case['session'] run one after the other on ONE adapter object, each under its own
    fault plan (armed just before it).  Every operation has its own retry budget, whatever the session has seen before."""
    backend_kind = case['backend']
    c = case['chunk']
    if backend_kind == 's3c':
        from replicat.backends import s3c
        svc = fk.FakeS3('bkt', page_size=1000, piece=c, max_requests=10 ** 6)
        with fk.patched_async_client(svc.handler):
            b = s3c.S3Compatible('bkt', key_id='AKIDEXAMPLE', access_key='secret', region='us-east-1', host='s3.fake.test')
    else:
        from replicat.backends import b2
        svc = fk.FakeB2('bkt', page_size=1000, piece=c, max_requests=10 ** 6)
        with fk.patched_async_client(svc.handler):
            b = b2.B2('bkt', key_id='kid', application_key='appkey')
    problems, worst, fired = [], 0, 0
    for i, step in enumerate(case['session']):
        m = step['method']
        name, data = f'data/ss/o{i}', payload(case['size'] + i % 5, 30 + i)
        if m in ('download', 'download_stream', 'exists', 'delete', 'list'):
            if backend_kind == 's3c':
                svc.objects[name] = data
            else:
                svc.versions[name] = [('upload', data)]
        rules = []
        for f in step['faults']:
            r = {'op': f.get('target') or PRIMARY[(backend_kind, m)], 'kind': f['kind'], 'count': 1}
            r.update({k: f[k] for k in ('after', 'exc') if k in f})
            rules.append(r)
        if step.get('persistent') and rules:
            rules[-1]['count'] = 10 ** 9
        svc.plan = fk.FaultPlan(rules)
        before = svc.nrequests
        svc.max_requests = before + HARD_CAP
        try:
            p = sync(_one_of_many(b, m, name, data, c))
        except BaseException as e:      # noqa
            p = f'{m}({name}): {exc_class(e)}'
        fired += len(svc.plan.fired)
        worst = max(worst, svc.nrequests - before)
        L = len(step['faults'])
        has403 = any(x['kind'] == '403' for x in step['faults'])
        if step.get('persistent'):
            if p is None:
                problems.append(f'step {i} {m}: the fault never goes away but the operation returned normally')
            elif 'RequestCapExceeded' in p or 'RecursionError' in p:
                problems.append(f'step {i} {m}: retried without bound ({svc.nrequests - before} requests)')
        elif p is not None and L < case['budget'] and not has403:
            problems.append(f'step {i} of the session ({L} fault(s) {step["faults"][:1]} on this operation, {fired} masked so far in the session): {p}')
    sync(b.close())
    return {'outcome': 'ok' if not problems else 'error:session', 'problems': problems, 'pos': None, 'content': None, 'value': None, 'obj': None,
            'tries': svc.nrequests, 'requests': worst, 'auths': svc.count('authorize'), 'temps': 0, 'fired': fired}


def session_cases(f, rng, extra=0):
    """Long sessions on one adapter object: 6-20 operations, most of them meeting 1 .. budget-1 transient faults of one kind
    (expired token, 401, 5xx, 429, dropped connection ...), now and then a never-ending fault in between."""
    cases = []
    kinds = ('401', 'expire', '500', '503', '429', 'drop', 'drop_body', '408')
    for backend in ('b2', 's3c'):
        mt = f[{'s3c': 's3_max_tries', 'b2': 'b2_max_tries'}[backend]]
        budget = min(mt, f['max_reauth'] + 1) if backend == 'b2' else mt

        def step(i, kind, L, persistent=False):
            m = CONC_METHODS[i % len(CONC_METHODS)]
            if kind == 'expire' and backend != 'b2':
                kind = '401'
            fault = {'kind': kind}
            if kind == 'drop_body':
                if m not in ('upload', 'upload_stream', 'download', 'download_stream'):
                    fault = {'kind': 'drop'}
                else:
                    fault['after'] = 1
            n = 1 if kind == 'expire' else (max(L, 1) if persistent else L)
            if persistent and kind == 'expire':
                fault = {'kind': '401'}
            return {'method': m, 'faults': [dict(fault) for _ in range(n)], **({'persistent': True} if persistent else {})}
        # one kind all along the session, one fault per operation / budget-1 faults per operation
        for kind in kinds:
            for L in (1, budget - 1):
                cases.append({'backend': backend, 'method': 'session', 'size': 5, 'chunk': 4, 'nested': True, 'budget': budget, 'faults': [{'kind': kind}],
                              'session': [step(i, kind, L) for i in range(3 * budget + 2)]})
        # a never-ending fault in the middle must end boundedly and leave the budget of the later operations intact
        for kind in ('500', '401', '429', 'drop'):
            sess = [step(i, kind, 1) for i in range(4)] + [step(4, kind, 1, persistent=True)] + [step(i, kind, budget - 1) for i in range(5, 10)]
            cases.append({'backend': backend, 'method': 'session', 'size': 5, 'chunk': 4, 'nested': True, 'budget': budget, 'faults': [{'kind': kind}], 'session': sess})
        for _ in range(extra):
            n = rng.randint(6, 20)
            sess = [step(rng.randrange(7), rng.choice(kinds), rng.randint(0, budget - 1), persistent=rng.random() < 0.07) for _ in range(n)]
            cases.append({'backend': backend, 'method': 'session', 'size': 5, 'chunk': 4, 'nested': True, 'budget': budget, 'faults': [{'kind': 'mixed'}], 'session': sess})
    return cases


CONC_METHODS = ('upload_stream', 'download_stream', 'upload', 'download', 'delete', 'exists', 'list')


def concurrent_cases(f, rng, extra=0):
    """Several transfers share one client when the authorisation expires / a request fails: one expired token (or up to
    max_reauth stray faults) is a transient fault for every operation in flight, however slow the re-authorisation is."""
    cases = []

    def mk(backend, n, variant, faults, delay=0):
        methods = [CONC_METHODS[(i * 3 + variant + n) % len(CONC_METHODS)] for i in range(n)]
        return {'backend': backend, 'method': 'concurrent', 'concurrent': methods, 'size': 5, 'chunk': 4, 'authorize_delay': delay,
                'nested': True, 'faults': faults}
    for n in (2, 3, 6):
        for delay in (0, 2, 40):
            for skip in sorted({0, 1, n - 1, 2 * n}):
                cases.append(mk('b2', n, skip + delay, [{'kind': 'expire', 'target': '*', 'skip': skip}], delay))
        for kind in ('401', '500', '429', 'drop'):
            for count in (1, min(3, f['max_reauth'])):
                cases.append(mk('b2', n, count, [{'kind': kind, 'target': '*'} for _ in range(count)], 5))
                cases.append(mk('s3c', n, count, [{'kind': kind, 'target': '*'} for _ in range(min(count, f['s3_max_tries'] - 1))]))
    for _ in range(extra):
        n = rng.randint(2, 8)
        cases.append(mk('b2', n, rng.randrange(7), [{'kind': 'expire', 'target': '*', 'skip': rng.randint(0, 3 * n)}], rng.choice([0, 1, 3, 10, 40, 200])))
    return cases


# --------------------------------------------------------------------------- local execution with injected OSErrors
class LocalInjector:
    """Raises OSError(EIO) from the entry points the Local adapter uses, one planned fault per attempt of the method.
    An attempt starts when the method's first entry point is reached."""

    START = {'upload': 'mktemp_start', 'upload_stream': 'mktemp_start', 'download': 'read', 'download_stream': 'open_rb',
             'delete': 'unlink', 'list': 'scandir', 'exists': None}

    def __init__(self, root, method, faults, persistent=False):
        self.root, self.method, self.faults, self.persistent = str(root), method, list(faults), persistent
        self.attempt = -1
        self.calls = 0
        self.fired = 0

    def current(self):
        if 0 <= self.attempt < len(self.faults):
            return self.faults[self.attempt]
        if self.persistent and self.attempt >= 0:
            return self.faults[-1]
        return None

    def start(self):
        self.attempt += 1
        self.calls += 1
        if self.calls > HARD_CAP:
            raise fk.RequestCapExceeded('local: more than %d attempts' % HARD_CAP)

    def hit(self, target):
        f = self.current()
        if f is not None and f['target'] == target:
            self.fired += 1
            cls, eno = {None: (OSError, errno.EIO), 'PermissionError': (PermissionError, errno.EACCES), 'TimeoutError': (TimeoutError, errno.ETIMEDOUT),
                        'ConnectionResetError': (ConnectionResetError, errno.ECONNRESET), 'BlockingIOError': (BlockingIOError, errno.EAGAIN),
                        'InterruptedError': (InterruptedError, errno.EINTR), 'FileNotFoundError': (FileNotFoundError, errno.ENOENT),
                        'NotADirectoryError': (NotADirectoryError, errno.ENOTDIR), 'FileExistsError': (FileExistsError, errno.EEXIST),
                        'EBUSY': (OSError, errno.EBUSY), 'ENOSPC': (OSError, errno.ENOSPC), 'ESTALE': (OSError, errno.ESTALE)}[f.get('exc')]
            raise cls(eno, f'injected error at {target}')

    def mine(self, p):
        return os.fspath(p).startswith(self.root)

    @contextlib.contextmanager
    def installed(self):
        import replicat.backends.local as L
        inj = self
        real_ntf, real_mkdir, real_open = L.NamedTemporaryFile, pathlib.Path.mkdir, pathlib.Path.open
        real_wb, real_replace, real_rb = pathlib.Path.write_bytes, pathlib.Path.replace, pathlib.Path.read_bytes
        real_unlink, real_copy, real_scandir = pathlib.Path.unlink, shutil.copyfileobj, os.scandir
        real_dt = L.Local._destination_temp

        def dest_temp(self, name):
            inj.start()
            return real_dt(self, name)

        def ntf(*a, **ka):
            inj.hit('mktemp')
            return real_ntf(*a, **ka)

        def mkdir(self, *a, **ka):
            if inj.mine(self):
                inj.hit('mkdir')
            return real_mkdir(self, *a, **ka)

        def popen(self, mode='r', *a, **ka):
            if inj.mine(self):
                if 'r' in mode and inj.method == 'download_stream':
                    inj.start()
                inj.hit('open')
            return real_open(self, mode, *a, **ka)

        def write_bytes(self, data):
            if inj.mine(self):
                f = inj.current()
                if f is not None and f['target'] == 'write':
                    real_wb(self, bytes(data)[:len(data) // 2])      # a partial write reaches the disk
                inj.hit('write')
            return real_wb(self, data)

        def replace(self, target):
            if inj.mine(self):
                inj.hit('replace')
            return real_replace(self, target)

        def read_bytes(self):
            if inj.mine(self):
                if inj.method == 'download':
                    inj.start()
                inj.hit('read')
            return real_rb(self)

        def unlink(self, *a, **ka):
            if inj.mine(self) and inj.method == 'delete':
                inj.start()
                inj.hit('unlink')
            return real_unlink(self, *a, **ka)

        def copyfileobj(fsrc, fdst, length=0):
            f = inj.current()
            if f is not None and f['target'] == 'copy':
                for _ in range(f.get('after', 0)):
                    buf = fsrc.read(length)
                    if not buf:
                        break
                    fdst.write(buf)
                inj.hit('copy')
            return real_copy(fsrc, fdst, length)

        def scandir(path='.'):
            if inj.method == 'list' and inj.mine(path) and inj.attempt < 0:
                inj.start()
                f = inj.current()
                if f is not None and f['target'] == 'scandir':
                    inj.fired += 1
                    raise OSError(f.get('errno', errno.EIO), 'injected error at scandir')
            return real_scandir(path)

        L.NamedTemporaryFile, L.Local._destination_temp = ntf, dest_temp
        pathlib.Path.mkdir, pathlib.Path.open, pathlib.Path.write_bytes = mkdir, popen, write_bytes
        pathlib.Path.replace, pathlib.Path.read_bytes, pathlib.Path.unlink = replace, read_bytes, unlink
        shutil.copyfileobj, os.scandir = copyfileobj, scandir
        try:
            yield self
        finally:
            L.NamedTemporaryFile, L.Local._destination_temp = real_ntf, real_dt
            pathlib.Path.mkdir, pathlib.Path.open, pathlib.Path.write_bytes = real_mkdir, real_open, real_wb
            pathlib.Path.replace, pathlib.Path.read_bytes, pathlib.Path.unlink = real_replace, real_rb, real_unlink
            shutil.copyfileobj, os.scandir = real_copy, real_scandir


def run_local(case, root: Path):
    from replicat.backends.local import Local
    m = case['method']
    data = payload(case['size'])
    if root.exists():
        shutil.rmtree(root)
    b = Local(str(root))
    download = m in ('download', 'download_stream', 'exists', 'list') or (m == 'delete' and not case.get('absent'))
    if download or case.get('old'):
        b.upload(NAME, data if download else OLD)
    if m == 'list':
        b.upload('data/zz/other', b'x')
    sync(_prelude(_SyncAdapter(b), case))
    inj = LocalInjector(root, m, case['faults'], case.get('persistent', False))
    with inj.installed():
        res = sync(_call(_SyncAdapter(b), case, data))
    p = root / NAME
    res['obj'] = p.read_bytes() if p.is_file() else None
    res['tries'] = inj.calls
    res['requests'] = inj.calls
    res['auths'] = 0
    res['fired'] = inj.fired
    res['temps'] = sum(1 for dp, _, fs in os.walk(root) for f in fs if f.endswith('.tmp')) if root.exists() else 0
    return res


class _SyncAdapter:
    """the sync Local adapter presented through the awaiting driver"""

    def __init__(self, b):
        self.b = b

    async def upload(self, *a): return self.b.upload(*a)
    async def upload_stream(self, *a): return self.b.upload_stream(*a)
    async def download(self, *a): return self.b.download(*a)
    async def download_stream(self, *a): return self.b.download_stream(*a)
    async def exists(self, *a): return self.b.exists(*a)
    async def delete(self, *a): return self.b.delete(*a)

    def list_files(self, prefix):
        b = self.b

        async def gen():
            for x in b.list_files(prefix):
                yield x
        return gen()


# --------------------------------------------------------------------------- case enumeration
def http_kinds(method, size, c, download):
    """(kind, after) pairs = every fault position and kind for this method."""
    out = [('drop', None), ('500', None), ('503', None), ('429', None), ('401', None), ('403', None)]
    if not download:
        out.append(('500_after', None))
    if method in STREAM_METHODS or method in ('upload', 'download'):
        n = nchunks(size, c) if method in STREAM_METHODS else (1 if size else 0)
        for k in range(0, n + 1):
            out.append(('drop_body', k))
    return out


def local_targets(method, size, c):
    if method == 'upload_stream':
        return [('mkdir', None), ('mktemp', None), ('open', None), ('replace', None)] + [('copy', k) for k in range(0, nchunks(size, c) + 1)]
    if method == 'upload':
        return [('mkdir', None), ('mktemp', None), ('write', None), ('replace', None)]
    if method == 'download':
        return [('read', None)]
    if method == 'download_stream':
        return [('open', None)] + [('copy', k) for k in range(0, nchunks(size, c) + 1)]
    if method == 'delete':
        return [('unlink', None)]
    return []


def enumerate_cases(f, chunks, tier_thorough):
    cases = []
    for c in chunks:
        sizes = sorted({0, 1, max(0, c - 1), c, c + 1, 3 * c})
        for backend in ('s3c', 'b2', 'local'):
            mt = f[{'s3c': 's3_max_tries', 'b2': 'b2_max_tries', 'local': 'local_max_tries'}[backend]]
            for method in ('upload_stream', 'download_stream', 'upload', 'download', 'delete', 'exists', 'list'):
                msizes = sizes if method in STREAM_METHODS else ([0, c + 1] if method in ('upload', 'download') else [c + 1])
                for size in msizes:
                    if backend == 'local':
                        positions = [{'target': t, 'kind': 'oserror', **({'after': k} if k is not None else {})} for t, k in local_targets(method, size, c)]
                    else:
                        positions = [{'kind': kd, **({'after': k} if k is not None else {})}
                                     for kd, k in http_kinds(method, size, c, method in ('download', 'download_stream', 'exists', 'list'))]
                    for pos in positions:
                        for L in range(1, mt + 2):
                            case = {'backend': backend, 'method': method, 'size': size, 'chunk': c, 'faults': [dict(pos) for _ in range(L)]}
                            cases.append(case)
                            if method == 'upload_stream' and size == c + 1 and L in (1, mt):
                                cases.append(dict(case, old=True))
                            if method == 'delete':
                                cases.append(dict(case, absent=True))     # deleting what is not there, under the same faults
                            if method == 'download_stream' and size == c + 1 and L in (1, 2):
                                cases.append(dict(case, init=2 * c + 3))     # the target stream already holds longer contents
    return cases


def random_cases(rng, f, n, chunks):
    """Mixed fault sequences: a different position / kind at every attempt."""
    cases = []
    for _ in range(n):
        backend = rng.choice(['s3c', 'b2', 'local'])
        method = rng.choice(['upload_stream', 'upload_stream', 'download_stream', 'download_stream', 'upload', 'download', 'delete'])
        c = rng.choice(chunks)
        size = rng.choice([0, 1, c - 1, c, c + 1, 2 * c, 3 * c, 3 * c + 2])
        size = max(0, size)
        mt = f[{'s3c': 's3_max_tries', 'b2': 'b2_max_tries', 'local': 'local_max_tries'}[backend]]
        L = rng.randint(1, mt + 1)
        if backend == 'local':
            pool = [{'target': t, 'kind': 'oserror', **({'after': k} if k is not None else {})} for t, k in local_targets(method, size, c)]
        else:
            pool = [{'kind': kd, **({'after': k} if k is not None else {})}
                    for kd, k in http_kinds(method, size, c, method in ('download', 'download_stream')) if kd != '403' or rng.random() < 0.1]
        case = {'backend': backend, 'method': method, 'size': size, 'chunk': c, 'faults': [dict(rng.choice(pool)) for _ in range(L)]}
        if backend != 'local' and method == 'download_stream' and rng.random() < 0.5:
            case['piece'] = rng.choice([1, c - 1 or 1, c + 1, 2 * c])
        if method == 'upload_stream' and rng.random() < 0.3:
            case['old'] = True
        if method == 'download_stream' and rng.random() < 0.3:
            case['init'] = rng.randint(1, 3 * c + 2)
        if rng.random() < 0.4:
            case['prelude'] = [rng.choice(['upload', 'upload_stream', 'download', 'list', 'delete']) for _ in range(rng.randint(1, 4))]
        if backend == 'b2' and method in ('upload', 'upload_stream') and rng.random() < 0.3:
            case['faults'][rng.randrange(L)] = {'kind': rng.choice(['expire_upload_tokens', 'sick_pod']), 'target': 'upload'}
        cases.append(case)
    return cases


def persistent_cases(f):
    """The fault never goes away: the operation must end in an error after a bounded number of requests."""
    cases = []
    c = 4
    for backend in ('s3c', 'b2', 'local'):
        for method in ('upload_stream', 'download_stream', 'upload', 'download', 'delete', 'exists', 'list'):
            size = c + 1
            if backend == 'local':
                positions = [{'target': t, 'kind': 'oserror', **({'after': k} if k is not None else {})} for t, k in local_targets(method, size, c)]
            else:
                positions = [{'kind': kd, **({'after': k} if k is not None else {})}
                             for kd, k in http_kinds(method, size, c, method in ('download', 'download_stream', 'exists', 'list'))]
            for pos in positions:
                cases.append({'backend': backend, 'method': method, 'size': size, 'chunk': c, 'faults': [dict(pos)], 'persistent': True})
    for method in ('upload', 'upload_stream'):
        for kind in ('500', '429', '401', 'drop'):
            cases.append({'backend': 'b2', 'method': method, 'size': 5, 'chunk': 4, 'nested': True, 'persistent': True,
                          'faults': [{'kind': kind, 'target': 'get_upload_url'}]})
    for kind in ('500', '429', 'drop', '401'):
        cases.append({'backend': 'b2', 'method': 'download', 'size': 5, 'chunk': 4, 'nested': True, 'persistent': True, 'reauth_faults': True,
                      'faults': [{'kind': '401', 'target': 'download'}, {'kind': kind, 'target': 'authorize'}]})
    return cases


PRELUDES = ([], ['upload'], ['upload_stream'], ['upload', 'download', 'upload'], ['upload_stream', 'list', 'delete'])


def sequence_cases(f):
    """Multi-operation scenarios: earlier fault-free operations of the same client, then the faulted one.
    (a) B2 faults bound to an upload URL / token pair (tokens expire, the pod gets sick) - one such event is one
        transient fault: a fresh b2_get_upload_url masks it;
    (b) the ordinary fault kinds after a prelude, for every backend."""
    cases = []
    c = 4
    for method in ('upload', 'upload_stream'):
        for prelude in PRELUDES:
            for kind in ('expire_upload_tokens', 'sick_pod'):
                for size in (0, c + 1):
                    cases.append({'backend': 'b2', 'method': method, 'size': size, 'chunk': c, 'prelude': list(prelude),
                                  'faults': [{'kind': kind, 'target': 'upload'}]})
            # both events in a row, then an ordinary fault: still within the budget
            cases.append({'backend': 'b2', 'method': method, 'size': c + 1, 'chunk': c, 'prelude': list(prelude),
                          'faults': [{'kind': 'sick_pod', 'target': 'upload'}, {'kind': 'expire_upload_tokens', 'target': 'upload'}, {'kind': '429'}]})
    for backend in ('s3c', 'b2', 'local'):
        mt = f[{'s3c': 's3_max_tries', 'b2': 'b2_max_tries', 'local': 'local_max_tries'}[backend]]
        for method in ('upload_stream', 'download_stream', 'upload', 'download', 'delete'):
            size = c + 1
            if backend == 'local':
                positions = [{'target': t, 'kind': 'oserror', **({'after': k} if k is not None else {})} for t, k in local_targets(method, size, c)]
            else:
                positions = [{'kind': kd, **({'after': k} if k is not None else {})}
                             for kd, k in http_kinds(method, size, c, method in ('download', 'download_stream')) if kd in ('drop', '500', '429', '401', 'drop_body')]
            for prelude in PRELUDES[1:4]:
                for pos in positions:
                    for L in (1, mt - 1, mt):
                        cases.append({'backend': backend, 'method': method, 'size': size, 'chunk': c, 'prelude': list(prelude),
                                      'faults': [dict(pos) for _ in range(L)]})
    return cases


def transport_class_cases(f):
    """Every transport-level exception class httpx raises (and several OSError subclasses for local) at the three kinds of
    position: before anything is sent, in the middle of a body, after the whole request took effect (connection closed
    without an answer)."""
    cases = []
    c = 4
    size = 2 * c + 1
    for backend in ('s3c', 'b2'):
        mt = f[{'s3c': 's3_max_tries', 'b2': 'b2_max_tries'}[backend]]
        for method in ('upload_stream', 'download_stream', 'upload', 'download', 'delete', 'exists', 'list'):
            read_only = method in ('download', 'download_stream', 'exists', 'list')
            for exc in fk.TRANSPORT_ERRORS:
                positions = [{'kind': 'drop', 'exc': exc}]
                if method in ('upload_stream', 'download_stream', 'upload', 'download'):
                    positions.append({'kind': 'drop_body', 'after': 1, 'exc': exc})
                if not read_only:
                    positions.append({'kind': 'drop_after', 'exc': exc})
                for pos in positions:
                    for L in (1, mt - 1, mt):
                        cases.append({'backend': backend, 'method': method, 'size': size, 'chunk': c, 'faults': [dict(pos) for _ in range(L)]})
    mt = f['local_max_tries']
    for method in ('upload_stream', 'download_stream', 'upload', 'download', 'delete'):
        # (a directory removed by another client's clean() between two steps shows up as ENOENT / ENOTDIR at any later step)
        for exc in ('PermissionError', 'TimeoutError', 'ConnectionResetError', 'BlockingIOError', 'InterruptedError', 'FileNotFoundError',
                    'NotADirectoryError', 'FileExistsError', 'EBUSY', 'ENOSPC', 'ESTALE'):
            for t, k in local_targets(method, size, c):
                for L in (1, mt - 1, mt):
                    cases.append({'backend': 'local', 'method': method, 'size': size, 'chunk': c,
                                  'faults': [{'target': t, 'kind': 'oserror', 'exc': exc, **({'after': k} if k is not None else {})} for _ in range(L)]})
    return cases


def slow_cases(f):
    """Slow transfers: every body piece takes 10-40 virtual seconds (big object, thin link, --rate-limit), so one attempt
    lasts minutes; the clock backoff reads is that virtual clock.  The retry budget is a number of tries: k < max_tries
    faults are masked however long the attempts take."""
    cases = []
    c = 4
    for backend in ('s3c', 'b2'):
        mt = f[{'s3c': 's3_max_tries', 'b2': 'b2_max_tries'}[backend]]
        for method in ('upload_stream', 'download_stream', 'upload', 'download'):
            for spp in (10, 40):
                for pos in ({'kind': 'drop_body', 'after': 2}, {'kind': '429'}, {'kind': 'drop'}, {'kind': '503'}):
                    for L in range(1, mt + 1):
                        cases.append({'backend': backend, 'method': method, 'size': 3 * c, 'chunk': c, 'seconds_per_piece': spp,
                                      'faults': [dict(pos) for _ in range(L)]})
    return cases


def nested_cases(f):
    """B2: faults at the nested / auxiliary endpoints (fresh upload URL per try, authorisation, expired token).
    Not part of the Coq model: judged by the oracle only (masked within the budget, bounded otherwise)."""
    cases = []
    for method in ('upload', 'upload_stream'):
        for kind in ('500', '429', '401', 'drop', '403'):
            for L in (1, 2, 3, 4, 5, 30):
                cases.append({'backend': 'b2', 'method': method, 'size': 5, 'chunk': 4, 'nested': True,
                              'faults': [{'kind': kind, 'target': 'get_upload_url'} for _ in range(L)]})
    for method in ('upload_stream', 'download_stream', 'delete', 'list', 'exists'):
        cases.append({'backend': 'b2', 'method': method, 'size': 5, 'chunk': 4, 'nested': True,
                      'faults': [{'kind': 'expire', 'target': PRIMARY[('b2', method)]}]})
        for kind in ('500', '429', 'drop'):
            for L in (1, 3, 4, 30):
                cases.append({'backend': 'b2', 'method': method, 'size': 5, 'chunk': 4, 'nested': True, 'reauth_faults': True,
                              'faults': [{'kind': '401', 'target': PRIMARY[('b2', method)]}] + [{'kind': kind, 'target': 'authorize'} for _ in range(L)]})
    return cases


# --------------------------------------------------------------------------- judging
def budget(case, f):
    b = case['backend']
    mt = f[{'s3c': 's3_max_tries', 'b2': 'b2_max_tries', 'local': 'local_max_tries'}[b]]
    if b == 'b2':
        return min(mt, f['max_reauth'] + 1)
    return mt


def classify(res):
    o = res['outcome']
    if o == 'ok':
        return 'ok'
    return 'auth' if o == 'error:AuthRequired' else 'error'


def oracle(case, res, f):
    """Model-free statement of the property on one case; returns list of (what, kind)."""
    bad = []
    m = case['method']
    data = payload(case['size'])
    L = len(case['faults'])
    fired = res['fired']
    has403 = any(x['kind'] == '403' for x in case['faults'])
    o = res['outcome']
    if o in ('error:RecursionError', 'error:RequestCapExceeded') or res['requests'] > HARD_CAP:
        bad.append((f'retried without bound: {res["requests"]} requests, ended with {o}', 'unbounded'))
        return bad
    if case.get('session'):
        for p in res['problems'][:2]:
            bad.append((f'{len(case["session"])} operations one after the other on one adapter object: ' + p,
                        'unbounded' if 'without bound' in p else ('no_error' if 'never goes away' in p else 'not_masked')))
        return bad
    if case.get('concurrent'):
        if res['problems'] and L < budget(case, f) and not has403:
            bad.append((f'{len(case["concurrent"])} operations in flight on one client ({", ".join(case["concurrent"])}), {L} fault(s) {case["faults"][0]}, '
                        f'authorisation answering after {case.get("authorize_delay", 0)} turns: not masked: ' + '; '.join(res['problems'][:4]), 'not_masked'))
        return bad
    transient = (L < budget(case, f)) and not has403
    if case.get('persistent'):
        transient = False
        if o == 'ok':
            bad.append((f'the fault ({case["faults"][-1]}) never goes away but the operation returned normally after {res["requests"]} requests', 'no_error'))
    elif case.get('reauth_faults'):       # one rejected token, then L - 1 faults of the authorisation request itself
        transient = (L - 1) < f['b2_max_tries']
    if transient and o != 'ok':
        bad.append((f'{L} consecutive fault(s) ({case["faults"][0]}) within the budget of {budget(case, f)} not masked: {o}', 'not_masked'))
    if o == 'ok':
        if m in ('upload', 'upload_stream') and res['obj'] != data:
            bad.append((f'upload returned normally but the stored object is {res["obj"]!r}, payload {data!r}', 'wrong_bytes'))
        if m == 'upload_stream' and res['pos'] != len(data):
            bad.append((f'upload_stream returned normally with the stream at {res["pos"]} of {len(data)}', 'stream_pos'))
        if m == 'download' and res['value'] != data:
            bad.append((f'download returned {res["value"]!r} instead of {data!r}', 'wrong_bytes'))
        if m == 'download_stream' and (res['content'] != data or res['pos'] != len(data)):
            bad.append((f'download_stream left {res["content"]!r} at position {res["pos"]}; object is {data!r}', 'wrong_bytes'))
        if m == 'exists' and res['value'] is not True:
            bad.append(('exists answered False for an existing object', 'wrong_bytes'))
        if m == 'list' and [x for x in res['value'] if not x.startswith('data/pre/')] != sorted(['data/ab/obj'] + (['data/zz/other'] if case['backend'] == 'local' else [])):
            bad.append((f'list_files returned {res["value"]} although a fault occurred', 'wrong_listing'))
        if m == 'delete' and res['obj'] is not None:
            bad.append(('delete returned normally but the object is still there', 'wrong_bytes'))
    else:
        if m in ('upload', 'upload_stream') and res['obj'] not in (None, data, OLD if case.get('old') else None):
            bad.append((f'failed upload left a partial object {res["obj"]!r}', 'partial_object'))
        if m == 'upload_stream' and res['pos'] != 0:
            bad.append((f'failed upload_stream left the stream at {res["pos"]} (not rewound)', 'stream_pos'))
    if res['temps']:
        bad.append((f'{res["temps"]} temporary file(s) left behind', 'temp_left'))
    return bad


def compare_model(case, res, mod):
    """Differences between the Coq model's prediction and the run (None if equal)."""
    m = case['method']
    data = payload(case['size'])
    diffs = []
    if classify(res) != mod['class']:
        diffs.append(f'outcome {res["outcome"]} vs model {mod["class"]}')
    if res['tries'] != mod['tries']:
        diffs.append(f'tries {res["tries"]} vs model {mod["tries"]}')
    if case['backend'] == 'b2' and res['auths'] != mod['auths']:
        diffs.append(f're-authentications {res["auths"]} vs model {mod["auths"]}')
    if m == 'upload_stream' and res['pos'] != mod['pos']:
        diffs.append(f'stream position {res["pos"]} vs model {mod["pos"]}')
    if m in ('upload', 'upload_stream'):
        mobj = None if mod['obj'] is None else bytes(mod['obj'][1])
        if res['obj'] != mobj:
            diffs.append(f'stored object {res["obj"]!r} vs model {mobj!r}')
        if res['temps'] != mod['temps']:
            diffs.append(f'temporary files {res["temps"]} vs model {mod["temps"]}')
    if m == 'download_stream':
        if res['pos'] != mod['pos']:
            diffs.append(f'stream position {res["pos"]} vs model {mod["pos"]}')
        if mod['class'] == 'ok' and res['content'] != bytes(mod['obj']):
            diffs.append(f'stream contents {res["content"]!r} vs model {bytes(mod["obj"])!r}')
    return diffs


def signature(case, kind):
    return {'backend': case['backend'], 'method': case['method'], 'kind': kind}


def execute(case, scratch: Path):
    if case.get('concurrent'):
        return run_concurrent(case)
    if case.get('session'):
        return run_session(case)
    if case['backend'] == 'local':
        return run_local(case, scratch / 'local_repo')
    return run_http(case)


def check_cases(cases, rep: Report, scratch: Path, f, with_model=True):
    results = []
    with fk.VirtualSleep():
        for case in cases:
            res = execute(case, scratch)
            results.append(res)
            L = len(case['faults'])
            rep.case((case['backend'], case['method'], repr(case.get('session')), case.get('absent'), case.get('seconds_per_piece'), case.get('concurrent'), case.get('authorize_delay'), case['size'], case['chunk'], case.get('old'), case.get('init'), case.get('piece'), case.get('prelude'),
                      [sorted(x.items()) for x in case['faults']]), nontrivial=res['fired'] >= 1)
            rep.count(f'{case["backend"]}:{case["method"]}')
            rep.count('run_length=' + (str(L) if L <= 6 else '>6'))
            rep.count('fault_kind=' + case['faults'][0]['kind'] + (':' + case['faults'][0]['target'] if 'target' in case['faults'][0] else ''))
            rep.count('outcome=' + res['outcome'].split(':')[0] + ('' if res['outcome'] == 'ok' else ':' + res['outcome'].split(':', 1)[1]))
            rep.count('size=' + str(case['size']))
            rep.count('prelude_ops=' + str(len(case.get('prelude', []))))
            if case['faults'][0].get('exc'):
                rep.count('exception_class=' + case['faults'][0]['exc'])
            if case.get('seconds_per_piece'):
                rep.count('slow_transfer_cases')
            if len(rep.samples) < 4 and res['fired'] >= 2:
                rep.sample({'case': case, 'outcome': res['outcome'], 'tries': res['tries'], 'stream_pos': res['pos']})
            for what, kind in oracle(case, res, f):
                rep.violations.append({'what': f'{case["backend"]}.{case["method"]} ({case["size"]} bytes, chunk {case["chunk"]}'
                                               + (f', every body piece taking {case["seconds_per_piece"]} s' if case.get('seconds_per_piece') else '') + f'): {what}',
                                       'signature': signature(case, kind), 'replay': {'case': case}})
    if with_model:
        modelled = [(c, r) for c, r in zip(cases, results) if not c.get('nested') and not c.get('persistent')]
        modelled = [(c, r) for c, r in modelled if not (c['backend'] == 'local' and c['method'] in ('exists', 'list'))]
        if modelled:
            model, err = run_model([c for c, _ in modelled])
            if model is None:
                rep.disagreements.append({'what': 'the model could not be evaluated: ' + err, 'replay': None})
                return results
            for (case, res), mod in zip(modelled, model):
                rep.traces_validated += 1
                d = compare_model(case, res, mod)
                if d:
                    rep.disagreements.append({'what': f'{case["backend"]}.{case["method"]} faults {case["faults"][:2]}x{len(case["faults"])}: ' + '; '.join(d),
                                              'replay': {'case': case, 'model': {k: (v if not isinstance(v, (list, tuple)) else str(v)) for k, v in mod.items()},
                                                         'implementation': {'outcome': res['outcome'], 'tries': res['tries'], 'auths': res['auths'], 'pos': res['pos']}}})
    return results


def list_fault_probe(rep: Report, scratch: Path, f):
    """Defect 15 (fixed): an I/O error of the first scandir must never look like an empty listing;
    only a missing directory means "empty"."""
    with fk.VirtualSleep():
        for err, label in ((errno.EIO, 'EIO'), (errno.EACCES, 'EACCES'), (errno.ENOMEM, 'ENOMEM')):
            case = {'backend': 'local', 'method': 'list', 'size': 5, 'chunk': 4, 'faults': [{'target': 'scandir', 'kind': 'oserror', 'errno': err}]}
            res = run_local(case, scratch / 'local_list')
            rep.case(('list_fault', label), nontrivial=res['fired'] >= 1)
            rep.count('local:list')
            if res['outcome'] == 'ok' and res['value'] != ['data/ab/obj', 'data/zz/other']:
                rep.violations.append({'what': f'local.list_files: one {label} error of the first scandir was turned into the listing {res["value"]} '
                                               '(two objects exist): neither masked nor reported',
                                       'signature': signature(case, 'wrong_listing'), 'replay': {'case': case}})
        from replicat.backends.local import Local
        b = Local(str(scratch / 'local_list_missing'))
        if list(b.list_files('data/')) != []:
            rep.violations.append({'what': 'local.list_files of a repository directory that does not exist yet is not empty',
                                   'signature': {'backend': 'local', 'method': 'list', 'kind': 'missing_dir'}, 'replay': {'case': None}})


RULE = ('case = (backend, method, payload size, chunk size, fault sequence): every fault position (before the first byte, after k '
        'stream chunks for every k, after the last) x kind (OSError per entry point; connection refused / dropped in mid-transfer, '
        '500, 503, 429+retry-after, 401, 403, 500 after the effect) x run length 1..max_tries+1, payloads 0, 1, chunk-1, chunk, '
        'chunk+1, 3*chunk, plus random mixed sequences, multi-operation scenarios (fault-free prelude of the same client, then the faulted operation; B2 upload URL / token pairs expiring or their pod getting sick) B2 nested-endpoint / expired-token cases, sessions of 6-20 operations on one adapter object each within its own budget, every httpx transport exception class (and OSError subclasses) at each kind of position, slow transfers on a virtual clock that backoff reads (10-40 s per body piece), and 2-8 operations in flight on one client while the token expires (slow re-authorisation) or stray faults occur; non-trivial = at least one fault fired; '
        'distinct = distinct case tuples')


def corpus():
    import json
    return [json.loads(p.read_text()) for p in sorted((core.ROOT / 'corpus' / 'C12').glob('*.json'))]


def run(ctx) -> Report:
    rep = Report(rule=RULE)
    f = facts()
    chunks = [4, 2] if ctx.tier == 'quick' else [4, 1, 2, 7]
    cases = corpus() + sequence_cases(f) + transport_class_cases(f) + slow_cases(f) + enumerate_cases(f, chunks, ctx.tier != 'quick')
    cases += random_cases(ctx.rng, f, ctx.scale(600, 8000), [1, 2, 3, 4, 7] if ctx.tier != 'quick' else [2, 4, 5])
    cases += nested_cases(f) + persistent_cases(f) + concurrent_cases(f, ctx.rng, ctx.scale(40, 600)) + session_cases(f, ctx.rng, ctx.scale(15, 300))
    check_cases(cases, rep, ctx.scratch, f)
    list_fault_probe(rep, ctx.scratch, f)
    rep.notes.append(f'budgets read from the source: local max_tries={f["local_max_tries"]}, s3 max_tries={f["s3_max_tries"]}, '
                     f'b2 max_tries={f["b2_max_tries"]}, MAX_REAUTH_ATTEMPTS={f["max_reauth"]}; hard cap per operation {HARD_CAP} requests')
    rep.notes.append('local list_files is a generator: its backoff decorator never retries; an I/O error ends in an OSError (bounded), '
                     'B2 nested endpoints (get_upload_url, authorize) are judged by the oracle only')
    return rep


def search(ctx, broken) -> Report:
    rep = Report(rule=RULE)
    f = facts()
    seeds = [b['case']['case'] for b in broken if isinstance(b.get('case'), dict) and isinstance(b['case'].get('case'), dict)]
    cases = seeds + enumerate_cases(f, [4, 1, 3], True) + random_cases(ctx.rng, f, 3000, [1, 2, 3, 4, 7]) + nested_cases(f) + persistent_cases(f) + sequence_cases(f) + transport_class_cases(f) + slow_cases(f) + concurrent_cases(f, ctx.rng, 400) + session_cases(f, ctx.rng, 200)
    check_cases(cases, rep, ctx.scratch, f, with_model=False)
    list_fault_probe(rep, ctx.scratch, f)
    return rep


def replay(ctx, obj):
    rep = Report(rule=RULE)
    case = (obj.get('replay') or {}).get('case')
    if not isinstance(case, dict):
        for b in obj.get('broken', []):
            c = b.get('case')
            if isinstance(c, dict) and isinstance(c.get('case'), dict):
                case = c['case']
                break
    if not isinstance(case, dict):
        print('replay file does not carry a fault case:', obj.get('kind'))
        return 0
    f = facts()
    if case['method'] == 'list' and case['backend'] == 'local':
        list_fault_probe(rep, ctx.scratch, f)
    else:
        check_cases([case], rep, ctx.scratch, f, with_model=False)
        if not case.get('nested') and not case.get('persistent'):
            rep2 = Report(rule=RULE)
            check_cases([case], rep2, ctx.scratch, f)
            rep.disagreements += [d for d in rep2.disagreements if 'could not be evaluated' not in d['what']]
    for v in rep.violations:
        print('VIOLATION-REPRODUCED', v['what'])
    for d in rep.disagreements:
        print('DISAGREEMENT-REPRODUCED', d['what'])
    return 1 if rep.violations or rep.disagreements else 0
