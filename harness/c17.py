"""C17 - accepted settings yield a usable repository and working keys; rejected settings leave the backend untouched.
B2: structural enumeration of the settings lattice, real Repository.init / add_key on an in-memory backend vs the
Gallina model (coq/Model/Settings.v, Keys.v).  C: model-free oracles (untouched on rejection; fresh unlock +
snapshot + byte-identical restore on acceptance; full cross-unlock matrix of add-key chains).  DESIGN.md C17."""
from __future__ import annotations

import asyncio
import contextlib
import copy
import io
import itertools
import json
import os
import shutil
from pathlib import Path

from harness import core
from harness.core import Report

from replicat import exceptions, utils
from replicat.backends.base import Backend
from replicat.repository import Repository
from replicat.utils import cli as rcli


# --------------------------------------------------------------------------- in-memory backend
class MemBackend(Backend):
    def __init__(self):
        self.d, self.log = {}, []

    def exists(self, name):
        return name in self.d

    def upload(self, name, data):
        self.log.append(('put', name))
        self.d[name] = bytes(data)

    def upload_stream(self, name, stream, length, chunk_size=None):
        self.log.append(('put', name))
        self.d[name] = stream.read()

    def download(self, name):
        return self.d[name]

    def download_stream(self, name, stream, chunk_size=None):
        stream.write(self.d[name])

    def list_files(self, prefix=''):
        return [k for k in sorted(self.d) if k.startswith(prefix)]

    def delete(self, name):
        self.log.append(('del', name))
        del self.d[name]

    def clean(self):
        pass

    def close(self):
        pass


def quiet(fn):
    with contextlib.redirect_stdout(io.StringIO()), contextlib.redirect_stderr(io.StringIO()):
        return fn()


def run_async(coro_fn):
    return quiet(lambda: asyncio.run(coro_fn()))


def run_async_capture(coro_fn):
    """Like run_async, but also returns what the call printed on standard output (where init / add-key print the key
    when no key output file is given)."""
    out = io.StringIO()
    with contextlib.redirect_stdout(out), contextlib.redirect_stderr(io.StringIO()):
        res = asyncio.run(coro_fn())
    return res, out.getvalue()


def last_json_object(text):
    """The last top-level JSON object printed (a line starting with '{'): the key as a user would save it from stdout."""
    dec, found, pos = json.JSONDecoder(), None, 0
    lines = text.splitlines(keepends=True)
    offsets = [sum(len(x) for x in lines[:i]) for i in range(len(lines))]
    for off, line in zip(offsets, lines):
        if line.startswith('{') and off >= pos:
            try:
                _, end = dec.raw_decode(text, off)
            except ValueError:
                continue
            found, pos = text[off:end], end
    return found


def exc_name(e):
    return type(e).__name__


# --------------------------------------------------------------------------- values: python <-> Coq
def to_coq(v):
    if v is None:
        return 'VNull'
    if isinstance(v, bool):
        return f'(VBool {"true" if v else "false"})'
    if isinstance(v, int):
        return f'(VInt ({v}))'
    if isinstance(v, float):
        t = v * 2
        assert t == int(t), 'only half-integer floats are modelled'
        return f'(VHalf ({int(t)}))'
    if isinstance(v, str):
        return f'(VStr {core.coq_string(v)})'
    if isinstance(v, dict):
        return '(VDict ' + dict_to_coq(v) + ')'
    if isinstance(v, list):
        return 'VOther'
    raise TypeError(v)


def dict_to_coq(d):
    return '[' + '; '.join(f'({core.coq_string(k)}, {to_coq(v)})' for k, v in d.items()) + ']'


def opt_dict_to_coq(d):
    return 'None' if d is None else f'(Some {dict_to_coq(d)})'


def canon(v):
    """Typed canonical form of a Python settings value (bool / int / float are distinguished)."""
    if v is None:
        return ['null']
    if isinstance(v, bool):
        return ['bool', v]
    if isinstance(v, int):
        return ['int', v]
    if isinstance(v, float):
        return ['half', int(v * 2)] if v * 2 == int(v * 2) else ['float', repr(v)]
    if isinstance(v, str):
        return ['str', v]
    if isinstance(v, dict):
        return ['dict', sorted([k, canon(x)] for k, x in v.items())]
    return ['other']


def canon_coq(t):
    """Same canonical form from a parsed Coq [value] term."""
    if isinstance(t, tuple) and len(t) == 2 and t[0] == 'ctor':
        t = t[1]            # nullary constructor in argument position
    if t == 'VNull':
        return ['null']
    if t == 'VOther':
        return ['other']
    tag, arg = t
    if tag == 'VBool':
        return ['bool', arg]
    if tag == 'VInt':
        return ['int', arg]
    if tag == 'VHalf':
        return ['half', arg]
    if tag == 'VStr':
        return ['str', arg]
    if tag == 'VDict':
        return ['dict', sorted([k, canon_coq(x)] for k, x in arg)]
    raise ValueError(t)


def canon_adapter_py(d):
    d = dict(d)
    name = d.pop('name')
    return [name, sorted([k, canon(v)] for k, v in d.items())]


def canon_adapter_coq(t):
    name, args = t
    return [name, sorted([k, canon_coq(v)] for k, v in args)]


# --------------------------------------------------------------------------- the lattice
CHEAP_KDF = {'name': 'scrypt', 'n': 4, 'r': 1, 'p': 1}
BASE_CHUNK = {'min_length': 64, 'max_length': 256}
WRONG = ['aes_gcm', 'chacha20_poly1305', 'scrypt', 'blake2b', 'sha2', 'sha3', 'gclmulchunker']

HASH_OK = ([{'name': 'blake2b', 'length': n} for n in (1, 16, 64)] + [{'length': 32}, {}, {'name': 'blake2b'}]
           + [{'name': h, 'bits': b} for h in ('sha2', 'sha3') for b in (224, 256, 384, 512)] + [{'name': 'sha2'}, {'name': 'sha3'}])
HASH_BAD = ([{'length': v} for v in (0, 65, -1, 32.0, 64.5, '32', True, False, None, [])]
            + [{'name': h, 'bits': v} for h in ('sha2', 'sha3') for v in (0, 1, 128, 255, 1024, 256.0, '256', True, None)]
            + [{'name': n} for n in ('aes_gcm', 'chacha20_poly1305', 'scrypt', 'gclmulchunker', 'md5', 'Blake2b', '', 5, None, [], True)]
            + [{'name': 'blake2b', 'bits': 256}, {'name': 'sha2', 'length': 32}, {'size': 32}, {'length': 32, 'salt': 'x'},
               {'name': 'sha3', 'bits': 256, 'length': 32}])
CHUNK_OK = [{'min_length': a, 'max_length': b} for a, b in ((1, 4), (4, 4), (5, 8), (64, 256), (256, 256), (100, 1000), (3, 7), (True, 8),
                                                           (64, 2 ** 63 - 1), (2 ** 40, 2 ** 62))] \
    + [{}, {'name': 'gclmulchunker'}, {'max_length': 200000}, {'min_length': 1000}]
CHUNK_BAD = ([{'min_length': a, 'max_length': b} for a, b in
              ((0, 0), (0, 4), (0, 256), (-5, 256), (-4, -4), (1.5, 256), (64, 256.0), (64.0, 256.0), (1, 3), (5, 7), (1, 1), (2, 3),
               (64, 2 ** 63), (64, 2 ** 64), (2 ** 64, 2 ** 65), (64, 2 ** 70 + 1), (300, 256), ('64', 256), (64, '256'), ('64', '256'), (False, 8), (True, True), (None, 256), (64, None), ([], 256))]
             + [{'min_length': 6000000}, {'max_length': 100}, {'max_length': 0}]
             + [{'name': n} for n in ('blake2b', 'sha2', 'aes_gcm', 'chacha20_poly1305', 'scrypt', 'rabin', 7, None)]
             + [{'window': 5}, {'min_length': 64, 'max_length': 256, 'alignment': 4}, {'MIN_LENGTH': 64}])
CIPHER_OK = ([{'name': 'aes_gcm', 'key_bits': k, 'nonce_bits': n} for k in (128, 192, 256) for n in (96, 64, 1024)]
             + [{'name': 'chacha20_poly1305'}, {}, {'key_bits': 128}, {'nonce_bits': 100}, {'nonce_bits': 1031}, {'name': 'aes_gcm'}])
CIPHER_BAD = ([{'key_bits': v} for v in (0, 64, 512, 255, -256, 256.0, 128.0, '256', True, None, [])]
              + [{'nonce_bits': v} for v in (63, 1032, 0, 8, -96, 96.0, 96.5, '96', True, None, [])]
              + [{'name': 'chacha20_poly1305', 'key_bits': 256}, {'name': 'chacha20_poly1305', 'nonce_bits': 96}]
              + [{'name': n} for n in ('blake2b', 'sha2', 'gclmulchunker', 'scrypt', 'aes', 'AES_GCM', 3, None)]
              + [{'mode': 'gcm'}, {'key_bits': 256, 'tag_bits': 128}])
KDF_OK = [CHEAP_KDF, {'name': 'scrypt', 'n': 2, 'r': 1, 'p': 1}, {'name': 'scrypt', 'n': 16, 'r': 8, 'p': 2},
          {'n': 8, 'r': 2, 'p': 1}, {'name': 'scrypt', 'n': 4, 'r': True, 'p': 1}, {'name': 'blake2b'}]
KDF_BAD = ([{'name': 'scrypt', 'n': v, 'r': 1, 'p': 1} for v in (1, 0, 3, 6, 12, -4, 4.0, 4.5, '4', True, False, None, [])]
           + [{'name': 'scrypt', 'n': 4, 'r': v, 'p': 1} for v in (0, -1, 1.0, '1', False, None)]
           + [{'name': 'scrypt', 'n': 4, 'r': 1, 'p': v} for v in (0, -2, 1.5, '1', False, None)]
           + [{'name': 'scrypt', 'n': 4, 'r': 1, 'p': 1, 'length': 32}, {'name': 'blake2b', 'length': 32}, {'name': 'blake2b', 'n': 4},
              {'name': 'scrypt', 'n': 4, 'r': 1, 'p': 1, 'salt': 'x'}]
           + [{'name': n} for n in ('sha2', 'sha3', 'aes_gcm', 'chacha20_poly1305', 'gclmulchunker', 'pbkdf2', 9, None)])
TOP_BAD = [{'compression': {}}, {'hashing': 5}, {'hashing': 'sha2'}, {'hashing': None}, {'hashing': []}, {'chunking': 'gclmulchunker'},
           {'chunking': None}, {'chunking': 7.5}, {'encryption': 5}, {'encryption': 'aes_gcm'}, {'encryption': []}, {'encryption': True},
           {'encryption': {'cipher': 'aes_gcm', 'kdf': CHEAP_KDF}}, {'encryption': {'cipher': None, 'kdf': CHEAP_KDF}},
           {'encryption': {'kdf': 'scrypt'}}, {'encryption': {'kdf': None}}, {'encryption': {'kdf': CHEAP_KDF, 'mac': {'name': 'blake2b'}}},
           {'encryption': {'kdf': CHEAP_KDF, 'shared_kdf': {'name': 'blake2b'}}}, {'encryption': {'kdf': CHEAP_KDF, 'name': 'aes_gcm'}},
           {'hashing': {'name': 'sha2'}, 'Hashing': {}}, {'encryption': {'cipher': {'kdf': CHEAP_KDF}, 'kdf': CHEAP_KDF}},
           {'hashing': {'hashing': {'name': 'sha2'}}}]


def settings_of(hashing=None, chunking=None, cipher=None, kdf=None, encrypted=True):
    s = {}
    if hashing is not None:
        s['hashing'] = hashing
    s['chunking'] = BASE_CHUNK if chunking is None else chunking
    if not encrypted:
        s['encryption'] = None
    else:
        e = {'kdf': CHEAP_KDF if kdf is None else kdf}
        if cipher is not None:
            e['cipher'] = cipher
        s['encryption'] = e
    return s


def lattice_cases():
    """One component varied at a time against a valid base, encrypted and not; then top-level shapes."""
    out = []

    def add(component, settings, password=b'pw', **extra):
        out.append(dict({'component': component, 'settings': settings,
                         'password': None if password is None else password.hex()}, **extra))
    for h in HASH_OK + HASH_BAD:
        add('hashing', settings_of(hashing=h, encrypted=False), None)
        add('hashing', settings_of(hashing=h, encrypted=True))
    for c in CHUNK_OK + CHUNK_BAD:
        add('chunking', settings_of(chunking=c, encrypted=False), None)
        add('chunking', settings_of(chunking=c, encrypted=True))
    for c in CIPHER_OK + CIPHER_BAD:
        add('cipher', settings_of(cipher=c))
    for k in KDF_OK + KDF_BAD:
        add('kdf', settings_of(kdf=k))
        add('kdf', settings_of(kdf=k, cipher={'name': 'aes_gcm', 'key_bits': 128}))
    # key sizes reach the KDF and the shared KDF as 'length'
    for c in ({'key_bits': 192}, {'name': 'chacha20_poly1305'}, {'key_bits': 128.0}):
        add('kdf', settings_of(cipher=c, kdf={'name': 'blake2b'}))
    for t in TOP_BAD:
        s = copy.deepcopy(t)
        s.setdefault('chunking', BASE_CHUNK)
        if 'encryption' not in s:
            s['encryption'] = {'kdf': CHEAP_KDF}
        add('top', s)
    # passwords: none, empty, long (blake2b takes the password as its key: at most 64 bytes)
    add('password', settings_of(), None)
    add('password', settings_of(encrypted=False), b'unused')
    add('password', settings_of(), b'')
    add('password', settings_of(kdf={'name': 'blake2b'}), b'')
    add('password', settings_of(kdf={'name': 'blake2b'}), b'p' * 64)
    add('password', settings_of(kdf={'name': 'blake2b'}), b'p' * 65)
    add('password', settings_of(), b'p' * 200)
    # no settings at all / empty: not validated; the default KDF (scrypt n=2**20) is not exercised
    add('top', {'encryption': None}, None)
    add('top', {'encryption': None, 'hashing': {}, 'chunking': {}}, None)
    add('top', {'encryption': {'kdf': CHEAP_KDF}})
    return out


def product_cases(rng, n):
    """Accepted combinations across all components (the full product in the thorough tier)."""
    hashes = [{'name': 'blake2b', 'length': x} for x in (1, 16, 64)] + [{'name': h, 'bits': b} for h in ('sha2', 'sha3') for b in (224, 256, 384, 512)]
    chunks = [{'min_length': a, 'max_length': b} for a, b in ((1, 4), (5, 8), (64, 256), (256, 256))] + [{}]
    ciphers = [None, {'name': 'chacha20_poly1305'}] + [{'name': 'aes_gcm', 'key_bits': k, 'nonce_bits': nb} for k in (128, 192, 256) for nb in (64, 96, 1024)]
    kdfs = [CHEAP_KDF, {'name': 'scrypt', 'n': 16, 'r': 2, 'p': 2}, {'name': 'blake2b'}]
    combos = []
    for h, c, ci in itertools.product(hashes, chunks, ciphers):
        if ci is None:
            combos.append((h, c, None, None))
        else:
            combos += [(h, c, ci, k) for k in kdfs]
    if n is not None and n < len(combos):
        combos = rng.sample(combos, n)
    out = []
    for h, c, ci, k in combos:
        s = settings_of(hashing=h, chunking=c, cipher=ci, kdf=k, encrypted=ci is not None)
        out.append({'component': 'product', 'settings': s, 'password': None if ci is None else b'pw'.hex()})
    return out


def random_case(rng):
    """Random mix of valid and invalid entries in every component (search mode)."""
    def pick(ok, bad):
        return copy.deepcopy(rng.choice(ok if rng.random() < 0.7 else bad))
    enc = rng.random() < 0.6
    s = settings_of(hashing=pick(HASH_OK, HASH_BAD), chunking=pick(CHUNK_OK, CHUNK_BAD),
                    cipher=pick(CIPHER_OK, CIPHER_BAD) if enc else None, kdf=pick(KDF_OK, KDF_BAD) if enc else None, encrypted=enc)
    return {'component': 'random', 'settings': s, 'password': b'pw'.hex() if enc or rng.random() < 0.3 else None}


def flatten(settings, prefix=''):
    out = []
    for k, v in settings.items():
        if isinstance(v, dict):
            out += flatten(v, prefix + k + '.')
        else:
            out.append((prefix + k, v))
    return out


def cli_literal(v):
    """Spelling of a scalar on the command line such that guess_type (fragment) gives it back, or None."""
    if v is None:
        return 'none'
    if isinstance(v, bool):
        return 'true' if v else 'False'
    if isinstance(v, int):
        return str(v)
    if isinstance(v, float) and v * 2 == int(v * 2):
        return repr(v)
    if isinstance(v, str) and v and v[0].isalpha() and all(c.isalnum() or c in '_./-:' for c in v) and v.lower() not in ('none', 'true', 'false'):
        return v
    return None


def cli_cases(lattice, rng, n):
    """The flat dotted command-line form of lattice cases, plus shapes only the flat form can produce."""
    out = []
    pool = [c for c in lattice if c['component'] in ('hashing', 'chunking', 'cipher', 'kdf', 'product')]
    rng.shuffle(pool)
    for c in pool:
        if len(out) >= n:
            break
        args, ok = [], True
        for k, v in flatten(c['settings']):
            lit = cli_literal(v)
            if lit is None:
                ok = False
                break
            if rng.random() < 0.3:
                k = k.replace('_', '-')
            args += ['--' + k, lit]
        if ok:
            out.append({'component': 'cli', 'args': args, 'password': c['password']})
    kdf = ['--encryption.kdf.n', '4', '--encryption.kdf.r', '1', '--encryption.kdf.p', '1']
    ch = ['--chunking.min-length', '64', '--chunking.max_length', '256']
    extra = [
        ch + ['--encryption', 'none'], ch + ['--encryption', 'None', '--hashing.name', 'sha3', '--hashing.bits', '224'],
        ch + ['--encryption', 'aes_gcm'], ch + ['--encryption', 'true'],
        ch + kdf + ['--hashing', 'sha2'], ch + kdf + ['--hashing', 'sha2', '--hashing.bits', '256'],
        ch + kdf + ['--hashing.name', 'sha2', '--hashing.name.x', '1'],
        ch + kdf + ['--hashing.name', "'sha2'", '--hashing.bits', '256'], ch + kdf + ['--hashing.name', '"sha2"', '--hashing.bits', "'256'"],
        ch + kdf + ['--hashing.length', '+32'], ch + kdf + ['--hashing.length', '-32'], ch + kdf + ['--hashing.length', '32.0'],
        ch + kdf + ['--encryption.cipher.name', 'chacha20_poly1305'], ch + kdf + ['--encryption.cipher.key-bits', '128'],
        ch + kdf + ['--encryption.cipher.key_bits', '128', '--encryption.cipher.key-bits', '256'],
        ch + kdf + ['--encryption.kdf', 'scrypt'], ch + kdf + ['--encryption.kdf.name', 'blake2b'],
        ch + ['--encryption.kdf.name', 'blake2b'], ch + kdf + ['--compression.name', 'zstd'],
        ch + kdf + ['--hashing..name', 'sha2'], ch + kdf + ['--.hashing.name', 'sha2'], ch + kdf + ['--hashing.name.', 'sha2'],
        ch + kdf + ['--chunking', 'none'], kdf + ['--chunking.min_length', '5', '--chunking.max_length', '7'],
        kdf + ['--chunking.min_length', '0', '--chunking.max_length', '4'], kdf + ['--chunking.min-length', '1.5', '--chunking.max-length', '256'],
    ]
    for a in extra:
        out.append({'component': 'cli', 'args': a, 'password': b'pw'.hex()})
    return out


# --------------------------------------------------------------------------- real side: init + usability
def real_init(settings, password):
    be = MemBackend()
    repo = Repository(be, concurrent=2, cache_directory=None)
    try:
        res = run_async(lambda: repo.init(password=password, settings=copy.deepcopy(settings)))
    except BaseException as e:  # noqa - any exception is a rejection
        if isinstance(e, (KeyboardInterrupt, SystemExit, MemoryError)):
            raise
        return {'accepted': False, 'error': exc_name(e), 'backend': be, 'result': None}
    finally:
        with contextlib.suppress(Exception):
            run_async(repo.close)
    return {'accepted': True, 'error': None, 'backend': be, 'result': res}


def small_tree(settings_cfg, scratch, rng, tag):
    """Files to back up, sized for the configured digest length and chunk bounds."""
    root = scratch / f'src{tag}'
    root.mkdir(parents=True)
    h = settings_cfg['hashing']
    tiny_digest = h.get('name') == 'blake2b' and isinstance(h.get('length'), int) and h['length'] < 8
    mx = settings_cfg['chunking'].get('max_length', 5_000_000)
    if tiny_digest:
        (root / 'only').write_bytes(rng.randbytes(3))       # one chunk: 1-byte digests collide otherwise
    else:
        (root / 'a').write_bytes(rng.randbytes(300 if mx <= 16 else 3000))
        (root / 'sub').mkdir()
        (root / 'sub' / 'b').write_bytes(b'0123456789')
        (root / 'c').write_bytes(rng.randbytes(1) * 700)
    return root


def tree_bytes(root):
    return {str(p.relative_to(root)): p.read_bytes() for p in sorted(root.rglob('*')) if p.is_file()}


def use_repository(backend, key, password, cfg, scratch, rng, tag):
    """Fresh Repository object: unlock, snapshot a small tree, restore it, compare.  Returns None or a description."""
    src = small_tree(cfg, scratch, rng, tag)
    out = scratch / f'out{tag}'
    repo = Repository(backend, concurrent=2, cache_directory=None)

    async def go():
        await repo.unlock(password=password, key=key)
        snap = await repo.snapshot(paths=[src])
        await repo.restore(path=out, snapshot_regex=f'^{snap.name}$')     # anchored: a 1-byte digest is 2 hex characters
        await repo.close()
    try:
        run_async(go)
        want = tree_bytes(src)
        got = tree_bytes(out / str(src.resolve()).lstrip('/')) if out.exists() else {}
        if want != got:
            missing = sorted(set(want) - set(got))
            return f'restored tree differs from the source (missing {missing}, {sum(1 for k in want if k in got and want[k] != got[k])} files with other contents)'
        return None
    except BaseException as e:  # noqa
        if isinstance(e, (KeyboardInterrupt, SystemExit, MemoryError)):
            raise
        return f'{exc_name(e)}: {e}'[:160]
    finally:
        shutil.rmtree(src, ignore_errors=True)
        shutil.rmtree(out, ignore_errors=True)


def use_keys_together(backend, keys, pws, cfg, scratch, rng, tag):
    """All holders of a key use ONE repository: first every key (a fresh Repository object each) takes a snapshot of
    its own small tree, then every key restores - once without any filter, once filtered by its own snapshot's name -
    and must get its own files back byte-identically, whatever the other keys have stored.  Returns [(key index, text)]."""
    problems, srcs, names = [], [], []
    for i, (key, pw) in enumerate(zip(keys, pws)):
        src = small_tree(cfg, scratch, rng, f'{tag}_k{i}')
        srcs.append(src)
        repo = Repository(backend, concurrent=2, cache_directory=None)

        async def snap():
            await repo.unlock(password=pw, key=key)
            out = await repo.snapshot(paths=[src])
            await repo.close()
            return out.name
        try:
            names.append(run_async(snap))
        except BaseException as e:  # noqa
            if isinstance(e, (KeyboardInterrupt, SystemExit, MemoryError)):
                raise
            names.append(None)
            problems.append((i, f'snapshot: {exc_name(e)}: {e}'[:160]))
    for i, (key, pw) in enumerate(zip(keys, pws)):
        if names[i] is None:
            continue
        for how, regex in (('unfiltered restore', None), ('restore of its own snapshot', f'^{names[i]}$')):
            out = scratch / f'out{tag}_k{i}_{0 if regex is None else 1}'
            repo = Repository(backend, concurrent=2, cache_directory=None)

            async def restore():
                await repo.unlock(password=pw, key=key)
                await repo.restore(path=out, snapshot_regex=regex)
                await repo.close()
            try:
                run_async(restore)
                want = tree_bytes(srcs[i])
                got = tree_bytes(out / str(srcs[i].resolve()).lstrip('/')) if out.exists() else {}
                if want != got:
                    problems.append((i, f'{how} (repository holds snapshots of {len(keys)} keys): restored tree differs from the source '
                                        f'(missing {sorted(set(want) - set(got))})'))
            except BaseException as e:  # noqa
                if isinstance(e, (KeyboardInterrupt, SystemExit, MemoryError)):
                    raise
                problems.append((i, f'{how} (repository holds snapshots of {len(keys)} keys): {exc_name(e)}: {e}'[:200]))
            finally:
                shutil.rmtree(out, ignore_errors=True)
    for src in srcs:
        shutil.rmtree(src, ignore_errors=True)
    return problems


def real_settings_for(case):
    """Settings dict the real init receives for a case (nested as is; CLI form through the real parsers)."""
    if 'args' not in case:
        return 'ok', case['settings']
    flat, unknown = rcli.parse_cli_settings(list(case['args']))
    if unknown:
        return 'unknown-args', None
    try:
        return 'ok', utils.flat_to_nested(flat)
    except exceptions.ReplicatError:
        return 'conflict', None


def observe_case(case, ctx, idx):
    password = None if case['password'] is None else bytes.fromhex(case['password'])
    st, settings = real_settings_for(case)
    if st != 'ok':
        return {'accepted': False, 'error': st, 'puts': [], 'summary': None, 'unusable': None, 'dirty': False}
    r = real_init(settings, password)
    be = r['backend']
    obs = {'accepted': r['accepted'], 'error': r['error'], 'puts': [n for op, n in be.log if op == 'put'],
           'dirty': bool(be.log or be.d) if not r['accepted'] else False, 'summary': None, 'unusable': None}
    if r['accepted']:
        cfg, key = r['result'].config, r['result'].key
        enc = cfg.get('encryption')
        obs['summary'] = [canon_adapter_py(cfg['hashing']), canon_adapter_py(cfg['chunking']),
                          None if enc is None else canon_adapter_py(enc['cipher']),
                          None if key is None else canon_adapter_py(key['kdf'])]
        serialized = None if key is None else Repository(be, concurrent=1, cache_directory=None).serialize(key)
        mx = cfg['chunking'].get('max_length')
        if isinstance(mx, int) and mx >= 2 ** 62:
            obs['unusable'] = None      # lengths near the limits of size_t are used in a process of their own (oversize_probe)
        else:
            obs['unusable'] = use_repository(be, serialized, password, cfg, ctx.scratch, ctx.rng, idx)
    return obs


# --------------------------------------------------------------------------- model side
PRELUDE = '''Set Printing Depth 1000000.
Set Printing Width 240.
From Coq Require Import String ZArith NArith List.
From Replicat Require Import Model.PyVal Model.Settings Model.Keys.
Import ListNotations.
Open Scope string_scope.
Open Scope Z_scope.
Definition show_ad (x : adapter * dict) := (a_name (fst x), snd x).
Definition show (r : option accepted) :=
  match r with
  | None => None
  | Some r => Some [Some (show_ad (c_hash (acc_config r))); Some (show_ad (c_chunk (acc_config r)));
                    option_map show_ad (c_cipher (acc_config r)); option_map (fun k => show_ad (k_kdf k)) (acc_key r)]
  end.
'''


def coq_pw(case):
    return 'None' if case['password'] is None else f'(Some {len(bytes.fromhex(case["password"]))})'


def model_file_init(cases):
    nested = [c for c in cases if 'args' not in c]
    flat = [c for c in cases if 'args' in c]
    lines = [PRELUDE]
    lines.append('Definition nested : list (option Z * option dict) := [')
    lines.append(';\n'.join(f'  ({coq_pw(c)}, {opt_dict_to_coq(c["settings"])})' for c in nested))
    lines.append('].')
    lines.append('Eval vm_compute in map (fun c => let r := init_std (fst c) (snd c) in (fst r, show (snd r))) nested.')
    lines.append('Definition flat : list (option Z * list string) := [')
    lines.append(';\n'.join(f'  ({coq_pw(c)}, [{"; ".join(core.coq_string(a) for a in c["args"])}])' for c in flat))
    lines.append('].')
    lines.append('Eval vm_compute in map (fun c => show (accept_cli_std (fst c) (snd c))) flat.')
    return '\n'.join(lines) + '\n'


def run_model_init(cases, per_file=150):
    jobs, layout = [], []
    for i in range(0, len(cases), per_file):
        chunk = cases[i:i + per_file]
        jobs.append((f'c17_init_{i // per_file}', model_file_init(chunk)))
        layout.append(chunk)
    res = core.coq_eval_files(jobs)
    out = {}
    for (name, _), chunk in zip(jobs, layout):
        rc, text = res[name]
        if rc != 0:
            return None, text[-1500:]
        vals = core.parse_coq_values(text)
        nested = core.parse_coq_term(vals[0])
        flat = core.parse_coq_term(vals[1])
        ni = fi = 0
        for c in chunk:
            if 'args' in c:
                out[id(c)] = (None, flat[fi]); fi += 1
            else:
                puts, shown = nested[ni]; ni += 1
                out[id(c)] = (puts, shown)
    return out, ''


def model_summary(shown):
    if shown is None:
        return None
    return [None if x is None else canon_adapter_coq(x[1]) for x in shown[1]]


# --------------------------------------------------------------------------- init cases: compare + oracles
def case_label(case):
    return {k: case[k] for k in ('component', 'settings', 'args', 'password') if k in case}


def check_init_cases(cases, rep: Report, ctx, with_model=True):
    observed = []
    for idx, case in enumerate(cases):
        obs = observe_case(case, ctx, idx)
        observed.append(obs)
        rep.case(case_label(case), nontrivial=True)
        rep.count(f'{case["component"]}:{"accepted" if obs["accepted"] else "rejected"}')
        if not obs['accepted']:
            rep.count(f'reject:{obs["error"]}')
        sig = {'component': case['component']}
        if obs['dirty']:
            rep.violations.append({'what': f'init rejected the settings ({obs["error"]}) but the backend was written to: {obs["puts"]}',
                                   'signature': dict(sig, kind='rejected_but_written'), 'replay': case_label(case)})
        if obs['accepted'] and obs['unusable'] is not None:
            rep.violations.append({'what': 'init accepted the settings and uploaded the config, but a fresh process cannot '
                                           f'unlock / back up / restore: {obs["unusable"]}',
                                   'signature': dict(sig, kind='accepted_unusable'), 'replay': case_label(case)})
        if obs['accepted'] and obs['puts'] != ['config']:
            rep.violations.append({'what': f'an accepted init wrote {obs["puts"]} instead of exactly the config',
                                   'signature': dict(sig, kind='unexpected_writes'), 'replay': case_label(case)})
    for c, o in zip(cases[:3], observed[:3]):
        rep.sample({'case': case_label(c), 'accepted': o['accepted'], 'error': o['error']})
    if with_model and cases:
        model, err = run_model_init(cases)
        if model is None:
            rep.disagreements.append({'what': 'the settings model could not be evaluated: ' + err, 'replay': None})
            return observed
        for case, obs in zip(cases, observed):
            puts, shown = model[id(case)]
            rep.traces_validated += 1
            m_acc = shown is not None
            if m_acc != obs['accepted']:
                rep.disagreements.append({'what': f'model {"accepts" if m_acc else "rejects"}, implementation '
                                                  f'{"accepts" if obs["accepted"] else "rejects (" + str(obs["error"]) + ")"}',
                                          'replay': case_label(case)})
                continue
            if m_acc and model_summary(shown) != obs['summary']:
                rep.disagreements.append({'what': f'stored configuration differs: model {model_summary(shown)} implementation {obs["summary"]}',
                                          'replay': case_label(case)})
            if puts is not None and list(puts) != obs['puts']:
                rep.disagreements.append({'what': f'backend writes differ: model {puts} implementation {obs["puts"]}', 'replay': case_label(case)})
    return observed


# --------------------------------------------------------------------------- add-key: settings acceptance
ADD_KEY_SETTINGS = ([{'encryption': {'kdf': k}} for k in KDF_OK + KDF_BAD]
                    + [{'encryption': None}, {'encryption': 5}, {'encryption': {'kdf': 'scrypt'}},
                       {'encryption': {'kdf': CHEAP_KDF, 'cipher': {}}}, {'encryption': {'cipher': {}}}, {'hashing': {}},
                       {'encryption': {'kdf': CHEAP_KDF}, 'hashing': {}}, {'kdf': CHEAP_KDF}, {'encryption': {'kdf': CHEAP_KDF, 'mac': {}}}])


def make_repo(cipher, rng):
    s = settings_of(cipher=cipher)
    r = real_init(s, b'owner')
    assert r['accepted'], r['error']
    return r['backend'], r['result']


def check_add_key_settings(rep: Report, ctx, with_model=True):
    cases = []
    for cipher, kb in (({'key_bits': 256}, 32), ({'key_bits': 128}, 16)):
        be, res = make_repo(cipher, ctx.rng)
        before = dict(be.d)
        for s in ADD_KEY_SETTINGS:
            for pw in (b'new', None, b'p' * 65):
                repo = Repository(be, concurrent=1, cache_directory=None)
                try:
                    out = run_async(lambda: repo.add_key(password=pw, settings=copy.deepcopy(s), shared=False))
                    obs = canon_adapter_py(out.new_key['kdf'])
                except BaseException as e:  # noqa
                    if isinstance(e, (KeyboardInterrupt, SystemExit, MemoryError)):
                        raise
                    obs = None
                case = {'component': 'add-key', 'settings': s, 'password': None if pw is None else pw.hex(), 'key_bytes': kb}
                rep.case(case, nontrivial=True)
                rep.count('add-key:' + ('accepted' if obs is not None else 'rejected'))
                if be.d != before:
                    rep.violations.append({'what': 'add-key changed the backend contents', 'signature': {'kind': 'add_key_writes'}, 'replay': case})
                cases.append((case, obs))
    if with_model:
        text = PRELUDE + 'Definition cases : list (option Z * Z * option dict) := [\n' + ';\n'.join(
            f'  ({coq_pw(c)}, {c["key_bytes"]}, {opt_dict_to_coq(c["settings"])})' for c, _ in cases) + '].\n' + \
            "Eval vm_compute in map (fun c => let '(pw, kb, s) := c in option_map show_ad (add_key_accept_std pw kb s)) cases.\n"
        rc, out = core.coq_eval_files([('c17_addkey', text)])['c17_addkey']
        if rc != 0:
            rep.disagreements.append({'what': 'the add-key model could not be evaluated: ' + out[-1200:], 'replay': None})
            return
        vals = core.parse_coq_term(core.parse_coq_values(out)[0])
        for (case, obs), m in zip(cases, vals):
            rep.traces_validated += 1
            mm = None if m is None else canon_adapter_coq(m[1])
            if mm != obs:
                rep.disagreements.append({'what': f'add-key settings: model {mm} implementation {obs}', 'replay': case})


# --------------------------------------------------------------------------- add-key chains and the unlock matrix
CHAIN_KDFS = [CHEAP_KDF, {'name': 'scrypt', 'n': 8, 'r': 2, 'p': 1}, {'name': 'blake2b'}]


def long_password_probe(rep: Report, ctx):
    """Keys made with passwords that are long and share a long head: whatever init / add-key ACCEPT must open with its
    own password and with no near-miss (same first 64 bytes, longer, shorter).  A KDF that cannot take such a password
    must refuse it without producing a key."""
    heads = [b'H' * 64, b'H' * 63 + b'x']
    for kdf in CHAIN_KDFS:
        for pw in (b'H' * 64, b'H' * 64 + b'tail-one', b'H' * 100, b'short'):
            for how in ('init', 'add-key', 'add-key-shared'):
                be, res = make_repo(None, ctx.rng) if how != 'init' else (None, None)
                settings = {'encryption': {'kdf': copy.deepcopy(kdf)}}
                try:
                    if how == 'init':
                        r = real_init(settings_of(kdf=copy.deepcopy(kdf)), pw)
                        if not r['accepted']:
                            continue
                        be, key = r['backend'], Repository(r['backend'], concurrent=1, cache_directory=None).serialize(r['result'].key)
                    else:
                        repo = Repository(be, concurrent=1, cache_directory=None)

                        async def go():
                            if how == 'add-key-shared':
                                await repo.unlock(password=b'owner', key=Repository(be, concurrent=1, cache_directory=None).serialize(res.key))
                            return await repo.add_key(password=pw, settings=settings, shared=how == 'add-key-shared')
                        key = Repository(be, concurrent=1, cache_directory=None).serialize(run_async(go).new_key)
                except BaseException as e:  # noqa
                    if isinstance(e, (KeyboardInterrupt, SystemExit, MemoryError)):
                        raise
                    continue
                rep.case(('long-password', kdf.get('name'), len(pw), how), nontrivial=True)
                rep.count('long_password_keys_made')
                sig = {'kind': 'foreign_password_unlocks', 'kdf': kdf.get('name')}
                try:
                    run_async(lambda: Repository(be, concurrent=1, cache_directory=None).unlock(password=pw, key=key))
                except BaseException as e:  # noqa
                    rep.violations.append({'what': f'{how} accepted a {len(pw)}-byte password with kdf {kdf.get("name")} but the key does not open with it ({exc_name(e)})',
                                           'signature': dict(sig, kind='own_password_fails'), 'replay': {'kdf': kdf, 'password_len': len(pw), 'how': how}})
                for bad in (pw[:-1], pw + b'x', pw[:64] + b'tail-two', pw[:64], pw[:63] + b'I' + pw[64:]):
                    if bad == pw:
                        continue
                    try:
                        run_async(lambda: Repository(be, concurrent=1, cache_directory=None).unlock(password=bad, key=key))
                    except BaseException as e:  # noqa
                        if isinstance(e, (KeyboardInterrupt, SystemExit, MemoryError)):
                            raise
                        continue
                    rep.violations.append({'what': f'a key made by {how} with kdf {kdf.get("name")} and a {len(pw)}-byte password opens with a different '
                                                   f'{len(bad)}-byte password', 'signature': sig,
                                           'replay': {'kdf': kdf, 'password': pw.hex(), 'wrong_password': bad.hex(), 'how': how}})
                    break


# --------------------------------------------------------------------------- several repositories, one cache directory
def shared_cache_probe(rep: Report, ctx):
    """The cache directory is per user, not per repository (the CLI default): several repositories initialised with
    different accepted settings are used one after the other through ONE cache directory - each must unlock with its own
    key, back up and restore - and every snapshot is cross-checked by a client without any cache (another machine)."""
    aes = settings_of(cipher={'name': 'aes_gcm', 'key_bits': 256})
    chacha = settings_of(cipher={'name': 'chacha20_poly1305'}, kdf={'name': 'blake2b'})
    plain = settings_of(encrypted=False)
    sha = settings_of(hashing={'name': 'sha2', 'bits': 256}, encrypted=False)
    sha3 = settings_of(hashing={'name': 'sha3', 'bits': 224}, chunking={'min_length': 5, 'max_length': 8}, encrypted=False)
    for oi, order in enumerate(([aes, chacha, plain, sha], [plain, aes, sha3], [sha, plain, chacha, aes])):
        cache = ctx.scratch / f'cache{oi}'
        repos = []
        for settings in order:
            be = MemBackend()
            pw = None if settings['encryption'] is None else b'pw'
            res = run_async(lambda: Repository(be, concurrent=2, cache_directory=cache).init(password=pw, settings=copy.deepcopy(settings)))
            key = None if res.key is None else Repository(be, concurrent=1, cache_directory=None).serialize(res.key)
            repos.append((be, key, pw, res.config))
        for k, (be, key, pw, cfg) in enumerate(repos):
            case = {'component': 'shared-cache', 'settings': order[:k + 1], 'position': k}
            rep.case(case, nontrivial=k > 0)
            rep.count('shared-cache:repositories')
            src = small_tree(cfg, ctx.scratch, ctx.rng, f'sc{oi}_{k}')
            want = tree_bytes(src)
            name, problem = None, None
            for client, cdir in (('the client sharing the cache directory', cache), ('a client without a cache', None)):
                out = ctx.scratch / f'scout{oi}_{k}_{0 if cdir else 1}'
                repo = Repository(be, concurrent=2, cache_directory=cdir)

                async def go():
                    await repo.unlock(password=pw, key=key)
                    nm = name or (await repo.snapshot(paths=[src])).name
                    await repo.restore(path=out, snapshot_regex=f'^{nm}$')
                    await repo.close()
                    return nm
                try:
                    name = run_async(go)
                    got = tree_bytes(out / str(src.resolve()).lstrip('/')) if out.exists() else {}
                    if got != want:
                        problem = f'{client} restores other contents (missing {sorted(set(want) - set(got))})'
                except BaseException as e:  # noqa
                    if isinstance(e, (KeyboardInterrupt, SystemExit, MemoryError)):
                        raise
                    problem = f'{client}: {exc_name(e)}: {e}'[:200]
                shutil.rmtree(out, ignore_errors=True)
                if problem:
                    break
            shutil.rmtree(src, ignore_errors=True)
            if problem:
                rep.violations.append({'what': f'repository number {k + 1} of {len(repos)} (different accepted settings) used through one cache directory: {problem}',
                                       'signature': {'kind': 'shared_cache', 'position': k}, 'replay': case})
                break
        shutil.rmtree(cache, ignore_errors=True)


# --------------------------------------------------------------------------- chunk lengths near the limits of size_t
OVERSIZE_SCRIPT = r'''
import asyncio, contextlib, io, json, os, sys
from pathlib import Path
from replicat.repository import Repository
from replicat.backends.local import Local
root, mn, mx = Path(sys.argv[1]), int(sys.argv[2]), int(sys.argv[3])
out = {'accepted': False, 'error': None, 'usable': None}
def quiet(coro):
    with contextlib.redirect_stdout(io.StringIO()), contextlib.redirect_stderr(io.StringIO()):
        return asyncio.run(coro)
try:
    quiet(Repository(Local(str(root / 'repo')), concurrent=1, cache_directory=None).init(
        settings={'encryption': None, 'chunking': {'min_length': mn, 'max_length': mx}}))
    out['accepted'] = True
except BaseException as e:
    out['error'] = type(e).__name__
out['written'] = sorted(str(p.relative_to(root)) for p in (root / 'repo').rglob('*') if p.is_file()) if (root / 'repo').exists() else []
print('RESULT ' + json.dumps(out), flush=True)
if out['accepted']:
    src = root / 'src'; src.mkdir(); (src / 'a').write_bytes(bytes(range(256)) * 9); (src / 'b').write_bytes(b'tiny')
    r = Repository(Local(str(root / 'repo')), concurrent=1, cache_directory=None)
    async def go():
        await r.unlock(); await r.snapshot(paths=[src]); await r.restore(path=root / 'out')
    try:
        quiet(go())
        got = {n: (root / 'out' / str(src.resolve()).lstrip('/') / n).read_bytes() for n in ('a', 'b')}
        out['usable'] = 'ok' if got == {n: (src / n).read_bytes() for n in ('a', 'b')} else 'restored files differ'
    except BaseException as e:
        out['usable'] = f'{type(e).__name__}: {e}'[:160]
    print('RESULT ' + json.dumps(out), flush=True)
'''


def oversize_probe(rep: Report, ctx):
    """chunking lengths around 2**62 .. 2**64 and beyond: what init accepts must be usable, in a process of its own because a
    native chunker fed with lengths it cannot represent may take the interpreter down."""
    import subprocess
    for k, (mn, mx) in enumerate(((64, 2 ** 62), (64, 2 ** 63 - 1), (64, 2 ** 63), (64, 2 ** 63 + 5), (64, 2 ** 64 - 1), (64, 2 ** 64),
                                  (2 ** 63, 2 ** 64), (64, 2 ** 100))):
        root = ctx.scratch / f'oversize{k}'
        root.mkdir()
        case = {'component': 'oversize', 'settings': {'encryption': None, 'chunking': {'min_length': mn, 'max_length': mx}}, 'password': None}
        p = subprocess.run([core.PY, '-c', OVERSIZE_SCRIPT, str(root), str(mn), str(mx)], capture_output=True, text=True, timeout=300,
                           env=dict(os.environ, **core.IMPL_ENV), cwd=str(root))
        lines = [json.loads(x[7:]) for x in p.stdout.splitlines() if x.startswith('RESULT ')]
        res = lines[-1] if lines else {'accepted': None, 'error': 'no result', 'usable': None, 'written': []}
        rep.case(case, nontrivial=True)
        rep.count('oversize:' + ('accepted' if res['accepted'] else 'rejected'))
        sig = {'component': 'chunking', 'kind': 'accepted_unusable'}
        if res['accepted'] and (p.returncode != 0 or res['usable'] != 'ok'):
            how = f'the process dies with signal {-p.returncode}' if p.returncode < 0 else (res['usable'] or f'exit status {p.returncode}')
            rep.violations.append({'what': f'init accepted chunking min {mn} / max {mx} and uploaded the config, but a fresh process cannot back up / restore: {how}',
                                   'signature': sig, 'replay': case})
        if res['accepted'] is False and res.get('written'):
            rep.violations.append({'what': f'init rejected chunking min {mn} / max {mx} ({res["error"]}) but wrote {res["written"]}',
                                   'signature': dict(sig, kind='rejected_but_written'), 'replay': case})
        shutil.rmtree(root, ignore_errors=True)


def trailing_nul_probe(rep: Report, ctx):
    """'... with its own password and with no other': own passwords of every shape a password file delivers (ending in LF, CRLF,
    a blank, starting with a blank, other case) must open their key, and every near miss - the same password with a line
    break / blank / NUL added or removed, other case - must be refused."""
    shapes = [b'secret', b'secret\n', b'secret\r\n', b'secret ', b' secret', b'Secret', b'secret\n\n']
    for kdf in CHAIN_KDFS:
        for how in ('init', 'add-key', 'add-key-shared'):
            for pw in shapes:
                replay = {'component': 'trailing-nul', 'kdf': kdf, 'password': pw.hex(), 'how': how}
                try:
                    if how == 'init':
                        r = real_init(settings_of(kdf=copy.deepcopy(kdf)), pw)
                        assert r['accepted'], r['error']
                        be, key = r['backend'], Repository(r['backend'], concurrent=1, cache_directory=None).serialize(r['result'].key)
                    else:
                        be, res = make_repo(None, ctx.rng)
                        repo = Repository(be, concurrent=1, cache_directory=None)

                        async def go():
                            if how == 'add-key-shared':
                                await repo.unlock(password=b'owner', key=Repository(be, concurrent=1, cache_directory=None).serialize(res.key))
                            return await repo.add_key(password=pw, settings={'encryption': {'kdf': copy.deepcopy(kdf)}}, shared=how == 'add-key-shared')
                        key = Repository(be, concurrent=1, cache_directory=None).serialize(run_async(go).new_key)
                except BaseException as e:  # noqa
                    if isinstance(e, (KeyboardInterrupt, SystemExit, MemoryError)):
                        raise
                    rep.violations.append({'what': f'{how} with kdf {kdf.get("name")} and password {pw!r} fails: {exc_name(e)}: {e}'[:200],
                                           'signature': {'kind': 'key_not_made', 'kdf': kdf.get('name')}, 'replay': replay})
                    continue
                rep.case(('near-miss', json.dumps(kdf, sort_keys=True), how, pw.hex()), nontrivial=True)
                rep.count('near-miss-keys')

                def opens(password):
                    try:
                        run_async(lambda: Repository(be, concurrent=1, cache_directory=None).unlock(password=password, key=key))
                        return True
                    except BaseException as e:  # noqa
                        if isinstance(e, (KeyboardInterrupt, SystemExit, MemoryError)):
                            raise
                        return False
                if not opens(pw):
                    rep.violations.append({'what': f'a key made by {how} with kdf {kdf.get("name")} and password {pw!r} does not open with that password',
                                           'signature': {'kind': 'own_password_fails', 'kdf': kdf.get('name')}, 'replay': replay})
                    continue
                wrong = [x for x in shapes if x != pw] + [pw + b'\n', pw + b'\r\n', pw + b' ', b' ' + pw, pw.swapcase(), pw.strip() + b'\t',
                                                         pw + b'\x00', pw + b'\x00\x00\x00', b'\x00' + pw]
                for bad in wrong:
                    if bad != pw and opens(bad):
                        nul = bad.startswith(pw) and set(bad[len(pw):]) == {0}
                        rep.violations.append({'what': f'a key made by {how} with kdf {kdf.get("name")} and password {pw!r} is also unlocked by {bad!r}',
                                               'signature': {'kind': 'unlock_trailing_nul' if nul else 'foreign_password_unlocks', 'kdf': kdf.get('name')},
                                               'replay': dict(replay, wrong_password=bad.hex())})
                        break


# --------------------------------------------------------------------------- key files written by init / add-key
def key_file_probe(rep: Report, ctx):
    """init / add-key with a key output file: the path may be new or already hold something else - nothing, a few bytes,
    a much longer file, the very key that is being rotated (clone in place, shorter or longer KDF serialisation).  The file
    must afterwards hold exactly the key that was handed out, and a fresh process must unlock from the FILE."""
    d = ctx.scratch / 'keyfiles'
    d.mkdir(parents=True, exist_ok=True)
    prefills = {'did not exist': None, 'was empty': b'', 'held 10 bytes': b'x' * 10, 'held a longer file': b'{"old": "' + b'k' * 6000 + b'"}'}
    kdfs = {'scrypt': CHEAP_KDF, 'blake2b': {'name': 'blake2b'}}
    n = [0]

    def judge(path, key, be, pw, case):
        rep.case(case, nontrivial=True)
        rep.count('key-file:' + case['target'])
        want = Repository(be, concurrent=1, cache_directory=None).serialize(key)
        got = path.read_bytes()
        sig = {'kind': 'key_file', 'step': case['step']}
        if got != want:
            rep.violations.append({'what': f'{case["step"]} wrote its key to a file that {case["target"]}: the file holds {len(got)} bytes, the key has '
                                           f'{len(want)} ({"the key followed by " + str(len(got) - len(want)) + " old bytes" if got.startswith(want) else "other contents"})',
                                   'signature': sig, 'replay': case})
            return
        repo = Repository(be, concurrent=1, cache_directory=None)
        try:
            run_async(lambda: repo.unlock(password=pw, key=got))
        except BaseException as e:  # noqa
            if isinstance(e, (KeyboardInterrupt, SystemExit, MemoryError)):
                raise
            rep.violations.append({'what': f'the key file written by {case["step"]} ({case["target"]}) does not unlock the repository: {exc_name(e)}: {e}'[:200],
                                   'signature': sig, 'replay': case})

    for target, pre in prefills.items():
        for kname, kdf in kdfs.items():
            n[0] += 1
            path = d / f'init-{n[0]}.key'
            if pre is not None:
                path.write_bytes(pre)
            be = MemBackend()
            repo = Repository(be, concurrent=1, cache_directory=None)
            res = run_async(lambda: repo.init(password=b'owner', settings=settings_of(kdf=copy.deepcopy(kdf)), key_output_path=path))
            judge(path, res.key, be, b'owner', {'component': 'key-file', 'step': 'init', 'target': target, 'kdf': kname})
    targets = list(prefills) + ['held the key in use']
    for how in ('independent', 'shared', 'clone'):
        for src_kdf, new_kdf in (('scrypt', 'blake2b'), ('blake2b', 'scrypt'), ('scrypt', 'scrypt')):
            for target in targets:
                n[0] += 1
                be = MemBackend()
                own = d / f'own-{n[0]}.key'
                repo = Repository(be, concurrent=1, cache_directory=None)
                run_async(lambda: repo.init(password=b'owner', settings=settings_of(kdf=copy.deepcopy(kdfs[src_kdf])), key_output_path=own))
                path = own if target == 'held the key in use' else d / f'new-{n[0]}.key'
                if prefills.get(target) is not None:
                    path.write_bytes(prefills[target])
                repo = Repository(be, concurrent=1, cache_directory=None)
                settings = {'encryption': {'kdf': copy.deepcopy(kdfs[new_kdf])}}
                new_pw = b'owner' if how == 'clone' else b'newcomer'

                async def go():
                    if how != 'independent':
                        await repo.unlock(password=b'owner', key=own.read_bytes())       # the key comes from its file
                    return await repo.add_key(password=new_pw, settings=settings, shared=how != 'independent', key_output_path=path)
                case = {'component': 'key-file', 'step': f'add-key ({how})', 'target': target, 'kdf': f'{src_kdf}->{new_kdf}'}
                try:
                    out = run_async(go)
                except BaseException as e:  # noqa
                    if isinstance(e, (KeyboardInterrupt, SystemExit, MemoryError)):
                        raise
                    rep.violations.append({'what': f'add-key ({how}) writing to a file that {target} fails: {exc_name(e)}: {e}'[:200],
                                           'signature': {'kind': 'key_file', 'step': case['step']}, 'replay': case})
                    continue
                judge(path, out.new_key, be, new_pw, case)


# --------------------------------------------------------------------------- add-key chains through the real program
def cli_chain_probe(rep: Report, ctx):
    """The same add-key chains produced by real `python -m replicat init / add-key` processes on a local repository (key files
    with -o, passwords with -p / -n, --shared / --clone with -K of the source holder); afterwards every key is tried with every
    password by a fresh Repository object: it opens iff the passwords are equal."""
    import subprocess
    from concurrent.futures import ThreadPoolExecutor
    from replicat.backends.local import Local
    kdf = ['--encryption.kdf.n', '4', '--encryption.kdf.r', '1', '--encryption.kdf.p', '1']
    env = dict(os.environ, **core.IMPL_ENV)
    env['HOME'] = str(ctx.scratch)
    chains = [[('shared', 0)], [('shared', 0), ('shared', 1)], [('ind',), ('shared', 1)], [('clone', 0), ('shared', 1)],
              [('shared', 0), ('clone', 1)], [('ind',), ('clone', 1), ('shared', 2)], [('shared', 0), ('ind',), ('shared', 0)]]

    def one(ci):
        ops = chains[ci]
        d = ctx.scratch / f'clichain{ci}'
        d.mkdir()
        keys, pws, log = [d / 'k0'], [b'owner'], []

        def run(argv):
            p = subprocess.run([core.PY, '-m', 'replicat'] + argv + ['--ignore-config'], env=env, cwd=str(d), capture_output=True, text=True, timeout=300)
            log.append(argv)
            return p.returncode, (p.stderr.strip().splitlines() or ['?'])[-1][:160]
        rc, err = run(['init', '-r', str(d / 'repo'), '-p', 'owner', '-o', str(keys[0])] + kdf)
        if rc != 0:
            return ops, log, pws, None, f'init exits with status {rc}: {err}'
        for i, op in enumerate(ops):
            new_pw = f'user{i + 1}'.encode()
            out = d / f'k{i + 1}'
            if op[0] == 'ind':
                argv = ['add-key', '-r', str(d / 'repo'), '-n', new_pw.decode(), '-o', str(out)] + kdf
            else:
                argv = ['add-key', '--' + op[0], '-r', str(d / 'repo'), '-K', str(keys[op[1]]), '-p', pws[op[1]].decode(), '-o', str(out)] + kdf
                if op[0] == 'shared':
                    argv += ['-n', new_pw.decode()]
            rc, err = run(argv)
            if rc != 0:
                return ops, log, pws, None, f'`replicat {" ".join(argv)}` exits with status {rc}: {err}'
            keys.append(out)
            pws.append(pws[op[1]] if op[0] == 'clone' else new_pw)
        return ops, log, pws, (d, keys), None

    def unlock_matrix(d, keys, pws):
        # in the main thread: redirecting stdout / stderr is not thread-safe
        matrix = []
        for kf in keys:
            row = []
            for pw in pws:
                try:
                    run_async(lambda: Repository(Local(str(d / 'repo')), concurrent=1, cache_directory=None).unlock(password=pw, key=kf.read_bytes()))
                    row.append(True)
                except BaseException as e:  # noqa
                    if isinstance(e, (KeyboardInterrupt, SystemExit, MemoryError)):
                        raise
                    row.append(False)
            matrix.append(row)
        return matrix
    with ThreadPoolExecutor(max_workers=len(chains)) as ex:     # only the child processes run in parallel
        results = list(ex.map(one, range(len(chains))))
    for ops, log, pws, made, failure in results:
        matrix = None if failure else unlock_matrix(made[0], made[1], pws)
        case = {'component': 'cli-chain', 'ops': [list(o) for o in ops], 'commands': log}
        rep.case(case, nontrivial=True)
        rep.count('cli-chain:chains')
        if failure:
            rep.violations.append({'what': f'add-key chain {ops} through the command line: {failure}', 'signature': {'kind': 'cli_chain_failed'}, 'replay': case})
            continue
        for i in range(len(pws)):
            for j in range(len(pws)):
                if matrix[i][j] != (pws[i] == pws[j]):
                    rep.violations.append({'what': f'add-key chain {ops} through the command line ({[" ".join(c[:3]) for c in log]}): key {i} '
                                                   + (f'opens with the password of key {j} ({pws[j]!r}), not its own' if matrix[i][j] else f'does not open with its own password {pws[i]!r}'),
                                           'signature': {'kind': 'foreign_password_unlocks' if matrix[i][j] else 'own_password_fails', 'via': 'cli'}, 'replay': case})
                    break
            else:
                continue
            break


# --------------------------------------------------------------------------- rejected calls leave everything as it was
def rejected_output_probe(rep: Report, ctx):
    """Rejected settings leave everything as it was: for every rejected init / add-key call the backend is byte-for-byte
    unchanged AND a key output path that already holds a key (the key in use: re-keying in place) or any other file is
    untouched - same bytes, and the key in it still unlocks; a path that did not exist still does not."""
    d = ctx.scratch / 'rejected'
    d.mkdir(parents=True, exist_ok=True)
    bad_add = ([{'encryption': {'kdf': k}} for k in (
        {'name': 'scrypt', 'n': 3, 'r': 1, 'p': 1}, {'name': 'scrypt', 'n': 4, 'r': 0, 'p': 1}, {'name': 'scrypt', 'n': 4, 'r': 1, 'p': '1'},
        {'name': 'scrypt', 'n': 4.0, 'r': 1, 'p': 1}, {'name': 'pbkdf2'}, {'name': 'sha2'}, {'name': 'scrypt', 'n': 4, 'r': 1, 'p': 1, 'salt': 'x'},
        {'name': 'blake2b', 'length': 32}, {'name': 9})]
        + [{'encryption': {'kdf': CHEAP_KDF, 'cipher': {}}}, {'hashing': {}}, {'encryption': None}, {'encryption': {'kdf': 'scrypt'}}])
    n = 0
    for how in ('independent', 'shared', 'clone'):
        for settings in bad_add + ['no-password']:
            for target in ('the key in use', 'another file', 'no file'):
                n += 1
                be = MemBackend()
                own = d / f'own-{n}.key'
                run_async(lambda: Repository(be, concurrent=1, cache_directory=None).init(password=b'owner', settings=settings_of(), key_output_path=own))
                path = {'the key in use': own, 'another file': d / f'other-{n}', 'no file': d / f'absent-{n}'}[target]
                if target == 'another file':
                    path.write_bytes(b'something else worth keeping\n' * 30)
                before_file = path.read_bytes() if path.exists() else None
                before_be = dict(be.d)
                repo = Repository(be, concurrent=1, cache_directory=None)
                pw = None if settings == 'no-password' else (b'owner' if how == 'clone' else b'newcomer')
                st = {'encryption': {'kdf': CHEAP_KDF}} if settings == 'no-password' else copy.deepcopy(settings)

                async def go():
                    if how != 'independent':
                        await repo.unlock(password=b'owner', key=own.read_bytes())
                    return await repo.add_key(password=pw, settings=st, shared=how != 'independent', key_output_path=path)
                case = {'component': 'rejected-output', 'call': f'add-key ({how})', 'settings': settings, 'target': target}
                try:
                    run_async(go)
                    rep.count('rejected-output:accepted')
                    continue            # accepted after all: judged elsewhere
                except BaseException as e:  # noqa
                    if isinstance(e, (KeyboardInterrupt, SystemExit, MemoryError)):
                        raise
                    err = exc_name(e)
                rep.case(case, nontrivial=True)
                rep.count('rejected-output:add-key')
                _judge_untouched(rep, case, err, be, before_be, path, before_file, own if target == 'the key in use' else None)
    bad_init = ([settings_of(hashing=h) for h in ({'length': 0}, {'name': 'aes_gcm'}, {'name': 'sha2', 'bits': 1}, {'size': 3})]
                + [settings_of(chunking=c) for c in ({'min_length': 0, 'max_length': 4}, {'min_length': 1.5, 'max_length': 256}, {'name': 'sha2'})]
                + [settings_of(cipher=c) for c in ({'key_bits': 64}, {'nonce_bits': 63}, {'name': 'blake2b'})]
                + [settings_of(kdf=k) for k in ({'name': 'scrypt', 'n': 3, 'r': 1, 'p': 1}, {'name': 'scrypt', 'n': 4, 'r': 0, 'p': 1}, {'name': 'nope'})]
                + [{'compression': {}, 'encryption': {'kdf': CHEAP_KDF}}, 'no-password'])
    for settings in bad_init:
        for target in ('a key of another repository', 'another file', 'no file'):
            n += 1
            other_be, own = MemBackend(), d / f'own-{n}.key'
            run_async(lambda: Repository(other_be, concurrent=1, cache_directory=None).init(password=b'owner', settings=settings_of(), key_output_path=own))
            path = {'a key of another repository': own, 'another file': d / f'other-{n}', 'no file': d / f'absent-{n}'}[target]
            if target == 'another file':
                path.write_bytes(b'something else worth keeping\n' * 30)
            before_file = path.read_bytes() if path.exists() else None
            be = MemBackend()
            pw = None if settings == 'no-password' else b'pw'
            st = settings_of() if settings == 'no-password' else copy.deepcopy(settings)
            case = {'component': 'rejected-output', 'call': 'init', 'settings': settings, 'target': target}
            try:
                run_async(lambda: Repository(be, concurrent=1, cache_directory=None).init(password=pw, settings=st, key_output_path=path))
                rep.count('rejected-output:accepted')
                continue
            except BaseException as e:  # noqa
                if isinstance(e, (KeyboardInterrupt, SystemExit, MemoryError)):
                    raise
                err = exc_name(e)
            rep.case(case, nontrivial=True)
            rep.count('rejected-output:init')
            _judge_untouched(rep, case, err, be, {}, path, before_file, None)
            if target == 'a key of another repository':
                _still_unlocks(rep, case, err, other_be, own)


def _still_unlocks(rep, case, err, be, keyfile):
    try:
        run_async(lambda: Repository(be, concurrent=1, cache_directory=None).unlock(password=b'owner', key=keyfile.read_bytes()))
    except BaseException as e:  # noqa
        if isinstance(e, (KeyboardInterrupt, SystemExit, MemoryError)):
            raise
        rep.violations.append({'what': f'{case["call"]} rejected its settings ({err}); the key file it was pointed at ({case["target"]}) no longer unlocks: {exc_name(e)}: {e}'[:220],
                               'signature': {'kind': 'rejected_but_key_file_touched', 'call': case['call']}, 'replay': case})


def _judge_untouched(rep, case, err, be, before_be, path, before_file, keyfile):
    sig = {'kind': 'rejected_but_key_file_touched', 'call': case['call']}
    if be.d != before_be:
        rep.violations.append({'what': f'{case["call"]} rejected its settings ({err}) but the backend changed: {sorted(set(be.d) ^ set(before_be)) or "contents"}',
                               'signature': dict(sig, kind='rejected_but_written'), 'replay': case})
    after = path.read_bytes() if path.exists() else None
    if after != before_file:
        rep.violations.append({'what': f'{case["call"]} rejected its settings ({err}) with the key output path at {case["target"]}: the path held '
                                       f'{"nothing" if before_file is None else str(len(before_file)) + " bytes"} before and '
                                       f'{"nothing" if after is None else str(len(after)) + " bytes"} afterwards',
                               'signature': sig, 'replay': case})
    elif keyfile is not None:
        _still_unlocks(rep, case, err, be, keyfile)


# --------------------------------------------------------------------------- init again at a location that holds a repository
def reinit_probe(rep: Report, ctx, n_random):
    """Sequences of accepted inits with different settings at ONE location of the real local backend: after each of them the
    stored config must be the generated one, and a fresh process (new backend object, new Repository) must unlock with the
    key just handed out, back up and restore."""
    from replicat.backends.local import Local
    unenc = settings_of(encrypted=False)
    aes = settings_of(cipher={'name': 'aes_gcm', 'key_bits': 128})
    chacha = settings_of(cipher={'name': 'chacha20_poly1305'})
    sha = settings_of(hashing={'name': 'sha2', 'bits': 256}, encrypted=False)
    seqs = [[unenc, aes], [aes, chacha], [aes, unenc], [unenc, sha, chacha], [aes, aes]]
    pool = product_cases(ctx.rng, None)
    for _ in range(n_random):
        seqs.append([c['settings'] for c in ctx.rng.sample(pool, ctx.rng.choice([2, 3]))])
    for si, seq in enumerate(seqs):
        root = ctx.scratch / f'localrepo{si}'
        for k, settings in enumerate(seq):
            case = {'component': 'reinit', 'sequence': seq[:k + 1]}
            rep.case(case, nontrivial=k > 0)
            rep.count(f'reinit:step{k}')
            pw = None if settings.get('encryption', {}) is None else b'pw'
            repo = Repository(Local(str(root)), concurrent=2, cache_directory=None)
            try:
                res = run_async(lambda: repo.init(password=pw, settings=copy.deepcopy(settings)))
                run_async(repo.close)
            except BaseException as e:  # noqa
                if isinstance(e, (KeyboardInterrupt, SystemExit, MemoryError)):
                    raise
                rep.count('reinit:refused')
                break               # refusing to initialise over an existing repository is fine; pretending is not
            fresh = Local(str(root))
            reader = Repository(fresh, concurrent=1, cache_directory=None)
            stored = reader.deserialize(fresh.download('config'))
            sig = {'kind': 'reinit', 'step': k}
            if stored != res.config:
                rep.violations.append({'what': f'init number {k + 1} at one location was accepted and handed out a key for {res.config}, but the location holds the config {stored}',
                                       'signature': sig, 'replay': case})
                break
            key = None if res.key is None else reader.serialize(res.key)
            problem = use_repository(Local(str(root)), key, pw, res.config, ctx.scratch, ctx.rng, f're{si}_{k}')
            if problem is not None:
                rep.violations.append({'what': f'init number {k + 1} at one location was accepted, but a fresh process cannot unlock / back up / restore: {problem}',
                                       'signature': sig, 'replay': case})
                break
        shutil.rmtree(root, ignore_errors=True)


def all_chains(maxlen):
    """All sequences of add-key operations of length <= maxlen: ('ind',), ('shared', src), ('clone', src)."""
    out = []

    def rec(prefix):
        if prefix:
            out.append(list(prefix))
        if len(prefix) == maxlen:
            return
        nkeys = len(prefix) + 1
        for op in [('ind',)] + [('shared', s) for s in range(nkeys)] + [('clone', s) for s in range(nkeys)]:
            rec(prefix + [op])
    rec([])
    return out


def run_chain(cipher, ops, kdf_choice, same_pw, ctx, tag):
    """Execute the chain on the real code.  Returns (matrix, errors, private partition, usable problems, passwords)."""
    # every key is taken from STANDARD OUTPUT, where init / add-key print it when no key output file is given (files:
    # key_file_probe), and must be the key the call returns
    be = MemBackend()
    de = lambda text: Repository(be, concurrent=1, cache_directory=None).deserialize(text)  # noqa
    res, printed = run_async_capture(lambda: Repository(be, concurrent=1, cache_directory=None).init(password=b'owner', settings=settings_of(cipher=cipher)))
    keys, pws, stdout_differs, failed = [last_json_object(printed)], [b'owner'], [], None
    if keys[0] is None or de(keys[0]) != res.key:
        stdout_differs.append(0)
        keys[0] = keys[0] or Repository(be, concurrent=1, cache_directory=None).serialize(res.key)
    for i, op in enumerate(ops):
        kdf = CHAIN_KDFS[kdf_choice[i] % len(CHAIN_KDFS)]
        settings = {'encryption': {'kdf': copy.deepcopy(kdf)}}
        new_pw = b'owner' if (same_pw and i == 0 and op[0] != 'clone') else f'user{i + 1}'.encode()
        repo = Repository(be, concurrent=1, cache_directory=None)

        async def go():
            if op[0] == 'ind':
                return await repo.add_key(password=new_pw, settings=settings, shared=False)
            await repo.unlock(password=pws[op[1]], key=keys[op[1]])
            return await repo.add_key(password=pws[op[1]] if op[0] == 'clone' else new_pw, settings=settings, shared=True)
        try:
            out, printed = run_async_capture(go)
        except BaseException as e:  # noqa - the chain ends here; what was made so far is still judged
            if isinstance(e, (KeyboardInterrupt, SystemExit, MemoryError)):
                raise
            failed = (op[1] if len(op) > 1 else 0,
                      f'add-key {op} could not be run (fresh process, key and password of holder {op[1] if len(op) > 1 else "-"}): {exc_name(e)}: {e}'[:200])
            break
        keys.append(last_json_object(printed))
        if keys[-1] is None or de(keys[-1]) != out.new_key:
            stdout_differs.append(i + 1)
            keys[-1] = keys[-1] or Repository(be, concurrent=1, cache_directory=None).serialize(out.new_key)
        pws.append(pws[op[1]] if op[0] == 'clone' else new_pw)
    n = len(keys)
    matrix, errors, privates = [], {}, []
    for i in range(n):
        row = []
        for j in range(n):
            repo = Repository(be, concurrent=1, cache_directory=None)
            try:
                run_async(lambda: repo.unlock(password=pws[j], key=keys[i]))
                row.append(True)
                if i == j:
                    privates.append(json.dumps(repo.props.private, sort_keys=True, default=lambda b: bytes(b).hex()))
            except BaseException as e:  # noqa
                if isinstance(e, (KeyboardInterrupt, SystemExit, MemoryError)):
                    raise
                row.append(False)
                errors[exc_name(e)] = errors.get(exc_name(e), 0) + 1
                if i == j:
                    privates.append(f'<locked {i}>')
        matrix.append(row)
    cfg = res.config
    problems = use_keys_together(be, keys, pws, cfg, ctx.scratch, ctx.rng, tag)
    # a key must not open with a password that was never anybody's
    repo = Repository(be, concurrent=1, cache_directory=None)
    stranger = []
    for i in range(n):
        try:
            run_async(lambda: repo.unlock(password=b'nobody', key=keys[i]))
            stranger.append(i)
        except BaseException as e:  # noqa
            if isinstance(e, (KeyboardInterrupt, SystemExit, MemoryError)):
                raise
    partition = [privates.index(p) for p in privates]
    problems += [(i, 'the key printed on standard output is not the key the call returned (or no key was printed)') for i in stdout_differs]
    if failed:
        problems.append(failed)
    return matrix, errors, partition, problems, pws, stranger


def chain_to_coq(ops, kdf_choice, pws):
    ids = {}
    pwid = lambda p: ids.setdefault(p, len(ids) + 1)  # noqa
    pw0 = pwid(pws[0])
    items = []
    for i, op in enumerate(ops):
        prm, salt = kdf_choice[i] % len(CHAIN_KDFS) + 1, i + 10
        if op[0] == 'ind':
            items.append(f'TIndependent {pwid(pws[i + 1])} {prm} {salt} {2000 + i}')
        elif op[0] == 'shared':
            items.append(f'TShared {op[1]}%nat {pwid(pws[i + 1])} {prm} {salt}')
        else:
            items.append(f'TClone {op[1]}%nat {prm} {salt}')
    return f'({pw0}, [{"; ".join(items)}])'


def check_chains(rep: Report, ctx, n_len3, ciphers, with_model=True):
    chains = all_chains(3)
    short = [c for c in chains if len(c) <= 2]
    long_ = [c for c in chains if len(c) == 3]
    if n_len3 is not None and n_len3 < len(long_):
        long_ = ctx.rng.sample(long_, n_len3)
    todo = []
    for ci, cipher in enumerate(ciphers):
        for ops in (short + long_ if ci == 0 else ctx.rng.sample(short + long_, max(6, len(short + long_) // 4))):
            # KDF settings per key: random, or (every third chain) those of the first key for every key - a new key may well
            # have the password AND the KDF settings of the key that was used to unlock
            kdf_choice = [ctx.rng.randrange(3) for _ in ops] if len(todo) % 3 else [0 for _ in ops]
            todo.append((cipher, ops, kdf_choice, ctx.rng.random() < 0.15))
    results = []
    for t, (cipher, ops, kdf_choice, same_pw) in enumerate(todo):
        case = {'component': 'chain', 'cipher': cipher, 'ops': [list(o) for o in ops], 'kdfs': kdf_choice, 'same_pw': same_pw}
        matrix, errors, partition, problems, pws, stranger = run_chain(cipher, ops, kdf_choice, same_pw, ctx, f'c{t}')
        rep.case(case, nontrivial=True)
        rep.count(f'chain:len{len(ops)}')
        for o in ops:
            rep.count('chain-op:' + o[0])
        for k, v in errors.items():
            rep.count('wrong-password-error:' + k, v)
        n = len(pws)
        for i in range(n):
            for j in range(n):
                want = pws[i] == pws[j]
                if matrix[i][j] and not want:
                    rep.violations.append({'what': f'key {i} of the chain {ops} unlocks with the password of key {j} (a different password)',
                                           'signature': {'kind': 'foreign_password_unlocks'}, 'replay': case})
                if want and not matrix[i][j]:
                    rep.violations.append({'what': f'key {i} of the chain {ops} does not unlock with its own password',
                                           'signature': {'kind': 'own_password_fails'}, 'replay': case})
        if stranger:
            rep.violations.append({'what': f'keys {stranger} unlock with a password nobody chose', 'signature': {'kind': 'foreign_password_unlocks'}, 'replay': case})
        for i, p in problems:
            rep.violations.append({'what': f'key {i} of the chain {ops} unlocks but the repository cannot be used with it: {p}',
                                   'signature': {'kind': 'key_unusable'}, 'replay': case})
        if len(pws) == len(ops) + 1:        # a chain that could not be completed is reported above, not compared with the model
            results.append((case, ops, kdf_choice, pws, matrix, partition))
    if with_model and results:
        text = PRELUDE + 'Open Scope N_scope.\nDefinition chains : list (N * list top) := [\n' + ';\n'.join(
            '  ' + chain_to_coq(ops, kc, pws) for _, ops, kc, pws, _, _ in results) + '].\n' + \
            'Eval vm_compute in map (fun c => toy_chain (fst c) (snd c)) chains.\n'
        rc, out = core.coq_eval_files([('c17_chains', text)])['c17_chains']
        if rc != 0:
            rep.disagreements.append({'what': 'the key-chain model could not be evaluated: ' + out[-1200:], 'replay': None})
            return
        vals = core.parse_coq_term(core.parse_coq_values(out)[0])
        for (case, ops, kc, pws, matrix, partition), m in zip(results, vals):
            rep.traces_validated += 1
            if m is None:
                rep.disagreements.append({'what': 'the model says the chain fails, the implementation ran it', 'replay': case})
                continue
            mm, privs = m[1]
            mpart = [privs.index(p) for p in privs]
            if [list(r) for r in mm] != matrix:
                rep.disagreements.append({'what': f'unlock matrix differs: model {mm} implementation {matrix}', 'replay': case})
            if mpart != partition:
                rep.disagreements.append({'what': f'sharing of private sections differs: model {mpart} implementation {partition}', 'replay': case})


# --------------------------------------------------------------------------- utilities: flat_to_nested, guess_type
FLAT_KEYS = ['a', 'a.b', 'a.b.c', 'a.c', 'b', 'b.a', 'a_b', 'a.b.d', 'c.d.e', 'c.d', 'c', 'a..b', '.a', 'a.', 'ab', 'a.bc', 'A', 'a0']
GUESS_STRINGS = ['none', 'None', 'NONE', 'nOnE', 'true', 'True', 'TRUE', 'false', 'False', 'fAlse', '0', '1', '-1', '+7', '42', '-0',
                 '128000', '1.5', '2.0', '-3.5', '0.5', '+1.0', "'abc'", '"abc"', "'12'", '"12"', "''", '""', "'true'", '"None"',
                 "'a b'", 'abc', 'sha2', 'aes_gcm', 'a-b', 'a.b', 'a/b', '/tmp/x', 'a:b', 's3c', 'x1', '_x', 'nonex', 'truex',
                 'localhost', 'example.com', 'https', 'a-1']


def check_utils(rep: Report, ctx, n_flat):
    flats = []
    for _ in range(n_flat):
        keys = ctx.rng.sample(FLAT_KEYS, ctx.rng.randint(1, 5))
        flats.append({k: ctx.rng.choice([1, 'x', None, True, 2.5]) for k in keys})
    text = PRELUDE + 'Definition flats : list (list (string * value)) := [\n' + ';\n'.join('  ' + dict_to_coq(f) for f in flats) + '].\n' \
        'Eval vm_compute in map flat_to_nested flats.\n' \
        f'Eval vm_compute in map guess [{"; ".join(core.coq_string(s) for s in GUESS_STRINGS)}].\n'
    rc, out = core.coq_eval_files([('c17_utils', text)])['c17_utils']
    if rc != 0:
        rep.disagreements.append({'what': 'the flat_to_nested / guess model could not be evaluated: ' + out[-1200:], 'replay': None})
        return
    vals = core.parse_coq_values(out)
    nested = core.parse_coq_term(vals[0])
    guessed = core.parse_coq_term(vals[1])
    for f, m in zip(flats, nested):
        try:
            real = canon(utils.flat_to_nested(dict(f)))
        except exceptions.ReplicatError:
            real = None
        mm = None if m is None else canon_coq(('VDict', m[1]))
        rep.case({'component': 'flat_to_nested', 'flat': f}, nontrivial=len(f) > 1)
        rep.count('flat_to_nested:' + ('conflict' if real is None else 'ok'))
        rep.traces_validated += 1
        if mm != real:
            rep.disagreements.append({'what': f'flat_to_nested({f}): model {mm} implementation {real}', 'replay': {'flat': f}})
    for s, m in zip(GUESS_STRINGS, guessed):
        real = canon(utils.guess_type(s))
        rep.case({'component': 'guess_type', 'string': s}, nontrivial=True)
        rep.traces_validated += 1
        if m is None:
            rep.disagreements.append({'what': f'guess_type({s!r}) lies outside the modelled fragment', 'replay': {'string': s}})
        elif canon_coq(m[1]) != real:
            rep.disagreements.append({'what': f'guess_type({s!r}): model {canon_coq(m[1])} implementation {real}', 'replay': {'string': s}})


# --------------------------------------------------------------------------- the check
RULE = ('settings dictionaries enumerated structurally: every listed value (valid, out of range, mistyped, unknown, wrong kind of adapter) '
        'of every component (hashing, chunking, cipher, kdf) against a valid base, encrypted and unencrypted, top-level shape errors, '
        'passwords (none, empty, 64/65 bytes); accepted products across components; the flat dotted command-line form through '
        'parse_cli_settings / flat_to_nested; add-key settings; add-key chains of length <= 3 (independent/shared/clone, KDF per key) '
        'with the full key x password unlock matrix; distinct = distinct (component, settings, password) / chain')


def run(ctx) -> Report:
    rep = Report(rule=RULE)
    lattice = lattice_cases()
    prod = product_cases(ctx.rng, ctx.scale(60, None))
    cli = cli_cases(lattice + prod, ctx.rng, ctx.scale(60, 400))
    check_init_cases(lattice + prod + cli, rep, ctx)
    check_add_key_settings(rep, ctx)
    ciphers = [{'key_bits': 256}, {'name': 'chacha20_poly1305'}, {'key_bits': 128, 'nonce_bits': 64}]
    def guard(name, fn, *a):
        # a probe that aborts (an exception of the implementation where the probe did not expect one) is reported with its
        # traceback and must not take the other probes down
        try:
            fn(*a)
        except Exception:  # noqa
            import traceback
            rep.disagreements.append({'what': f'{name} aborted: ' + traceback.format_exc()[-900:], 'replay': {'component': name}})
    guard('check_add_key_chains', check_chains, rep, ctx, ctx.scale(25, None), ciphers if ctx.tier == 'thorough' else ciphers[:2])
    guard('long_password_probe', long_password_probe, rep, ctx)
    guard('key_file_probe', key_file_probe, rep, ctx)
    guard('rejected_output_probe', rejected_output_probe, rep, ctx)
    guard('cli_chain_probe', cli_chain_probe, rep, ctx)
    guard('reinit_probe', reinit_probe, rep, ctx, ctx.scale(4, 40))
    guard('oversize_probe', oversize_probe, rep, ctx)
    guard('near_miss_probe', trailing_nul_probe, rep, ctx)
    guard('shared_cache_probe', shared_cache_probe, rep, ctx)
    guard('check_utils', check_utils, rep, ctx, ctx.scale(60, 400))
    rep.notes.append('not exercised: the default user KDF (scrypt n=2**20, 1 GiB) - every encrypted case names cheap KDF parameters')
    return rep


def search(ctx, broken) -> Report:
    """Model-free search: random mixtures of valid and invalid entries in all components, plus the disagreeing cases."""
    rep = Report(rule=RULE)
    seeds = [b['case'] for b in broken if isinstance(b.get('case'), dict) and ('settings' in b['case'] or 'args' in b['case'])
             and b['case'].get('component') != 'add-key']
    cases = [dict(c, component=c.get('component', 'seed')) for c in seeds]
    cases += [random_case(ctx.rng) for _ in range(1500)]
    check_init_cases(cases, rep, ctx, with_model=False)
    check_chains(rep, ctx, None, [{'key_bits': 256}, {'name': 'chacha20_poly1305'}], with_model=False)
    key_file_probe(rep, ctx)
    reinit_probe(rep, ctx, 60)
    return rep


def replay(ctx, obj):
    rep = Report(rule=RULE)
    case = obj.get('replay') or {}
    if case.get('component') in ('key-file', 'reinit', 'oversize', 'trailing-nul', 'shared-cache', 'rejected-output', 'cli-chain'):
        {'shared-cache': shared_cache_probe, 'cli-chain': cli_chain_probe, 'rejected-output': rejected_output_probe, 'key-file': key_file_probe, 'reinit': lambda r, c: reinit_probe(r, c, 10), 'oversize': oversize_probe,
         'trailing-nul': trailing_nul_probe}[case['component']](rep, ctx)
        for v in rep.violations:
            print('VIOLATION-REPRODUCED', v['what'])
        if not rep.violations:
            print('not reproduced on the current working tree')
        return 1 if rep.violations else 0
    if case.get('component') == 'chain':
        matrix, errors, partition, problems, pws, stranger = run_chain(case['cipher'], [tuple(o) for o in case['ops']], case['kdfs'],
                                                                       case.get('same_pw', False), ctx, 'r')
        print('unlock matrix (key x password):', matrix, 'passwords:', pws, 'problems:', problems, 'stranger:', stranger)
        bad = any(matrix[i][j] != (pws[i] == pws[j]) for i in range(len(pws)) for j in range(len(pws))) or problems or stranger
        return 1 if bad else 0
    if 'settings' in case or 'args' in case:
        case.setdefault('component', 'replay')
        case.setdefault('password', None)
        check_init_cases([case], rep, ctx)
    else:
        print('replay file does not carry a settings case:', obj.get('kind'))
        return 0
    for v in rep.violations:
        print('VIOLATION-REPRODUCED', v['what'])
    for d in rep.disagreements:
        print('DISAGREEMENT-REPRODUCED', d['what'])
    if not rep.violations and not rep.disagreements:
        print('not reproduced on the current working tree')
    return 1 if rep.violations or rep.disagreements else 0
