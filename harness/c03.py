"""C03 - interrupted commands leave a consistent, usable repository.
Fault enumeration on the real commands: for a sampled command (snapshot / delete / clean) in a sampled
repository state, EVERY prefix of its mutation sequence (kill) and EVERY single permanently failing
mutation, then the consequences the property names are checked (every visible snapshot restorable,
listing works, new snapshot works, clean collects exactly the orphans).  The state before and after is
lifted and the clean is also predicted by Model/Repo.exec.  Plus the local backend's temp-file stages."""
from __future__ import annotations

import asyncio
import contextlib
import io
import json
import os
import random
import shutil
from pathlib import Path

from harness import core, repo_hist
from harness.core import Report
from harness.memstore import MemBackend
from harness.repo_hist import World, FaultBackend, quiet

RULE = ('cases = (repository state from a short multi-user history, one target command, fault mode in {kill, permanent failure}, index k of '
        'the backend mutation at which it strikes), k enumerated exhaustively over the mutation sequence of the sampled command under the '
        'completion order of that run; after each: restore every visible snapshot, list, take and restore a new snapshot, clean and compare '
        'the family\'s chunk objects with the referenced set and with the model; plus local-backend temp-file stages; '
        'non-trivial = fault strikes strictly inside the mutation sequence (0 < k); distinct = distinct (seed, command, mode, k)')


async def _settle(fb):
    for _ in range(2000):
        if not fb.inflight:
            break
        await asyncio.sleep(0.001)
    await asyncio.sleep(0.004)


def scenario(seed, scratch: Path, rep: Report, max_points, force=None):
    """force = (target command, concurrency): the kinds rotate with the scenario's position in the run, so that every run has a snapshot,
    a delete and a clean target at concurrency >= 2 whose permanent-failure points are ALL enumerated"""
    rng = random.Random(seed)
    encrypted = rng.random() < 0.7
    world = World(seed, encrypted, scratch, concurrent=force[1] if force else rng.choice([1, 2, 3]), delay=0.0005, nusers=rng.choice([2, 3]),
                  chunking=rng.choice([(16, 64), (8, 32)]))
    model_cases, expectations = [], []

    def viol(kind, what, extra=None):
        rep.violations.append({'what': what, 'signature': {'kind': kind}, 'replay': {'seed': seed, 'detail': extra, 'force': list(force) if force else None}})

    async def go():
        await world.setup()
        # base history
        for _ in range(rng.choice([2, 3, 4])):
            u = rng.choice(world.users)
            d, f = world.make_files(u['name'])
            await world.snapshot(u, d, f)
        if rng.random() < 0.4:
            u = rng.choice(world.users)
            own = [n for n, s in world.snaps.items() if s['owner'] == u['name']]
            if own:
                await world.delete(u, [rng.choice(own)])
        base_objects = dict(world.backend.objects)
        base_snaps = dict(world.snaps)
        target_kind = rng.choice(['snapshot', 'snapshot', 'delete', 'clean'])
        if force:
            target_kind = force[0]
        actor = rng.choice(world.users)
        own = [n for n, s in world.snaps.items() if s['owner'] == actor['name'] and s['location'] in base_objects]
        if target_kind == 'delete' and not own:
            target_kind = 'snapshot'
        if target_kind == 'clean':
            # make sure there is something to collect: orphans from an interrupted snapshot
            d0, f0 = world.make_files(actor['name'])
            dry = MemBackend(); dry.objects = dict(world.backend.objects)
            _, locs = await world.snapshot(actor, d0, f0, backend=dry, record=False)
            world.orphans.update(locs)
            fb0 = FaultBackend(world.backend, 'crash', len(set(dry.objects) - set(world.backend.objects)) - 1)
            try:
                await world.snapshot(actor, d0, f0, backend=fb0, record=False)
            except BaseException:
                pass
            await _settle(fb0)
            base_objects = dict(world.backend.objects)
        if target_kind == 'snapshot':
            tdir, tfiles = world.make_files(actor['name'])
            dry = MemBackend(); dry.objects = dict(base_objects)
            _, locs = await world.snapshot(actor, tdir, tfiles, backend=dry, record=False)
            world.orphans.update(locs)
        victims = [rng.choice(own)] if target_kind == 'delete' else []

        async def target(backend):
            if target_kind == 'snapshot':
                return await world.snapshot(actor, tdir, tfiles, backend=backend, record=False)
            if target_kind == 'delete':
                return await world.delete(actor, victims, backend=backend)
            return await world.clean(actor, backend=backend)

        # count the mutations of a complete run
        world.backend.objects = dict(base_objects)
        fb = FaultBackend(world.backend)
        await target(fb)
        n = fb.mutations
        rep.count(f'target={target_kind}')
        rep.count('mutations', n)
        points = [(m, k) for m in ('crash', 'fail') for k in range(n)]
        rng.shuffle(points)
        if force:
            # every permanent-failure point first, then kills up to the budget
            points = [p_ for p_ in points if p_[0] == 'fail'] + [p_ for p_ in points if p_[0] == 'crash'][:max_points]
        for mode, k in (points if force else points[:max_points]):
            world.backend.objects = dict(base_objects)
            world.snaps = dict(base_snaps)
            fb = FaultBackend(world.backend, mode, k)
            failed = False
            try:
                await target(fb)
            except BaseException:
                failed = True
            fb.dead = True          # the process is gone (killed, or exited with the error): nothing further is issued
            await _settle(fb)
            rep.case((seed, target_kind, mode, k), nontrivial=k > 0)
            rep.count('mode=' + mode)
            rep.sample({'seed': seed, 'command': target_kind, 'mode': mode, 'strike_at_mutation': k, 'of': n,
                        'trace_before_strike': fb.trace[:6]})
            if not failed:
                viol('fault_swallowed', f'{target_kind}: a backend call failed for good but the command reported success',
                     {'command': target_kind, 'mode': mode, 'k': k})
            ctxd = {'command': target_kind, 'mode': mode, 'k': k, 'of': n}
            objects = world.backend.objects
            # (a) no unknown / partial snapshot object
            ch, sn, foreign = world.lift()
            if foreign:
                viol('partial_visible', f'after an interrupted {target_kind} an object exists that no completed command wrote: {foreign[:2]}', ctxd)
            # (b) every visible snapshot complete and restorable
            ref = world.referenced()
            if ref - ch:
                viol('visible_incomplete', f'after an interrupted {target_kind} a visible snapshot misses {len(ref - ch)} chunk(s)', ctxd)
            for name, s in world.snaps.items():
                if s['location'] in objects:
                    msg = await world.restore_check(name)
                    if msg:
                        viol('unrestorable', f'after an interrupted {target_kind}: {msg}', ctxd)
                        break
            # (c) listing works for every user
            for u in world.users:
                try:
                    r = await world.unlocked(u)
                    with contextlib.redirect_stdout(io.StringIO()):
                        await r.list_snapshots()
                        await r.list_files()
                except Exception as e:
                    viol('unusable', f'listing fails after an interrupted {target_kind}: {type(e).__name__}', ctxd)
                    break
            # (d) clean by the actor collects exactly the orphans of the family (and the model agrees)
            before = world.model_store()
            try:
                await world.clean(actor)
            except Exception as e:
                viol('unusable', f'clean fails after an interrupted {target_kind}: {type(e).__name__}: {str(e)[:80]}', ctxd)
                continue
            ch2, sn2, _ = world.lift()
            ref2 = world.referenced()
            fam = actor['fam']
            if {c for c in ch2 if c[0] == fam} != {c for c in ref2 if c[0] == fam}:
                viol('orphans_not_collected', f'clean after an interrupted {target_kind} leaves the family with '
                     f'{len({c for c in ch2 if c[0] == fam} - ref2)} unreferenced and {len({c for c in ref2 if c[0] == fam} - ch2)} missing chunk(s)', ctxd)
            model_cases.append((before, [('clean', fam)]))
            expectations.append((sorted(ch2), sorted(sn2), ctxd))
            # (e) a new snapshot works and restores
            u2 = rng.choice(world.users)
            d2, f2 = world.make_files(u2['name'])
            try:
                res, _ = await world.snapshot(u2, d2, f2)
                msg = await world.restore_check(res.name)
                if msg:
                    viol('unusable', f'new snapshot after an interrupted {target_kind} does not restore: {msg}', ctxd)
            except Exception as e:
                viol('unusable', f'new snapshot fails after an interrupted {target_kind}: {type(e).__name__}', ctxd)

    with quiet()[0], quiet()[1]:
        asyncio.run(go())
    return model_cases, expectations


# --------------------------------------------------------------------------- local backend, inside a mutation
class _Kill(BaseException):
    pass


def local_stage_cases(rng, scratch: Path, rep: Report, n):
    """Kill or fail a local upload at each stage (temp created / partially written / before rename):
    listing, existence checks and downloads must never show a partial object, before and after."""
    import shutil as _sh
    from replicat.backends import local as L
    for i in range(n):
        root = scratch / f'local{i}'
        b = L.Local(root)
        name = rng.choice(['data/ab/cd/ef-12', 'snapshots/aa/bb-cc', 'config'])
        old = rng.choice([None, rng.randbytes(rng.choice([0, 10, 500]))])
        new = rng.randbytes(rng.choice([1, 100, 3000]))
        if old is not None:
            b.upload(name, old)
        stage = rng.choice(['write', 'copy_partial', 'replace'])
        streamed = stage == 'copy_partial' or (stage == 'replace' and rng.random() < 0.5)
        mode = rng.choice(['kill', 'error'])
        exc = _Kill if mode == 'kill' else OSError
        orig_write, orig_copy, orig_replace, orig_unlink = Path.write_bytes, _sh.copyfileobj, Path.replace, Path.unlink

        def bad_write(self, data):
            if str(self).startswith(str(root)):       # whatever file the upload writes first
                orig_write(self, data[:len(data) // 2])
                raise exc('injected')
            return orig_write(self, data)

        def bad_copy(src, dst, length=0):
            dst.write(src.read(max(1, len(new) // 2)))
            dst.flush()
            raise exc('injected')

        def bad_replace(self, target):
            raise exc('injected')

        def no_unlink(self, missing_ok=False):
            if mode == 'kill' and str(self).startswith(str(root)):
                return None          # a killed process does not clean up, whatever the file is called
            return orig_unlink(self, missing_ok=missing_ok)

        try:
            if stage == 'write':
                Path.write_bytes = bad_write
            elif stage == 'copy_partial':
                _sh.copyfileobj = bad_copy
                L.shutil.copyfileobj = bad_copy
            else:
                Path.replace = bad_replace
            Path.unlink = no_unlink
            try:
                # bypass the retry decorator for kills (a dead process does not retry); errors go through it
                if streamed:
                    fn = L.Local.upload_stream.__wrapped__ if mode == 'kill' else L.Local.upload_stream
                    import unittest.mock as _m
                    with _m.patch('time.sleep', lambda s: None):
                        fn(b, name, io.BytesIO(new), len(new))
                else:
                    fn = L.Local.upload.__wrapped__ if mode == 'kill' else L.Local.upload
                    import unittest.mock as _m
                    with _m.patch('time.sleep', lambda s: None):
                        fn(b, name, new)
                completed = True
            except BaseException:
                completed = False
        finally:
            Path.write_bytes, _sh.copyfileobj, Path.replace, Path.unlink = orig_write, orig_copy, orig_replace, orig_unlink
            L.shutil.copyfileobj = orig_copy
        rep.case(('local', name, stage, mode, streamed, old is None, len(new)), nontrivial=True)
        rep.count('local_stage=' + stage)
        sig = {'kind': 'local_partial_visible', 'stage': stage, 'mode': mode}
        listed = list(b.list_files(''))
        want_listed = [name] if old is not None else []
        if completed:
            rep.violations.append({'what': f'local upload reported success although stage {stage} failed', 'signature': sig,
                                   'replay': {'name': name, 'stage': stage, 'mode': mode}})
        if sorted(listed) != want_listed:
            rep.violations.append({'what': f'listing shows {listed} after an upload interrupted at {stage}; only {want_listed} was ever completed',
                                   'signature': sig, 'replay': {'name': name, 'stage': stage, 'mode': mode}})
        if b.exists(name) != (old is not None):
            rep.violations.append({'what': f'existence check is wrong after an upload interrupted at {stage}', 'signature': sig,
                                   'replay': {'name': name, 'stage': stage, 'mode': mode}})
        import unittest.mock as _m
        if old is not None:
            try:
                with _m.patch('time.sleep', lambda s_: None):
                    got_old = b.download(name)
            except Exception as e:
                got_old = e
            if got_old != old:
                rep.violations.append({'what': f'after an upload interrupted at {stage} ({mode}) the object that was there before ' +
                                               (f'cannot be downloaded: {type(got_old).__name__}' if isinstance(got_old, Exception) else 'downloads as partial/new content'),
                                       'signature': sig, 'replay': {'name': name, 'stage': stage, 'mode': mode}})
        # and the object can be written afterwards
        try:
            with _m.patch('time.sleep', lambda s_: None):
                b.upload(name, new)
                ok_after = b.download(name) == new and sorted(b.list_files('')) == [name]
        except Exception:
            ok_after = False
        if not ok_after:
            rep.violations.append({'what': 'upload after an interrupted upload does not yield the object', 'signature': sig,
                                   'replay': {'name': name, 'stage': stage, 'mode': mode}})
        shutil.rmtree(root, ignore_errors=True)


def cache_kill_probe(ctx, rep: Report, n):
    """A command killed while it writes a snapshot into the local cache leaves a truncated cache entry; every later
    command using that cache directory must still work and see the same repository."""
    for i in range(n):
        seed = ctx.rng.randint(0, 2 ** 31)
        rng = random.Random(seed)
        wd = ctx.scratch / f'cachekill{i}'
        wd.mkdir(parents=True, exist_ok=True)
        world = World(seed, rng.random() < 0.7, wd, concurrent=2, delay=0.0, nusers=1, chunking=(16, 64))
        cache = wd / 'cache'
        frac = rng.choice([0.0, 0.3, 0.5, 0.97])
        cmdname = rng.choice(['clean', 'delete', 'list'])
        problems = []

        async def go():
            await world.setup()
            u = world.users[0]
            names = []
            for _ in range(2):
                d, f = world.make_files(u['name'])
                res, _ = await world.snapshot(u, d, f)
                names.append(res.name)
            orig = Path.write_bytes

            def partial(self, data):
                if str(self).startswith(str(cache)):
                    orig(self, data[:int(len(data) * frac)])
                    raise _Kill('killed inside the cache write')
                return orig(self, data)
            Path.write_bytes = partial
            try:
                r = await world.unlocked(u, cache=cache)
                if cmdname == 'clean':
                    await r.clean()
                elif cmdname == 'delete':
                    await r.delete_snapshots([names[0]], confirm=False)
                else:
                    with contextlib.redirect_stdout(io.StringIO()):
                        await r.list_snapshots()
            except BaseException:
                pass
            finally:
                Path.write_bytes = orig
            await asyncio.sleep(0.02)
            # afterwards, with the same cache directory
            for what in ('list', 'restore', 'clean', 'snapshot'):
                try:
                    r2 = await world.unlocked(u, cache=cache)
                    if what == 'list':
                        with contextlib.redirect_stdout(io.StringIO()):
                            await r2.list_snapshots()
                            await r2.list_files()
                    elif what == 'restore':
                        for n_, s_ in world.snaps.items():
                            if s_['location'] in world.backend.objects:
                                out = wd / f'out-{n_[:6]}'
                                out.mkdir(exist_ok=True)
                                res = await r2.restore(snapshot_regex='^' + n_ + '$', path=out)
                                for path, content in s_['files'].items():
                                    t = Path(out, *Path(path).parts[1:])
                                    if not t.is_file() or t.read_bytes() != content:
                                        problems.append(f'restore after a {cmdname} killed inside a cache write yields wrong content')
                    elif what == 'clean':
                        await r2.clean()
                    else:
                        d, f = world.make_files(u['name'])
                        await r2.snapshot(paths=[d])
                except Exception as e:
                    problems.append(f'{what} fails after a {cmdname} was killed inside a cache write ({int(frac * 100)} % written): {type(e).__name__}: {str(e)[:80]}')
                    break

        with quiet()[0], quiet()[1]:
            asyncio.run(go())
        rep.case(('cache-kill', seed, cmdname, frac), nontrivial=frac > 0)
        rep.count('cache_kill_probe')
        for pmsg in problems:
            rep.violations.append({'what': pmsg, 'signature': {'kind': 'unusable_after_cache_kill', 'command': cmdname},
                                   'replay': {'probe': 'cache_kill', 'seed': seed, 'command': cmdname, 'fraction': frac}})
        shutil.rmtree(wd, ignore_errors=True)


def local_os_fault_probe(ctx, rep: Report, n):
    """Local backend: the operating system refuses for good to remove one object (EACCES) while delete / clean run.
    Whatever the command reports, every snapshot still listed afterwards must restore completely."""
    import backoff._sync as _bs
    from replicat.backends.local import Local
    for i in range(n):
        seed = ctx.rng.randint(0, 2 ** 31)
        rng = random.Random(seed)
        wd = ctx.scratch / f'osfault{i}'
        wd.mkdir(parents=True, exist_ok=True)
        world = World(seed, rng.random() < 0.6, wd, concurrent=rng.choice([1, 2]), delay=0.0, nusers=1, chunking=(16, 64))
        world.backend = Local(wd / 'repo')
        target_area = ['snapshots', 'data', 'snapshots', 'snapshots'][i % 4]
        problems = []

        async def go():
            await world.setup()
            u = world.users[0]
            names = []
            for _ in range(2):
                d, f = world.make_files(u['name'])
                res, _ = await world.snapshot(u, d, f)
                names.append(res.name)
            victim = names[0]
            root = str((wd / 'repo').resolve())
            refused = {'path': None}
            orig_unlink = Path.unlink

            def refusing(self, missing_ok=False):
                sp = str(self)
                rel = os.path.relpath(os.path.abspath(sp), root)
                if rel.startswith(target_area + os.sep) and (refused['path'] in (None, sp)):
                    refused['path'] = sp
                    raise PermissionError(13, 'Permission denied', sp)
                return orig_unlink(self, missing_ok=missing_ok)
            saved_sleep = _bs.time
            Path.unlink = refusing

            class _NoSleep:
                def __getattr__(self, name):
                    import time as _t
                    return getattr(_t, name)

                @staticmethod
                def sleep(x):
                    return None
            _bs.time = _NoSleep()
            try:
                try:
                    await world.delete(u, [victim])
                except Exception:
                    pass
            finally:
                Path.unlink = orig_unlink
                _bs.time = saved_sleep
            listed = [n_ for n_, s_ in world.snaps.items() if (wd / 'repo' / s_['location']).is_file()]
            for n_ in listed:
                msg = await world.restore_check(n_)
                if msg:
                    problems.append(f'after delete met a permanent EACCES on an object under {target_area}/ a snapshot is still listed but: {msg}')
                    break

        with quiet()[0], quiet()[1]:
            asyncio.run(go())
        rep.case(('local-os-fault', seed, target_area), nontrivial=True)
        rep.count('local_os_fault_probe')
        for pmsg in problems:
            rep.violations.append({'what': pmsg, 'signature': {'kind': 'listed_but_unrestorable_after_os_fault', 'area': target_area},
                                   'replay': {'probe': 'local_os_fault', 'seed': seed, 'area': target_area}})
        shutil.rmtree(wd, ignore_errors=True)


def localbuf_correspondence(ctx, rep, n):
    """Model/LocalBuf.v against the real local backend: one upload per fresh process (harness/localbuf_child.py) with a real SIGKILL
    before/after the k-th open / write / close / rename on the temporary.  The logged prefix of operations, plus one flush of as many
    bytes as the temporary really holds on disk, is run through LocalBuf.exec by vm_compute: the model's disk length and what it
    says is visible under the destination name must be what the directory shows; the bytes on disk must be a prefix of the data."""
    import subprocess
    import sys as _sys
    rng = ctx.rng
    cases = []
    root0 = Path(ctx.scratch) / 'localbuf'
    for i in range(n):
        size = rng.choice([0, 1, 50, 700, 5000, 9000, 20000, 70000])
        chunk = rng.choice([1, 64, 1000, 4096, 8192, 128000]) if size <= 9000 else rng.choice([1000, 4096, 8192, 128000])
        op = rng.choice(['upload_stream', 'upload_stream', 'upload'])
        kind = rng.choice(['open', 'write', 'write', 'close', 'rename', 'rename'])
        kill = [kind, rng.randint(0, 3) if kind == 'write' else 0, rng.choice(['before', 'after'])]
        old = rng.choice([None, b'old contents'])
        root = root0 / f'c{i}'
        root.mkdir(parents=True)
        name = 'data/ab/cd/' + 'e' * rng.choice([4, 40])
        if old is not None:
            (root / name).parent.mkdir(parents=True)
            (root / name).write_bytes(old)
        data = rng.randbytes(size)
        spec = {'root': str(root), 'log': str(root0 / f'c{i}.log'), 'kill': kill, 'op': op, 'name': name, 'data': data.hex(), 'chunk': chunk}
        (root0 / f'c{i}.spec').write_text(json.dumps(spec))
        p = subprocess.run([_sys.executable, '-m', 'harness.localbuf_child', str(root0 / f'c{i}.spec')], stdout=subprocess.PIPE, stderr=subprocess.PIPE, timeout=120)
        events = Path(spec['log']).read_text().split('\n') if Path(spec['log']).exists() else []
        events = [e for e in events if e]
        dest = (root / name).read_bytes() if (root / name).exists() else None
        temps = [q for q in (root / name).parent.glob('*.tmp')] if (root / name).parent.exists() else []
        tmp_bytes = temps[0].read_bytes() if temps else None
        cases.append({'i': i, 'spec': {k: v for k, v in spec.items() if k != 'data'}, 'size': size, 'rc': p.returncode, 'events': events, 'dest': dest, 'old': old,
                      'tmp': tmp_bytes, 'data': data, 'stderr': p.stderr.decode('utf-8', 'replace')[-300:]})
    shutil.rmtree(root0, ignore_errors=True)
    # ---- model
    L = ['From Coq Require Import List Arith NArith.', 'From Replicat Require Import Model.LocalBuf.', 'Import ListNotations.',
         'Definition cases : list (list (bop unit)) := [']
    items = []
    for c in cases:
        ops = []
        renamed = False
        for e in c['events']:
            if e == 'open':
                ops.append('BOpen')
            elif e.startswith('write '):
                ops.append('BWrite (repeat tt (N.to_nat %d%%N))' % int(e.split()[1]))
            elif e == 'close':
                ops.append('BClose')
            elif e == 'rename':
                ops.append('BRename')
                renamed = True
        on_disk = len(c['dest']) if renamed and c['dest'] is not None else (len(c['tmp']) if c['tmp'] is not None else 0)
        c['renamed'], c['on_disk'] = renamed, on_disk
        if c['rc'] == -9:
            ops.append('BFlush (N.to_nat %d%%N)' % on_disk)           # what the library / OS had moved to the disk when the process died
        items.append('  [' + '; '.join(ops) + ']')
    L.append(';\n'.join(items))
    L.append('].')
    L.append('Eval vm_compute in map (fun l => let s := exec unit l in (N.of_nat (length (disk unit s)), match visible unit s with Some d => N.of_nat (S (length d)) | None => 0%N end, '
             'if atomic_order unit (unflush unit l) then 1%N else 0%N)) cases.')
    res = core.coq_eval_files([('c03_localbuf', '\n'.join(L) + '\n')])
    rc, text = res['c03_localbuf']
    if rc != 0:
        rep.disagreements.append({'what': 'the buffered-upload model could not be evaluated: ' + text[-600:], 'replay': None})
        return
    out = core.parse_coq_term(core.parse_coq_values(text)[-1])
    for c, (mdisk, mvis, _order) in zip(cases, out):
        killed = c['rc'] == -9
        rep.case(('localbuf', c['spec']['op'], tuple(c['spec']['kill']), c['size'], c['spec']['chunk']), nontrivial=killed)
        rep.count('localbuf_' + ('killed' if killed else 'completed' if c['rc'] == 0 else 'failed'))
        rep.traces_validated += 1
        desc = f"{c['spec']['op']} of {c['size']} bytes in pieces of {c['spec']['chunk']}, SIGKILL {c['spec']['kill'][2]} {c['spec']['kill'][0]} #{c['spec']['kill'][1]}"
        if c['rc'] not in (0, -9):
            rep.disagreements.append({'what': f'localbuf child failed ({desc}): {c["stderr"]}', 'replay': {'probe': 'localbuf', 'spec': c['spec']}})
            continue
        actual_vis = (len(c['dest']) + 1) if c['renamed'] else 0
        if mdisk != c['on_disk'] or mvis != actual_vis:
            rep.disagreements.append({'what': f'{desc}: the model says {mdisk} bytes on disk / visible {mvis - 1 if mvis else None}, the directory shows {c["on_disk"]} / '
                                              f'{actual_vis - 1 if actual_vis else None}', 'replay': {'probe': 'localbuf', 'spec': c['spec']}})
        # model-free: what is visible under the destination name is the old object or the whole new one; disk bytes are a prefix of the data
        if c['dest'] not in (c['old'], c['data']):
            rep.violations.append({'what': f'{desc}: the destination name shows {len(c["dest"]) if c["dest"] is not None else None} bytes that are neither the old object nor the new one '
                                           f'({c["size"]} bytes): a partial object is visible after the kill',
                                   'signature': {'kind': 'partial_object', 'probe': 'localbuf'}, 'replay': {'probe': 'localbuf', 'spec': c['spec']}})
        held = c['dest'] if c['renamed'] else c['tmp']
        if held is not None and c['renamed'] is False and not c['data'].startswith(held):
            rep.disagreements.append({'what': f'{desc}: the temporary holds bytes that are not a prefix of the data', 'replay': {'probe': 'localbuf', 'spec': c['spec']}})
        if not killed and c['dest'] != c['data']:
            rep.violations.append({'what': f'{desc}: the upload returned normally but the object stored differs from the data', 'signature': {'kind': 'partial_object', 'probe': 'localbuf'},
                                   'replay': {'probe': 'localbuf', 'spec': c['spec']}})


CLI_MINE = ('exception', 'hang', 'snapshot_unreadable', 'snapshot_objects', 'snapshot_name', 'partial_object', 'unknown_object', 'referenced_chunk_missing', 'gc_incomplete', 'restore_mismatch', 'config_touched', 'gc_overreach', 'stored_bytes')


def local_session_probe(ctx, rep: Report, n, only=None):
    """"A backend call fails for good" inside a program that keeps running: ONE Repository object on ONE Local backend object (a real
    directory) meets a permanently failing upload during a snapshot, or a permanently failing removal during a delete, at the k-th such
    call; the program then cleans and takes the snapshot again with the same objects.  Both must succeed; a brand-new client then
    lists, restores every visible snapshot byte for byte and finds, after its own clean, exactly the referenced chunks."""
    from replicat.backends.local import Local
    from replicat.repository import Repository
    from harness.refreader import RefReader

    class BackendDown(Exception):
        pass

    class FlakyLocal(Local):
        armed = None        # (method name, countdown)

        def _strike(self, what):
            if self.armed and self.armed[0] == what:
                if self.armed[1] == 0:
                    raise BackendDown(f'{what} failed for good')
                self.armed = (what, self.armed[1] - 1)

        def upload_stream(self, name, stream, length, *a, **k):
            self._strike('upload_stream')
            return super().upload_stream(name, stream, length, *a, **k)

        def delete(self, name):
            self._strike('delete')
            return super().delete(name)

    trials = only if only is not None else [(ctx.rng.choice(['snapshot', 'delete']), k, enc) for k in range(n) for enc in (False, True)][:n]
    hangs = 0
    for victim, k, enc in trials:
        if hangs >= 2:
            break           # a session that hangs after a failed command hangs every time: no need to wait for all of them
        wd = Path(ctx.scratch) / f'session-{victim}-{k}-{int(enc)}'
        shutil.rmtree(wd, ignore_errors=True)
        (wd / 'a').mkdir(parents=True)
        (wd / 'b').mkdir(parents=True)
        rng = random.Random(k * 7 + enc)
        shared = rng.randbytes(150)
        (wd / 'a' / 'f').write_bytes(shared + rng.randbytes(260))
        (wd / 'b' / 'g').write_bytes(rng.randbytes(330) + shared)
        (wd / 'b' / 'h').write_bytes(rng.randbytes(120))
        out = {'problems': []}

        async def go():
            be = FlakyLocal(str(wd / 'repo'))
            settings = {'chunking': {'min_length': 32, 'max_length': 64}, 'hashing': {'name': 'blake2b', 'length': 16}}
            settings['encryption'] = {'cipher': {'name': 'aes_gcm'}, 'kdf': {'name': 'scrypt', 'n': 4, 'r': 1, 'p': 1}} if enc else None
            pw = b'pw' if enc else None
            init = await Repository(be, concurrent=2, quiet=True, cache_directory=None).init(password=pw, settings=settings)
            key = init.key if enc else None
            r = Repository(be, concurrent=2, quiet=True, cache_directory=None)
            await r.unlock(password=pw, key=key)
            sa = await r.snapshot(paths=[wd / 'a'])
            truth = {sa.name: {'f': (wd / 'a' / 'f').read_bytes()}}
            fired = False
            if victim == 'snapshot':
                be.armed = ('upload_stream', k)
                try:
                    done_ = await r.snapshot(paths=[wd / 'b'])
                    out['outcome'] = 'completed'         # the failing call was never reached: an ordinary snapshot
                    truth[done_.name] = {'g': (wd / 'b' / 'g').read_bytes(), 'h': (wd / 'b' / 'h').read_bytes()}
                except BackendDown:
                    out['outcome'], fired = 'failed', True
                except Exception as e:
                    out['problems'].append(('unusable', f'the snapshot that met the failing upload raised {type(e).__name__} instead of the backend\'s error'))
            else:
                sb0 = await r.snapshot(paths=[wd / 'b'])
                truth[sb0.name] = {'g': (wd / 'b' / 'g').read_bytes(), 'h': (wd / 'b' / 'h').read_bytes()}
                be.armed = ('delete', k)
                try:
                    await r.delete_snapshots([sa.name], confirm=False)
                    out['outcome'] = 'completed'
                    truth.pop(sa.name)
                except BackendDown:
                    out['outcome'], fired = 'failed', True
                except Exception as e:
                    out['problems'].append(('unusable', f'the delete that met the failing removal raised {type(e).__name__} instead of the backend\'s error'))
            be.armed = None
            out['fired'] = fired
            # the program goes on with the same objects
            try:
                await r.clean()
            except Exception as e:
                out['problems'].append(('unusable', f'clean by the same session after the failed {victim} fails: {type(e).__name__}: {str(e)[:80]}'))
            try:
                sb = await r.snapshot(paths=[wd / 'b'])
                truth[sb.name] = {'g': (wd / 'b' / 'g').read_bytes(), 'h': (wd / 'b' / 'h').read_bytes()}
            except Exception as e:
                out['problems'].append(('unusable', f'a new snapshot by the same session after the failed {victim} and a clean fails: {type(e).__name__}: {str(e)[:80]}'))
            # a brand-new client audits
            be2 = Local(str(wd / 'repo'))
            r2 = Repository(be2, concurrent=2, quiet=True, cache_directory=None)
            await r2.unlock(password=pw, key=key)
            listed = [x async for x in r2._load_snapshots()]
            names = {r2.parse_snapshot_location(p).name for p, _ in listed}
            # a delete that failed part-way may have removed the snapshot object already (then it is not visible: fine)
            for nm in names:
                if nm not in truth and not (victim == 'delete' and nm == sa.name):
                    out['problems'].append(('partial_visible', f'after a failed {victim} a snapshot is visible that no completed command wrote'))
            if victim == 'delete' and sa.name in names:
                truth.setdefault(sa.name, {'f': (wd / 'a' / 'f').read_bytes()})
            for nm in sorted(names & set(truth)):
                dest = wd / f'out-{nm[:8]}'
                dest.mkdir()
                try:
                    await r2.restore(snapshot_regex='^' + nm + '$', path=dest)
                except Exception as e:
                    out['problems'].append(('unrestorable', f'after a failed {victim}, clean and a new snapshot by one long-lived session a visible snapshot cannot be restored: {type(e).__name__}: {str(e)[:80]}'))
                    continue
                got = {p.name: p.read_bytes() for p in dest.rglob('*') if p.is_file()}
                if got != truth[nm]:
                    out['problems'].append(('unrestorable', f'after a failed {victim}, clean and a new snapshot by one long-lived session a visible snapshot restores to other contents'))
            for nm in set(truth) - names:
                if not (victim == 'delete' and nm == sa.name):
                    out['problems'].append(('unusable', f'a snapshot that a completed command took is not visible after the failed {victim}'))
            await r2.clean()
            ref = {r2._chunk_digest_to_location(d) for _, body in [x async for x in r2._load_snapshots()] for d in body['chunks']}
            have = {n_ for n_ in be2.list_files('data/')}
            if have != ref:
                out['problems'].append(('orphans_not_collected', f'after a failed {victim} and clean: {len(have - ref)} unreferenced and {len(ref - have)} missing chunk object(s)'))

        err = None
        with quiet()[0], quiet()[1]:
            try:
                asyncio.run(asyncio.wait_for(go(), 75))
            except (asyncio.TimeoutError, TimeoutError):
                hangs += 1
                err = 'the session does not get through clean / new snapshot / audit within 75 s (a command after the failed one hangs)'
            except Exception as e:
                err = f'{type(e).__name__}: {str(e)[:160]}'
        shutil.rmtree(wd, ignore_errors=True)
        rep.case(('local-session', victim, k, enc), nontrivial=bool(out.get('fired')))
        rep.count('local_session_probe')
        if err is not None:
            rep.violations.append({'what': f'long-lived session on a local repository, {victim} meeting failing call #{k}: the audit could not run: {err}',
                                   'signature': {'kind': 'unusable', 'probe': 'local_session'}, 'replay': {'probe': 'local_session', 'trial': [victim, k, enc]}})
        for kind, what in out['problems']:
            rep.violations.append({'what': f'[{victim} meeting failing call #{k}, {"encrypted" if enc else "plain"}] ' + what,
                                   'signature': {'kind': kind, 'probe': 'local_session'}, 'replay': {'probe': 'local_session', 'trial': [victim, k, enc]}})


def _run(ctx, nscen, max_points, nlocal, rep):
    cases, exps = [], []
    forced = [('snapshot', 2), ('delete', 2), ('clean', 2), ('snapshot', 3)]
    for i_ in range(nscen):
        sd = ctx.rng.randint(0, 2 ** 31)
        wd = ctx.scratch / f's{sd}'
        wd.mkdir(parents=True, exist_ok=True)
        try:
            mc, ex = scenario(sd, wd, rep, max_points, force=forced[i_] if i_ < len(forced) else None)
        finally:
            shutil.rmtree(wd, ignore_errors=True)
        cases += mc
        exps += [(sd, e) for e in ex]
    local_stage_cases(ctx.rng, ctx.scratch, rep, nlocal)
    cache_kill_probe(ctx, rep, max(4, nlocal // 10))
    local_os_fault_probe(ctx, rep, max(4, nlocal // 10))
    localbuf_correspondence(ctx, rep, max(16, nlocal // 3))
    local_session_probe(ctx, rep, max(8, nscen))
    # two uploads of one object name that overlap in time must never publish a mixture (each writer needs a temporary of its own)
    from harness import c02 as _c02
    _c02.local_overlap_probe(ctx, rep)
    # real kills: `python -m replicat` processes on a repository on disk, SIGKILLed at the k-th rename / unlink / temp-file creation
    # (before or after it), and single OSErrors out of directory scans; afterwards everything visible must be whole and usable
    from harness import cli_hist
    cli_hist.run_scenarios(ctx, rep, {'kill': max(4, nscen), 'oserror': max(2, nscen // 2)}, CLI_MINE)
    cli_hist.refused_removal_probe(ctx, rep, CLI_MINE)
    cli_hist.scan_fault_probe(ctx, rep, CLI_MINE)
    cli_hist.linked_shards_probe(ctx, rep, CLI_MINE)
    # permanent failures inside the remote adapters (B2 by name / by id, S3-compatible; fake services answering 401/403/5xx for good)
    from harness import remote_hist
    remote_hist.remote_fault_probe(ctx, rep, ('referenced_chunk_missing', 'restore_mismatch', 'unknown_object', 'exception'), n=max(10, nscen * 2))
    if cases:
        traces, err = repo_hist.model_eval(cases)
        if traces is None:
            rep.disagreements.append({'what': 'the model could not be evaluated: ' + err, 'replay': None})
        else:
            for tr, (sd, (ch, sn, ctxd)) in zip(traces, exps):
                rep.traces_validated += 1
                if (tr[0][0], tr[0][1]) != (ch, sn):
                    rep.disagreements.append({'what': f'clean after an interrupted command: model chunks={tr[0][0]} snaps={tr[0][1]}, '
                                                      f'implementation chunks={ch} snaps={sn}', 'replay': {'seed': sd, 'detail': ctxd}})


def run(ctx) -> Report:
    rep = Report(rule=RULE)
    _run(ctx, ctx.scale(6, 60), ctx.scale(10, 40), ctx.scale(40, 400), rep)
    return rep


def search(ctx, broken) -> Report:
    rep = Report(rule=RULE)
    _run(ctx, ctx.scale(14, 120), 40, 200, rep)
    rep.disagreements.clear()
    return rep


def replay(ctx, obj):
    from harness import cli_hist
    rc = cli_hist.replay_cli(ctx, obj, CLI_MINE)
    if rc is not None:
        return rc
    rep = Report(rule=RULE)
    r = obj.get('replay') or {}
    if r.get('probe') in ('remote', 'remote_fault'):
        from harness import remote_hist
        remote_hist.remote_fault_probe(ctx, rep, ('referenced_chunk_missing', 'restore_mismatch', 'unknown_object', 'exception'), n=40)
        for v in rep.violations:
            print('VIOLATION-REPRODUCED', v['what'])
        return 1 if rep.violations else 0
    if r.get('probe') == 'local_session':
        local_session_probe(ctx, rep, 1, only=[tuple(r['trial'])])
    elif 'seed' in r:
        wd = ctx.scratch / 'replay'
        wd.mkdir()
        scenario(r['seed'], wd, rep, 1000, force=tuple(r['force']) if r.get('force') else None)
    else:
        local_stage_cases(ctx.rng, ctx.scratch, rep, 200)
    for v in rep.violations:
        print('VIOLATION-REPRODUCED', v['what'])
    return 1 if rep.violations else 0
