"""C16 - every request sent to an S3 service is correctly signed.
Requests of the real adapters (replicat.backends.s3c / s3) are captured at httpx.MockTransport (method, raw
target bytes, raw headers, body bytes incl. streamed bodies); an independent SigV4 verifier (harness/sigv4_ref.py)
plays the service; the canonical pieces are also recomputed by Model/SigV4.v (vm_compute) and compared.
design/C16.md."""
from __future__ import annotations

import asyncio
import contextlib
import datetime as _dt
import os
import time as _time
import hashlib
import io
import warnings
from xml.sax.saxutils import escape as xml_escape

import httpx

from harness import core
from harness.core import Report
from harness.sigv4_ref import Reject, verify


# --------------------------------------------------------------------------- instrumentation (from outside)
class HttpxProxy:
    """stands in for the name `httpx` inside replicat.backends.s3c: AsyncClient gets the mock transport"""

    def __init__(self, transport):
        self._transport = transport

    def AsyncClient(self, *a, **kw):
        kw['transport'] = self._transport
        return httpx.AsyncClient(*a, **kw)

    def __getattr__(self, name):
        return getattr(httpx, name)


class FrozenClock:
    """The instant the adapter sees, whatever clock it asks: stands in for the name `datetime` AND the name `time` inside s3c.
    The scenario's timestamps (UTC) are handed out in turn, one per clock reading (time passes between two readings).
    Local-time readings (datetime.now(), time.localtime(), time.strftime without a tuple) are answered for the process time
    zone, which the scenario sets (TZ + tzset), so that code mixing UTC and local time meets days on which the two dates differ."""

    def __init__(self, stamps):
        self.stamps = [tuple(t) for t in stamps]
        self.n = 0

    def _next(self):
        t = self.stamps[min(self.n, len(self.stamps) - 1)]
        self.n += 1
        return t

    def _epoch(self):
        import calendar
        return calendar.timegm(self._next() + (0, 0, 0))

    # ---- datetime.datetime
    def utcnow(self):
        return _dt.datetime(*self._next())

    def now(self, tz=None):
        y = _dt.datetime(*self._next(), tzinfo=_dt.timezone.utc)
        if tz is not None:
            return y.astimezone(tz)
        return _dt.datetime(*_time.localtime(y.timestamp())[:6])       # naive local time of the process time zone

    def __getattr__(self, name):
        # anything else of the two modules (timezone, timedelta, sleep, monotonic, ...) is the real thing
        for mod in (_dt.datetime, _dt, _time):
            if hasattr(mod, name):
                return getattr(mod, name)
        raise AttributeError(name)

    datetime = property(lambda self: self)       # `import datetime; datetime.datetime.utcnow()`

    # ---- time
    def time(self):
        return float(self._epoch())

    def time_ns(self):
        return self._epoch() * 10 ** 9

    def gmtime(self, secs=None):
        return _time.gmtime(self._epoch() if secs is None else secs)

    def localtime(self, secs=None):
        return _time.localtime(self._epoch() if secs is None else secs)

    def strftime(self, fmt, t=None):
        return _time.strftime(fmt, self.localtime() if t is None else t)

    def asctime(self, t=None):
        return _time.asctime(self.localtime() if t is None else t)

    def ctime(self, secs=None):
        return _time.ctime(self._epoch() if secs is None else secs)


@contextlib.contextmanager
def process_time_zone(tz):
    """run with the process time zone set to the POSIX TZ string [tz] (None: leave it alone); restored afterwards"""
    if tz is None:
        yield
        return
    old = os.environ.get('TZ')
    os.environ['TZ'] = tz
    _time.tzset()
    try:
        yield
    finally:
        if old is None:
            os.environ.pop('TZ', None)
        else:
            os.environ['TZ'] = old
        _time.tzset()


def stamp_text(t):
    y, mo, d, h, mi, s = t
    return f'{y:04d}{mo:02d}{d:02d}T{h:02d}{mi:02d}{s:02d}Z'


class FakeS3:
    """just enough of a service for the adapters to complete their calls; it does not interpret names"""

    def __init__(self):
        self.objects = {}
        self.captured = []
        self.pages = []       # continuation tokens to hand out on successive listing calls
        self.midbody_faults = 0   # this many streamed PUTs lose their connection after the first piece of the body
        self.put_faults = 0   # this many PUT attempts are answered 503 after the body was read (the adapter retries)
        self.canon = []       # per prepared request: (canonical request, string to sign) as the module hashed/signed them
        self.prepared = {}    # id(request object _prepare_request returned) -> {'canon', 'stamp_index', 'request'}
        self.redirects = []   # answers 3xx + Location for the next requests the adapter prepares: [(status, kind)]
        self.last_stamp_index = 0
        self.current_token = None   # the continuation token the adapter has to use in its next listing request

    async def handle(self, request):
        """the transport: consumes a streamed request body piece by piece (httpx.MockTransport would read it whole before the
        handler runs); the connection may break after the first piece of a streamed PUT body (the adapter retries)"""
        if request.method == 'PUT' and self.midbody_faults > 0 and not isinstance(request.stream, httpx.ByteStream):
            self.midbody_faults -= 1
            got = b''
            async for piece in request.stream:
                got += piece
                if got:
                    break
            rec = self.make_rec(request, got)
            rec['aborted'] = True
            self.captured.append(rec)
            raise httpx.WriteError('connection reset by peer while sending the request body', request=request)
        await request.aread()
        response = await self.handler(request)
        response.request = request
        return response

    def make_rec(self, request, body):
        rec = {'method': request.method.encode(), 'target': bytes(request.url.raw_path),
               'headers': [(bytes(k), bytes(v)) for k, v in request.headers.raw], 'body': bytes(body),
               'netloc': bytes(request.url.netloc).decode('latin-1'), 'scheme': request.url.scheme}
        info = self.prepared.get(id(request))
        if info is not None and info['request'] is request:
            rec['canon'] = info['canon']
            rec['stamp_index'] = self.last_stamp_index = info['stamp_index']
        else:
            rec['canon'] = None
            rec['stamp_index'] = self.last_stamp_index
            rec['unprepared'] = True
        return rec

    async def handler(self, request):
        """EVERY request that reaches the wire, for whatever host, is recorded here (and verified afterwards)"""
        body = await request.aread()
        rec = {'method': request.method.encode(), 'target': bytes(request.url.raw_path),
               'headers': [(bytes(k), bytes(v)) for k, v in request.headers.raw], 'body': bytes(body),
               'netloc': bytes(request.url.netloc).decode('latin-1'), 'scheme': request.url.scheme}
        info = self.prepared.get(id(request))
        if info is not None and info['request'] is request:
            rec['canon'] = info['canon']
            rec['stamp_index'] = self.last_stamp_index = info['stamp_index']
        else:
            # not built by the adapter's _prepare_request: the HTTP client produced it by itself (e.g. followed a redirect)
            rec['canon'] = None
            rec['stamp_index'] = self.last_stamp_index
            rec['unprepared'] = True
        self.captured.append(rec)
        path = rec['target'].partition(b'?')[0]
        m = request.method
        if b'list-type=2' in rec['target']:
            rec['token'] = self.current_token
        plan = self.redirects.pop(0) if (self.redirects and info is not None) else None
        if plan is not None and plan[0]:
            status, kind = plan
            rec['answered'] = status
            if kind == 'host':       # the bucket lives in another region / behind another endpoint
                loc = f'{request.url.scheme}://bucket-region.redirect.example' + rec['target'].decode('latin-1')
            elif kind == 'path':     # a gateway moves the object to another path on the same host
                loc = '/moved' + rec['target'].decode('latin-1')
            else:                    # absolute URL on the same host, other path
                loc = f'{request.url.scheme}://{rec["netloc"]}/elsewhere' + rec['target'].decode('latin-1')
            return httpx.Response(status, headers={'location': loc})
        if m == 'PUT':
            if self.put_faults > 0:
                self.put_faults -= 1
                rec['answered'] = 503
                return httpx.Response(503)
            self.objects[path] = rec['body']
            return httpx.Response(200)
        if m == 'HEAD':
            return httpx.Response(200 if path in self.objects else 404)
        if m == 'DELETE':
            self.objects.pop(path, None)
            return httpx.Response(204)
        if b'list-type=2' in rec['target']:
            tok = self.pages.pop(0) if self.pages else None
            self.current_token = tok
            xml = '<ListBucketResult xmlns="http://s3.amazonaws.com/doc/2006-03-01/">'
            if not getattr(self, 'plain_listing', False):
                xml += '<Contents><Key>k%d</Key></Contents>' % len(self.captured)
            if tok is None:
                xml += '<IsTruncated>false</IsTruncated>'
            else:
                xml += '<IsTruncated>true</IsTruncated><NextContinuationToken>%s</NextContinuationToken>' % xml_escape(tok)
            xml += '</ListBucketResult>'
            return httpx.Response(200, content=xml.encode())
        # GET object: always succeed (a 404 would only make the adapter's backoff decorator wait and retry)
        return httpx.Response(200, content=self.objects.get(path, b'default-object-contents'))


class NoSleep:
    perf_counter = staticmethod(lambda: 0.0)
    sleep = staticmethod(lambda x: None)


@contextlib.contextmanager
def instrumented(fake, clock):
    """patch names inside replicat.backends.s3c (transport, clock, spies on the hash helpers) and replicat.utils.time"""
    import replicat.backends.s3c as s3c
    import replicat.utils as U
    _missing = object()
    saved_clock_names = {name: getattr(s3c, name, _missing) for name in ('datetime', 'time')}
    saved = (s3c.httpx, s3c._get_data_hexdigest, s3c._hmac_sha256_digest, U.time,
             s3c.S3Compatible._prepare_request)
    orig_hex, orig_hmac, orig_prepare = s3c._get_data_hexdigest, s3c._hmac_sha256_digest, s3c.S3Compatible._prepare_request
    last = {}

    def hex_spy(data):
        last['creq'] = bytes(data)        # the last thing hashed while preparing a request = its canonical request
        return orig_hex(data)

    def hmac_spy(key, message):
        last['sts'] = bytes(message)      # the last thing signed = the string to sign
        return orig_hmac(key, message)

    def prepare_spy(self, *a, **kw):
        last.clear()
        n_before = clock.n
        req = orig_prepare(self, *a, **kw)
        fake.canon.append((last.get('creq'), last.get('sts')))
        fake.prepared[id(req)] = {'canon': fake.canon[-1], 'stamp_index': n_before, 'request': req}
        return req

    class Transport(httpx.AsyncBaseTransport):
        async def handle_async_request(self, request):
            return await fake.handle(request)
    s3c.httpx = HttpxProxy(Transport())
    for name, old in saved_clock_names.items():     # whichever clock module the adapter imported: it sees the scenario's instant
        if old is not _missing:
            setattr(s3c, name, clock)
    s3c._get_data_hexdigest = hex_spy
    s3c._hmac_sha256_digest = hmac_spy
    s3c.S3Compatible._prepare_request = prepare_spy
    U.time = NoSleep
    import asyncio as _asyncio
    import backoff._async as _ba

    class _FastAsyncio:
        """backoff's pauses between retries are virtual"""
        def __getattr__(self, name):
            return getattr(_asyncio, name)

        @staticmethod
        async def sleep(seconds, result=None):
            return result
    saved_ba = _ba.asyncio
    _ba.asyncio = _FastAsyncio()
    try:
        yield s3c
    finally:
        _ba.asyncio = saved_ba
        (s3c.httpx, s3c._get_data_hexdigest, s3c._hmac_sha256_digest, U.time,
         s3c.S3Compatible._prepare_request) = saved
        for name, old in saved_clock_names.items():
            if old is not _missing:
                setattr(s3c, name, old)


def wrap_stream(data, kind):
    """streams as repository.py hands them to the backend"""
    import replicat.utils as U
    raw = io.BytesIO(data)
    if kind == 'bare':
        return raw
    if kind == 'slow':
        class SlowSource(io.BytesIO):          # a source whose reads take a few milliseconds of real time (disk, pipe)
            def read(self, size=-1):
                _time.sleep(0.004)
                return super().read(size)
        return SlowSource(data)
    inner = U.RateLimitedIO(max(len(data) // 3, 1)).wrap(raw) if kind == 'limited' else raw
    return U.TQDMIOReader(inner, desc='x', total=len(data), position=0, disable=True)


async def run_ops(sc, fake, clock):
    cfg = sc['cfg']
    fake.put_faults = sc.get('put_faults', 0)
    fake.midbody_faults = sc.get('midbody_faults', 0)
    fake.redirects = [tuple(r) for r in sc.get('redirects', [])]
    with instrumented(fake, clock) as s3c:
        if cfg.get('aws'):
            from replicat.backends import s3 as s3mod
            cls, kw = s3mod.S3, dict(key_id=cfg['key_id'], access_key=cfg['access_key'], region=cfg['region'])
        else:
            cls, kw = s3c.S3Compatible, dict(key_id=cfg['key_id'], access_key=cfg['access_key'], region=cfg['region'],
                                             host=cfg['host'], scheme=cfg['scheme'])
        if sc.get('optional_args'):
            # every optional constructor argument the adapter has (found by introspection) is given a value: whatever it makes
            # the adapter put on the wire is judged like the rest
            import inspect
            for name, prm in inspect.signature(cls.__init__).parameters.items():
                if name not in kw and name not in ('self', 'connection_string') and prm.default is not inspect.Parameter.empty \
                        and prm.kind in (prm.KEYWORD_ONLY, prm.POSITIONAL_OR_KEYWORD) and (prm.default is None or isinstance(prm.default, str)):
                    kw[name] = 'verif-' + name.replace('_', '-')
        be = cls(cfg['bucket'], **kw)
        if 'command' in sc:
            try:
                await run_command(sc, be, fake)
            finally:
                await be.close()
            return
        try:
            for op in sc['ops']:
                start = len(fake.captured)
                kind = op[0]
                with contextlib.suppress(httpx.HTTPError):      # the outcome of the call is not this property's business
                    if kind == 'exists':
                        await be.exists(op[1])
                    elif kind == 'upload':
                        await be.upload(op[1], bytes.fromhex(op[2]))
                    elif kind == 'upload_stream':
                        data = bytes.fromhex(op[2])
                        stream = wrap_stream(data, op[4])
                        if op[3] is None:
                            await be.upload_stream(op[1], stream, len(data))
                        else:
                            await be.upload_stream(op[1], stream, len(data), op[3])
                    elif kind == 'download':
                        await be.download(op[1])
                    elif kind == 'download_stream':
                        await be.download_stream(op[1], io.BytesIO())
                    elif kind == 'delete':
                        await be.delete(op[1])
                    elif kind == 'list_files':
                        fake.pages = list(op[2])
                        fake.current_token = None
                        async for _ in be.list_files(op[1]):
                            pass
                    else:
                        raise ValueError(kind)
                for i in range(start, len(fake.captured)):
                    fake.captured[i]['op'] = op
                    fake.captured[i]['nth'] = i - start
        finally:
            await be.close()


async def run_command(sc, be, fake):
    """a whole rate-limited command of Repository over the real S3 adapter: what it puts on the wire is judged like the rest"""
    import random, shutil, tempfile
    from pathlib import Path
    from replicat.repository import Repository
    fake.plain_listing = True
    r = random.Random(sc['seed'])
    d = Path(tempfile.mkdtemp(prefix='verif-c16cmd-', dir=os.environ.get('VERIF_SCRATCH', '/var/tmp')))
    cwd = os.getcwd()
    try:
        (d / 'src').mkdir()
        paths = []
        for i, sz in enumerate(sc['sizes']):
            p = d / 'src' / f'f{i:03d}'
            p.write_bytes(r.randbytes(sz))
            paths.append(p)
        os.chdir(d)
        repo = Repository(be, concurrent=sc['concurrent'], quiet=True, cache_directory=None)
        with contextlib.redirect_stdout(io.StringIO()), contextlib.redirect_stderr(io.StringIO()), contextlib.suppress(httpx.HTTPError):
            if sc['command'] == 'upload_objects':
                await repo.upload_objects(paths, rate_limit=sc['rate_limit'])
            else:
                await repo.init(settings={'encryption': None, 'chunking': {'min_length': 64, 'max_length': 128}})
                await repo.snapshot(paths=[d / 'src'], rate_limit=sc['rate_limit'])
    finally:
        os.chdir(cwd)
        shutil.rmtree(d, ignore_errors=True)
        for rec in fake.captured:
            rec.setdefault('op', [sc['command'], f'rate_limit={sc["rate_limit"]}, concurrent={sc["concurrent"]}'])
            rec.setdefault('nth', 0)


def gen_command_scenario(rng):
    """upload_objects / snapshot with a rate limit, from generous down to fewer bytes per second than 16 x the number of
    connections (the commands derive the transfer chunk size from rate_limit // (16 * concurrent))"""
    n = rng.choice([1, 2, 5, 16, 64])
    L = rng.choice([1, 7, 16 * n - 1, 16 * n, 16 * n + 1, 64, 100, 1000, 5000, 10 ** 6])
    sizes = [rng.choice([0, 1, 2, 17, 100, 300]) for _ in range(rng.randint(1, 5))]
    return {'cfg': gen_cfg(rng), 'command': rng.choice(['upload_objects', 'upload_objects', 'snapshot']), 'rate_limit': max(L, 1), 'concurrent': n,
            'sizes': sizes, 'seed': rng.randrange(2 ** 32), 'ops': [], 'stamps': gen_stamps(rng, 60)}


def has_dot_segment(name):
    return any(seg in ('.', '..') for seg in name.split('/'))


def host_of(cfg):
    return ('s3.%s.amazonaws.com' % cfg['region']) if cfg.get('aws') else cfg['host']


# --------------------------------------------------------------------------- oracle
def check_scenario(sc, rep, model_queue=None):
    cfg = sc['cfg']
    fake = FakeS3()
    clock = FrozenClock(sc['stamps'])
    with warnings.catch_warnings():
        warnings.simplefilter('ignore', DeprecationWarning)
        try:
            with process_time_zone(sc.get('tz')):
                asyncio.run(run_ops(sc, fake, clock))
        except Exception as e:     # the adapter itself failed: not this property's business unless nothing was sent
            rep.count('adapter-exception:' + type(e).__name__)
            rep.notes.append(f'adapter raised {type(e).__name__}: {str(e)[:120]}') if len(rep.notes) < 5 else None
    host = host_of(cfg)
    for i, rec in enumerate(fake.captured):
        op = rec.get('op', ['?'])
        stamp = stamp_text(tuple(sc['stamps'][min(rec['stamp_index'], len(sc['stamps']) - 1)]))
        rep.count('op:' + op[0])
        if rec.get('aborted'):
            rep.count('transmissions broken off after the first piece of the body')
            continue
        if rec.get('unprepared'):
            rep.count('requests the HTTP client produced by itself')
        if rec.get('answered') in (301, 302, 307, 308):
            rep.count('answered with a redirect')
        try:
            got = verify(rec['method'], rec['target'], rec['headers'], rec['body'], secret=cfg['access_key'].encode(),
                         key_id=cfg['key_id'].encode(), region=cfg['region'].encode(), now=stamp.encode())
            reason = None
        except Reject as e:
            reason, got = e.args[0], None
        # the body and the length announced for it
        if reason is None and op[0] in ('upload', 'upload_stream') and rec['method'] == b'PUT':
            data = bytes.fromhex(op[2])
            cl = [v for k, v in rec['headers'] if k.lower() == b'content-length']
            if rec['body'] != data:
                reason = 'body-differs-from-payload'
            elif cl != [str(len(data)).encode()]:
                reason = 'content-length-missing-or-wrong'
        name = op[1] if len(op) > 1 and isinstance(op[1], str) else ''
        rep.case((cfg['host'], cfg['region'], cfg['key_id'], op[0], name, rec['target'], stamp),
                 nontrivial=any(not (c.isalnum() or c in '/-_.~') for c in name) or bool(rec['body']) or b'?' in rec['target'])
        if reason is not None:
            kind = reason.split(':')[0]
            if kind == 'signature-mismatch' and op[0] != 'list_files' and has_dot_segment(name):
                kind = 'dot_segment'
            rep.violations.append({
                'what': (f'{op[0]}({name!r}) sent {rec["method"].decode()} {rec["target"].decode("latin-1")} to {rec["netloc"]} (endpoint {host}, time {stamp}' + (f', process time zone TZ={sc["tz"]}' if sc.get('tz') else '')
                         + (', request produced by the HTTP client itself after the service answered with a redirect' if rec.get('unprepared') else '')
                         + f'): an independent SigV4 verifier working from the wire bytes rejects it: {reason}'),
                'signature': {'kind': kind, 'op': op[0]},
                'replay': sc})
        elif rec['canon'] is not None:
            # what the module hashed and signed is what the verifier derived from the wire
            creq, sts = rec['canon']
            if creq != got['canonical_request'] or sts != got['string_to_sign']:
                rep.disagreements.append({'what': 'the signature verifies but the canonical request / string to sign the module built '
                                          'differs from the one derived from the wire', 'replay': sc})
        if model_queue is not None and rec['canon'] is not None and reason is None:
            model_queue.append({'sc': sc, 'rec': rec, 'canon': rec['canon'], 'host': host, 'stamp': stamp})
    if not fake.captured:
        rep.disagreements.append({'what': 'scenario produced no request', 'replay': sc})
    return fake


# --------------------------------------------------------------------------- generators
WORDS = ['data', 'snapshots', 'ab', 'cd', '0f3a', 'x', 'file.txt', 'a.b', '.hidden', '...', 'x..', '..x', 'archive.tar.gz', 'Key', 'UPPER']
SPECIALS = list(" %?#&=~*'()!+;:@$,[]{}|\\^`\"<>-_.")
NONASCII = ['é', 'ü', 'ß', 'ø', 'Ω', 'ж', '中文', '日本語', '한', '🙂', ' ', ' ', 'ñ', 'İ']
PCT = ['%41', '%2F', '%2f', '%', '%zz', '%%', '%25', '%20', '+']


def gen_segment(rng):
    k = rng.random()
    if k < 0.25:
        return rng.choice(WORDS)
    parts = []
    for _ in range(rng.randint(1, 5)):
        r = rng.random()
        if r < 0.3:
            parts.append(rng.choice(WORDS))
        elif r < 0.65:
            parts.append(rng.choice(SPECIALS))
        elif r < 0.85:
            parts.append(rng.choice(NONASCII))
        elif r < 0.95:
            parts.append(rng.choice(PCT))
        else:
            parts.append(chr(rng.randint(0x21, 0x7e)))
    return ''.join(parts)


def gen_name(rng):
    while True:
        segs = [gen_segment(rng) for _ in range(rng.choice([1, 1, 2, 2, 3, 4]))]
        if rng.random() < 0.1:
            segs.insert(rng.randint(0, len(segs)), '')      # a//b, leading or trailing slash
        name = '/'.join(segs)
        if not has_dot_segment(name):
            return name


def gen_dot_name(rng):
    segs = [gen_segment(rng) for _ in range(rng.choice([1, 2, 3]))]
    segs.insert(rng.randint(0, len(segs)), rng.choice(['.', '..']))
    return '/'.join(segs)


def gen_token(rng):
    k = rng.random()
    if k < 0.4:
        alphabet = 'ABCDEFGHIJKLMNOPQRSTUVWXYZabcdefghijklmnopqrstuvwxyz0123456789+/='
        return ''.join(rng.choice(alphabet) for _ in range(rng.randint(1, 40)))
    return gen_name(rng) + rng.choice(['', ' ', '==', '+', ' x'])


HOSTS = [('s3.example.com', 'https'), ('minio.internal:9000', 'http'), ('127.0.0.1:9000', 'http'), ('[::1]:9000', 'http'),
         ('localhost:8080', 'http'), ('storage.example.org:8443', 'https'), ('s3.eu-central-1.wasabisys.com', 'https'),
         ('localhost:80', 'http'), ('example.com:443', 'https'), ('S3.Example.COM', 'https'), ('objects.example.net:443', 'http')]
REGIONS = ['us-east-1', 'eu-central-1', 'ap-southeast-2', 'us-gov-west-1', 'garage', 'auto', 'cn-north-1',
           'EU-Central-1', 'US-EAST-1', 'NYC3', 'Garage_Home', 'fr-par']     # as configured: any spelling, any case
BOUNDARY_STAMPS = [(2023, 12, 31, 23, 59, 59), (2024, 1, 1, 0, 0, 0), (2024, 2, 29, 0, 0, 0), (2024, 2, 29, 23, 59, 59), (2024, 3, 1, 0, 0, 0),
                   (1999, 12, 31, 23, 59, 59), (2000, 1, 1, 0, 0, 0), (2038, 1, 19, 3, 14, 7), (2026, 9, 30, 12, 0, 0), (2025, 1, 5, 9, 5, 3),
                   (9999, 12, 31, 23, 59, 59), (1970, 1, 1, 0, 0, 0), (2026, 10, 1, 0, 0, 0), (2026, 9, 30, 23, 59, 59)]


def gen_stamps(rng, n):
    out = []
    i = rng.randrange(len(BOUNDARY_STAMPS))
    for _ in range(n):
        if rng.random() < 0.6:
            out.append(BOUNDARY_STAMPS[i % len(BOUNDARY_STAMPS)])
            i += 1
        else:
            out.append((rng.randint(1970, 2100), rng.randint(1, 12), rng.randint(1, 28), rng.randint(0, 23), rng.randint(0, 59), rng.randint(0, 59)))
    return [list(t) for t in out]


def gen_cfg(rng):
    alnum = 'ABCDEFGHIJKLMNOPQRSTUVWXYZ0123456789'
    key_id = ''.join(rng.choice(alnum) for _ in range(rng.choice([4, 16, 20, 32])))
    if rng.random() < 0.15:
        key_id += rng.choice(['-x', '_y', '.z', 'abc'])
    sec_alpha = 'ABCDEFGHIJKLMNOPQRSTUVWXYZabcdefghijklmnopqrstuvwxyz0123456789+/='
    access_key = ''.join(rng.choice(sec_alpha) for _ in range(rng.choice([8, 40, 64])))
    if rng.random() < 0.1:
        access_key += rng.choice(['é', ' ', '中', '"'])
    bucket = rng.choice(['bkt', 'my-bucket', 'my.bucket.name', 'b123', 'backups-2024'])
    if rng.random() < 0.2:
        return {'aws': True, 'bucket': bucket, 'key_id': key_id, 'access_key': access_key, 'region': rng.choice(REGIONS[:4]),
                'host': None, 'scheme': 'https'}
    host, scheme = rng.choice(HOSTS)
    return {'aws': False, 'bucket': bucket, 'key_id': key_id, 'access_key': access_key, 'region': rng.choice(REGIONS), 'host': host,
            'scheme': scheme}


def gen_payload(rng):
    n = rng.choice([0, 0, 1, 2, 63, 64, 65, 1000, 4096, rng.randint(0, 20000)])
    return rng.randbytes(n).hex()


def gen_ops(rng, n, namegen):
    ops = []
    for _ in range(n):
        k = rng.choice(['exists', 'upload', 'upload_stream', 'download', 'download_stream', 'delete', 'list_files', 'list_files'])
        name = namegen(rng)
        if k == 'upload':
            ops.append([k, name, gen_payload(rng)])
        elif k == 'upload_stream':
            ops.append([k, name, gen_payload(rng), rng.choice([None, 1, 7, 64, 1000, 128000]), rng.choice(['bare', 'tqdm', 'limited'])])
            if rng.random() < 0.5:
                ops.append(['download_stream', name])
        elif k == 'list_files':
            prefix = rng.choice(['', '', namegen(rng), 'data/', 'snapshots/', 'pre fix/+é~*&=', namegen(rng) + ' '])
            tokens = [gen_token(rng) for _ in range(rng.choice([0, 0, 1, 1, 2, 3]))]
            ops.append([k, prefix, tokens])
        else:
            ops.append([k, name])
    return ops


def gen_scenario(rng, nops=6):
    ops = gen_ops(rng, nops, gen_name)
    sc = {'cfg': gen_cfg(rng), 'ops': ops, 'stamps': gen_stamps(rng, 8 * len(ops) + 16)}
    if rng.random() < 0.3:
        sc['put_faults'] = rng.choice([1, 2, 3])      # transient 503s on PUT: every retry must again declare what it sends
    if rng.random() < 0.12:
        # the connection breaks while a streamed body is being sent from a slow source; every retry must carry a body that
        # matches the hash and length it declares
        sc['midbody_faults'] = rng.choice([1, 1, 2])
        ops.insert(rng.randint(0, len(ops)), ['upload_stream', gen_name(rng), rng.randbytes(rng.randint(400, 1500)).hex(),
                                               rng.choice([64, 100, 256]), 'slow'])
    if rng.random() < 0.3:
        sc['optional_args'] = True       # the adapter is constructed with all its optional arguments set
    if rng.random() < 0.4:
        # the process runs in a time zone whose calendar date differs from the UTC date for part of every day (far west: the
        # previous day until 08:00-12:00 UTC; far east: the next day from 10:00-15:00 UTC on): SigV4 dates are UTC dates
        sc['tz'] = rng.choice(['UTC+12', 'UTC-14', 'PST8PDT', 'JST-9', 'UTC+12', 'UTC-14', 'IST-5:30', 'NST3:30'])
    if rng.random() < 0.3:
        # the service answers some requests with a redirect (bucket in another region, gateway moving a path): whatever reaches
        # the wire afterwards - for any host - must again be a correctly signed request
        sc['redirects'] = [[rng.choice([301, 302, 307, 308]), rng.choice(['host', 'path', 'abs'])] for _ in range(rng.choice([1, 2, 3]))]
        if rng.random() < 0.5:
            sc['redirects'] = [[0, 'none']] * rng.randint(0, 2 * len(ops)) + sc['redirects']     # not only the first requests
    return sc


def gen_dot_probe(rng):
    """DESIGN section 5 row 10b: names with '.' / '..' path segments (httpx collapses them after signing)"""
    cfg = gen_cfg(rng)
    names = ['a/../b', '..', './x', 'a/./b/../c'] + [gen_dot_name(rng) for _ in range(4)]
    ops = []
    for nm in names:
        ops.append([rng.choice(['exists', 'download', 'delete']), nm])
    ops.append(['upload', 'x/../y', '00ff'])
    return {'cfg': cfg, 'ops': ops, 'stamps': gen_stamps(rng, 2 * len(ops) + 2), 'probe': 'dot_segment'}


# --------------------------------------------------------------------------- model side (filled in below)
def run_model(queue, rep):
    from harness import c16_model
    return c16_model.compare(queue, rep)


RULE = ('scenario = (endpoint host[:port]/scheme or AWS region endpoint, region, credentials, bucket, frozen timestamps incl. midnight/'
        'year/leap-day boundaries, list of adapter calls exists/upload/upload_stream/download/download_stream/delete/list_files with names, '
        'prefixes and continuation tokens over printable ASCII incl. space % ? # & = ~ * \' ( ) ! + and non-ASCII, payloads 0..20000 bytes, '
        'streams bare or wrapped as repository.py wraps them); one case = one captured HTTP request; distinct by (host, region, key id, op, '
        'name, wire target, time); non-trivial = the name needs escaping, or the request has a body or a query string')


def run(ctx) -> Report:
    rep = Report(rule=RULE)
    rng = ctx.rng
    queue = []
    for _ in range(ctx.scale(300, 3000)):
        sc = gen_scenario(rng, rng.choice([3, 6, 10]))
        check_scenario(sc, rep, queue)
        if len(rep.samples) < 3:
            rep.sample({'cfg': sc['cfg'], 'ops': [[o[0], o[1]] + ([o[2]] if o[0] == 'list_files' else []) for o in sc['ops'][:4]], 'stamps': sc['stamps'][:2]})
    for _ in range(ctx.scale(2, 10)):
        check_scenario(gen_dot_probe(rng), rep, None)
    for _ in range(ctx.scale(25, 250)):
        check_scenario(gen_command_scenario(rng), rep, None)
    run_model(queue[:ctx.scale(800, 6000)], rep)
    return rep


def search(ctx, broken) -> Report:
    rep = Report(rule=RULE)
    rng = ctx.rng
    for b in broken:
        c = b.get('case')
        if isinstance(c, dict) and 'ops' in c and not c.get('probe'):
            check_scenario(c, rep, None)
    for _ in range(4000):
        check_scenario(gen_scenario(rng, rng.choice([3, 6, 10])), rep, None)
        if len(rep.violations) > 20:
            break
    return rep


def replay(ctx, obj):
    rep = Report(rule=RULE)
    case = obj.get('replay') or {}
    if 'ops' not in case:
        print('replay file does not carry a C16 scenario:', obj.get('kind'))
        return 0
    queue = []
    check_scenario(case, rep, queue)
    run_model(queue, rep)
    for v in rep.violations:
        print('VIOLATION-REPRODUCED', v['what'])
    for d in rep.disagreements:
        print('DISAGREEMENT-REPRODUCED', d['what'])
    return 1 if rep.violations or rep.disagreements else 0
