"""C14 - what replicat writes follows the documented repository format, both directions.

direction 1  real init + snapshot on an in-memory backend; harness/refcodec.py (independent reader, written
             from the README) decodes config, key file, every snapshot and chunk object and every storage
             name, reassembles every file and compares with the source; the recorded ranges also go
             through the Coq reader (Model/Stream.plan, vm_compute) and are applied to the decrypted chunks.
direction 2  refcodec's writer produces a repository with its own chunking and layout - the ranges are
             written by the Coq model (Model/Stream.manifest, vm_compute) and cross-checked against a
             direct computation - with current or pre-1.3 metadata; the real unlock + restore must
             reproduce the tree.
locations    names/tags from real runs, random hex and junk through the real get_/parse_ functions and
             through Model/Location (vm_compute); round-trip / prefix / file-name oracles.
json         random value trees through the real serialize / deserialize and Model/Json with the
             Model/Base64 instance; round-trip oracle for trees without a one-key {"!b": ...} object.
DESIGN.md section 4, C14; design/C14.md."""
from __future__ import annotations

import asyncio
import base64
import contextlib
import hashlib
import hmac
import io
import json
import os
import random as _random
import re
import queue as _queue
import shutil
import threading
import time
import types
import traceback
from datetime import datetime, timedelta, timezone
from pathlib import Path

from harness import core, refcodec
from harness.core import Report
from harness.memstore import MemBackend

PASSWORD = b'correct horse C14'
NAMES = ['a', 'b.txt', 'x y', 'é', 'ü-名', '-dash', 'q?x', "it's", 'data', 'snapshots', 'k-1-2', 'z.tmp']


# --------------------------------------------------------------------------- generators
def gen_hashing(rng):
    h = rng.random()
    if h < 0.4:
        return {'name': 'blake2b', 'length': rng.choice([8, 16, 20, 32, 48, 64])}
    if h < 0.7:
        return {'name': 'sha2', 'bits': rng.choice([224, 256, 384, 512])}
    return {'name': 'sha3', 'bits': rng.choice([224, 256, 384, 512])}


NONCE_BITS = [96, 96, 64, 104, 128, 128, 192, 256]      # byte-aligned AES-GCM nonce sizes; 96 is the default


def gen_cipher(rng):
    """both ciphers; for aes_gcm every key size and default / non-default nonce sizes (chacha20_poly1305 has no parameters)"""
    if rng.random() < 0.3:
        return {'name': 'chacha20_poly1305'}
    c = {'name': 'aes_gcm', 'key_bits': rng.choice([128, 192, 256])}
    if rng.random() < 0.75:
        c['nonce_bits'] = rng.choice(NONCE_BITS)
    return c


def gen_chunking(rng):
    mx = rng.choice([8, 12, 16, 24, 32, 48, 64, 100])
    mn = rng.choice([1, 2, 4, max(1, mx // 4), max(1, mx // 2), mx])
    while ((mn + 3) & -4) > mx:
        mn -= 1
    return {'min_length': mn, 'max_length': mx}


def gen_sizes(rng, mx, n):
    pool = [0, 1, 2, 3, 4, 5, 7, 8, mx - 1, mx, mx + 1, 2 * mx, 2 * mx + 3, 3 * mx + 2, 5 * mx]
    return [rng.choice(pool) if rng.random() < 0.7 else rng.randint(0, 6 * mx) for _ in range(n)]


def make_content(rng, size, kind, shared):
    if kind == 'zero':
        return bytes(size)
    if kind == 'rep':
        pat = rng.randbytes(rng.choice([1, 4, 8]))
        return (pat * (size // len(pat) + 1))[:size]
    if kind == 'same':
        return (shared * (size // len(shared) + 1))[:size]
    return rng.randbytes(size)


def gen_paths(rng, n):
    out, used = [], set()
    for i in range(n):
        depth = rng.choice([0, 0, 1, 2])
        parts = tuple([rng.choice(NAMES) + str(rng.randint(0, 2)) for _ in range(depth)] + [rng.choice(NAMES) + str(i)])
        if parts in used or any(parts[:k] in used for k in range(1, len(parts))) or any(q[:len(parts)] == parts for q in used):
            continue
        used.add(parts)
        out.append(list(parts))
    return out


def gen_case1(rng):
    ch = gen_chunking(rng)
    settings = {'chunking': ch, 'hashing': gen_hashing(rng)}
    if rng.random() < 0.3:
        settings['encryption'] = None
    else:
        settings['encryption'] = {'cipher': gen_cipher(rng), 'kdf': {'name': 'scrypt', 'n': 4, 'r': rng.choice([1, 2]), 'p': 1}}
    paths = gen_paths(rng, rng.choice([1, 2, 3, 5, 8]))
    sizes = gen_sizes(rng, ch['max_length'], len(paths))
    tree = [{'parts': p, 'size': s, 'kind': rng.choice(['data', 'data', 'zero', 'rep', 'same'])} for p, s in zip(paths, sizes)]
    return {'dir': 1, 'settings': settings, 'concurrent': rng.choice([1, 2, 5]), 'tree': tree, 'seed': rng.randint(0, 2 ** 31),
            'second': rng.random() < 0.4, 'note': rng.choice([None, 'n', 'note é']),
            'tz': [rng.choice(TIME_ZONES), rng.choice(TIME_ZONES)] if rng.random() < 0.4 else None,
            'args': rng.choice(['root', 'root', 'each', 'dup', 'overlap', 'overlap', 'symlink', 'spelling']),
            'fault': rng.choice([None] * 8 + ['vanish', 'unreadable']), 'replace': rng.random() < 0.15}


def gen_sched_case1(rng):
    """one connection, slow producer, stale empty() answers (see _forced_schedule)"""
    c = gen_case1(rng)
    c.update(concurrent=1, schedule='forced', fault=None)
    if len(c['tree']) < 2 or sum(f['size'] for f in c['tree']) < 3 * c['settings']['chunking']['max_length']:
        mx = c['settings']['chunking']['max_length']
        c['tree'] = [{'parts': ['s0'], 'size': rng.randint(1, mx), 'kind': 'data'}, {'parts': ['d', 's1'], 'size': 2 * mx + rng.randint(1, mx), 'kind': 'data'},
                     {'parts': ['d', 's2'], 'size': 3 * mx + rng.randint(0, 7), 'kind': 'data'}]
    return c


def read_block_size():
    """the size of the blocks snapshot() reads files in: default of _stream_files' chunk_size, from the source"""
    try:
        import ast
        from translate import pyast
        R = pyast.find_class(pyast.module('replicat/repository.py'), 'Repository')
        fn = pyast.find_func(pyast.find_func(R, 'snapshot'), '_stream_files')
        names = [a.arg for a in fn.args.args]
        v = ast.literal_eval(fn.args.defaults[names.index('chunk_size') - (len(names) - len(fn.args.defaults))])
        if isinstance(v, int) and 0 < v <= 2 ** 26:
            return v
    except Exception:
        pass
    return 16_777_216


def gen_big_case1(rng):
    """one file spanning more than one internal read block, next to a few small ones"""
    block = read_block_size()
    mx = rng.choice([65536, 131072, 262144])
    settings = {'chunking': {'min_length': mx // 4, 'max_length': mx}, 'hashing': gen_hashing(rng)}
    if rng.random() < 0.3:
        settings['encryption'] = None
    else:
        settings['encryption'] = {'cipher': gen_cipher(rng), 'kdf': {'name': 'scrypt', 'n': 4, 'r': 1, 'p': 1}}
    tree = [{'parts': ['small-a'], 'size': rng.randint(0, 9), 'kind': 'data'}, {'parts': ['d', 'small-b'], 'size': rng.randint(1, 5000), 'kind': 'data'},
            {'parts': ['d', 'big é'], 'size': block + rng.randint(1, block // 8), 'kind': 'data'}]
    return {'dir': 1, 'settings': settings, 'concurrent': rng.choice([1, 2, 3]), 'tree': tree, 'seed': rng.randint(0, 2 ** 31),
            'second': False, 'note': None, 'big': True, 'read_block': block}


def gen_case2(rng):
    hashing = gen_hashing(rng)
    config = {'hashing': dict(hashing), 'chunking': {'name': 'gclmulchunker', 'min_length': 128000, 'max_length': 5120000}}
    if config['hashing']['name'] != 'blake2b' and rng.random() < 0.3:
        config['hashing'].pop('bits')           # defaults are part of the documented settings table (512 bits)
    if rng.random() >= 0.3:
        c = gen_cipher(rng)
        if c['name'] == 'aes_gcm' and 'nonce_bits' not in c and rng.random() < 0.5:
            c['nonce_bits'] = 96         # omitted = the documented default
        config['encryption'] = {'cipher': c}
    nfiles = rng.choice([1, 2, 3, 5, 8])
    paths = gen_paths(rng, nfiles)
    unit = rng.choice([4, 8, 16, 40])
    sizes = gen_sizes(rng, unit, len(paths))
    files = [{'parts': p, 'size': s, 'kind': rng.choice(['data', 'data', 'zero', 'rep', 'same'])} for p, s in zip(paths, sizes)]
    if files and rng.random() < 0.5:
        files[0]['parts'][-1] = rng.choice(['né', 'ü-名', 'Ω.txt', 'д']) + files[0]['parts'][-1]
    return {'dir': 2, 'config': config, 'files': files, 'seed': rng.randint(0, 2 ** 31),
            'align': rng.choice([1, 4, 4, 4, 8]),                      # padding between files (1 = none)
            'split': rng.choice(['fixed4', 'fixed4', 'random', 'one', 'perfile']), 'unit': unit,
            'legacy': rng.random() < 0.45, 'style': rng.choice(['compact', 'utf8', 'utf8', 'spaced', 'indented']),
            'mac_length': rng.choice([64, 64, 32, 16]), 'shuffle': rng.random() < 0.7,
            'later': [[{'file': i, 'kind': rng.choice(['changed', 'emptied', 'emptied', 'filled'])}
                       for i in rng.sample(range(len(files)), min(len(files), rng.choice([1, 1, 2])))]
                      for _ in range(rng.choice([1, 1, 2]))] if files and rng.random() < 0.45 else [],
            'drop_empty_refs': rng.random() < 0.5, 'concurrent': rng.choice([1, 2, 5]),
            'pre': rng.choice(['none', 'none', 'longer', 'longer', 'shorter', 'equal', 'mixed']),
            # st_size recorded by a stat() after the file grew / was rotated: differs from the data the ranges define
            'size_skew': rng.choice([0, 0, 0, -1, 1, -1000, 7, 4096]),
            'kdf': {'name': 'scrypt', 'n': rng.choice([2, 4, 8]), 'r': rng.choice([1, 2]), 'p': 1}}


# --------------------------------------------------------------------------- helpers
@contextlib.contextmanager
def _quiet():
    sink = io.StringIO()
    with contextlib.redirect_stdout(sink), contextlib.redirect_stderr(sink):
        yield


TIME_ZONES = ['PST8', 'JST-9', 'IST-5:30', 'UTC0', 'NST3:30']      # POSIX TZ strings: UTC-8, UTC+9, UTC+5:30, UTC, UTC-3:30


@contextlib.contextmanager
def _tz(name):
    """run a block with the process in another time zone (no-op for None)"""
    if not name:
        yield
        return
    old = os.environ.get('TZ')
    os.environ['TZ'] = name
    time.tzset()
    try:
        yield
    finally:
        if old is None:
            os.environ.pop('TZ', None)
        else:
            os.environ['TZ'] = old
        time.tzset()


@contextlib.contextmanager
def _fault(kind, victim):
    """while a snapshot runs: 'vanish' removes the victim once the first file has been read to its end (hook on
    read_metadata); 'unreadable' makes opening the victim for reading fail with PermissionError (hook on Path.open)"""
    if not kind:
        yield
        return
    import replicat.repository as R
    orig_rm, orig_open = R.Repository.read_metadata, Path.open
    fired = []

    def read_metadata(self, file):
        res = orig_rm(self, file)
        if kind == 'vanish' and not fired:
            fired.append(1)
            with contextlib.suppress(FileNotFoundError):
                os.unlink(victim)
        return res

    def popen(self, *a, **k):
        if kind == 'unreadable' and str(self) == str(victim) and (a[:1] == ('rb',) or k.get('mode') == 'rb'):
            raise PermissionError(13, 'Permission denied', str(self))
        return orig_open(self, *a, **k)

    R.Repository.read_metadata, Path.open = read_metadata, popen
    try:
        yield
    finally:
        R.Repository.read_metadata, Path.open = orig_rm, orig_open


class _StaleEmptyQueue(_queue.Queue):
    """queue.Queue whose empty() answers late: a caller told 'empty' is preempted until the other side has put its next
    item (or a short timeout), and a little longer - the answer it acts on is stale by then"""
    WAIT, LINGER = 0.08, 0.01

    def __init__(self, maxsize=0):
        super().__init__(maxsize)
        self._puts = 0
        self._put_happened = threading.Condition()

    def put(self, item, block=True, timeout=None):
        super().put(item, block, timeout)
        with self._put_happened:
            self._puts += 1
            self._put_happened.notify_all()

    def empty(self):
        answer = super().empty()
        if answer:
            seen = self._puts
            with self._put_happened:
                self._put_happened.wait_for(lambda: self._puts != seen, timeout=self.WAIT)
            time.sleep(self.LINGER)
        return answer


@contextlib.contextmanager
def _forced_schedule(on, delay=0.008):
    """a slow chunk producer (every chunk takes a while: slow source) against a fast backend, and stale empty() answers:
    the queue keeps running empty and the consumer keeps deciding on old information"""
    if not on:
        yield
        return
    import replicat.repository as R
    orig_queue, orig_chunkify = R.queue, R.RepositoryProps.chunkify

    def chunkify(self, it):
        for c in orig_chunkify(self, it):
            time.sleep(delay)
            yield c

    R.queue = types.SimpleNamespace(Queue=_StaleEmptyQueue, Empty=_queue.Empty, Full=_queue.Full)
    R.RepositoryProps.chunkify = chunkify
    try:
        yield
    finally:
        R.queue, R.RepositoryProps.chunkify = orig_queue, orig_chunkify


@contextlib.contextmanager
def _replace_on_read(on):
    """every source file is atomically replaced (temp + rename) by a successor of another size and mtime once it has been
    read to its end but while it is still open: what the snapshot records must describe the contents it stored"""
    if not on:
        yield
        return
    import replicat.repository as R
    orig = R.Repository.read_metadata

    def read_metadata(self, file):
        try:
            path = os.readlink(f'/proc/self/fd/{file}') if isinstance(file, int) else os.fspath(file)
            if os.path.isfile(path) and '/src/' in path:
                tmp = path + '.c14-new'
                with open(tmp, 'wb') as f:
                    f.write(b'successor ' * 7)
                os.replace(tmp, path)
        except OSError:
            pass
        return orig(self, file)

    R.Repository.read_metadata = read_metadata
    try:
        yield
    finally:
        R.Repository.read_metadata = orig


def snapshot_args(kind, src, files, wd):
    """argument lists that all denote every file under src once: repeats, overlaps, a symlink resolving into
    another argument, an odd spelling"""
    sub = [f for f in files if f.parent != src]
    if kind == 'each':
        return list(files)
    if kind == 'dup':
        return [src, src]
    if kind == 'overlap':
        return [src] + ([sub[0].parent] if sub else []) + list(files[:2])
    if kind == 'symlink':
        links = Path(os.path.realpath(wd)) / 'links'
        links.mkdir(exist_ok=True)
        out = [src]
        for i, tgt in enumerate(([sub[0].parent] if sub else []) + list(files[:1])):
            l = links / f'l{i}'
            if not l.is_symlink():
                os.symlink(tgt, l)
            out.append(l)
        return out
    if kind == 'spelling':
        out = [src, Path(str(src) + '/../' + src.name)]
        if sub:
            out.append(Path(str(sub[0].parent) + '/../' + sub[0].parent.name + '/' + sub[0].name))
        if files:
            out.append(Path(str(src) + '/./' + str(files[0].relative_to(src))))
        return out
    return [src]


def _utcnow():
    return datetime.fromtimestamp(time.time(), timezone.utc)


def _repo(backend, concurrent=2):
    from replicat.repository import Repository
    return Repository(backend, concurrent=concurrent, quiet=True, cache_directory=None)


def _tagged(x):
    return isinstance(x, dict) and list(x) == ['!b'] and isinstance(x['!b'], str) and re.fullmatch(r'[A-Za-z0-9+/]*={0,2}', x['!b']) is not None \
        and len(x['!b']) % 4 == 0


def _has_tagged(x):
    if _tagged(x):
        return True
    if isinstance(x, dict):
        return any(_has_tagged(v) for v in x.values())
    if isinstance(x, list):
        return any(_has_tagged(v) for v in x)
    return False


# --------------------------------------------------------------------------- direction 1
def run_dir1(case, wd: Path):
    """real init + snapshot(s), then the reference reader.  Returns (problems, obs)."""
    rng = _random.Random(case['seed'])
    src = Path(os.path.realpath(wd)) / 'src'
    src.mkdir(parents=True)
    shared = rng.randbytes(23)
    files = []
    for f in case['tree']:
        p = src.joinpath(*f['parts'])
        p.parent.mkdir(parents=True, exist_ok=True)
        p.write_bytes(make_content(rng, f['size'], f['kind'], shared))
        os.utime(p, ns=(rng.randint(10 ** 17, 16 * 10 ** 17), rng.randint(10 ** 17, 16 * 10 ** 17)))
        files.append(p)
    settings = json.loads(json.dumps(case['settings']))
    encrypted = settings.get('encryption', {}) is not None
    password = PASSWORD if encrypted else None
    backend = MemBackend()
    keyfile = wd / 'key.json'
    expected = []        # per snapshot: (location, {path: (bytes, mtime_ns, size)}, note, (utc before, utc after))
    tzs = list(case.get('tz') or [None, None])
    restored = []
    akind = case.get('args', 'root')
    outcome = []         # of the snapshot taken while a file vanishes / is unreadable

    def state():
        return {str(p): (p.read_bytes(), p.stat().st_mtime_ns, p.stat().st_size, p.stat().st_mode) for p in files}

    async def go():
        r = _repo(backend, case['concurrent'])
        await r.init(password=password, settings=settings, key_output_path=keyfile if encrypted else None)
        key = keyfile.read_bytes() if encrypted else None
        r2 = _repo(backend, case['concurrent'])
        await r2.unlock(password=password, key=key)
        st = state()
        with _tz(tzs[0]):
            t0 = _utcnow()
            s = await r2.snapshot(paths=snapshot_args(akind, src, files, wd), note=case['note'])
            expected.append((s.location, st, case['note'], (t0, _utcnow())))
        if case.get('fault') and files:
            # a second snapshot during which a file vanishes / cannot be read when its turn comes
            q = src / 'added-later'
            q.write_bytes(rng.randbytes(rng.choice([1, 3, 33])))
            files.append(q)
            victim = max(files, key=lambda f: (f.stat().st_size, str(f)))      # streamed last
            kind = case['fault'] if len(files) >= 2 else 'unreadable'
            args = snapshot_args(akind, src, files, wd)
            try:
                with _fault(kind, victim), _tz(tzs[1]):
                    t0 = _utcnow()
                    s = await r2.snapshot(paths=args, note=None)
                    t1 = _utcnow()
            except OSError as e:
                outcome.append(f'raised {type(e).__name__}')
            else:
                # it went through: whatever got stored must be a well-formed snapshot of the files that could be read
                outcome.append('returned')
                files.remove(victim)
                expected.append((s.location, state(), None, (t0, t1)))
        elif case['second'] and files:
            p = files[0]
            old = p.read_bytes()
            p.write_bytes(old[:len(old) // 2] + rng.randbytes(rng.choice([0, 1, 5, 40])) + old[len(old) // 2:])
            q = src / 'added-later'
            q.write_bytes(rng.randbytes(rng.choice([0, 3, 33])))
            files.append(q)
            st = state()
            time.sleep(0.002)
            with _tz(tzs[1]):
                t0 = _utcnow()
                s = await r2.snapshot(paths=snapshot_args(akind, src, files, wd), note=None)
                expected.append((s.location, st, None, (t0, _utcnow())))
            if any(tzs):
                # the snapshots were taken in different zones: restore must still bring back the latest version
                r3 = _repo(backend, case['concurrent'])
                await r3.unlock(password=password, key=key)
                out = Path(os.path.realpath(wd)) / 'out'
                out.mkdir()
                await r3.restore(path=out)
                restored.append((Path(out, *p.parts[1:]), st[str(p)][0]))
        return key

    with _quiet(), _forced_schedule(case.get('schedule') == 'forced'), _replace_on_read(case.get('replace')):
        key_bytes = asyncio.run(go())

    problems = []
    obs = {'locs': [], 'files': [], 'encrypted': encrypted, 'fault_outcome': outcome[0] if outcome else None}

    def bad(what, kind):
        problems.append((what, kind))

    for t, want in restored:
        if not t.is_file() or t.read_bytes() != want:
            bad(f'after snapshots taken under TZ={tzs[0]} and TZ={tzs[1]} restore does not bring back the latest version of a file', 'latest_version')
    objects = dict(backend.objects)
    try:
        _read_dir1(case, settings, encrypted, password, objects, key_bytes, expected, bad, obs)
    except refcodec.FormatError as e:
        bad(f'repository does not decode under the documented scheme: {e}', 'decode')
    return problems, obs


def _read_dir1(case, settings, encrypted, password, objects, key_bytes, expected, bad, obs):
    # ---- config and key file
    try:
        rd = refcodec.Reader(objects, key_bytes, password)
    except refcodec.FormatError as e:
        bad(f'config / key file do not decode under the documented scheme: {e}', 'config_or_key')
        return
    cfg = rd.config
    if _has_tagged(refcodec.loads_raw(objects['config'])):
        bad('config carries byte strings', 'config_or_key')
    want_enc = {'cipher'} if encrypted else None
    if (set(cfg.get('encryption') or {}) or None) != want_enc or cfg['hashing'].get('name') != settings['hashing']['name']:
        bad(f'config does not reflect the requested settings: {cfg}', 'config_or_key')
    if encrypted:
        asked, got = settings['encryption']['cipher'], cfg['encryption']['cipher']
        if got.get('name') != asked['name'] or any(got.get(k) != v for k, v in asked.items()) \
                or (asked['name'] == 'aes_gcm' and (got.get('key_bits', 256), got.get('nonce_bits', 96)) != (asked.get('key_bits', 256), asked.get('nonce_bits', 96))):
            bad(f'config does not record the requested cipher parameters: asked {asked}, recorded {got}', 'config_or_key')
        raw_key = refcodec.loads_raw(key_bytes)
        if not (_tagged(raw_key.get('kdf_params')) and _tagged(raw_key.get('private'))):
            bad('key file: kdf_params / private are not tagged {"!b": base64} byte strings', 'tagging')
        kdf = rd.keys.key['kdf']
        if (kdf.get('n'), kdf.get('r'), kdf.get('p')) != (4, settings['encryption']['kdf']['r'], 1) or kdf.get('length') != rd.keys.cipher.key_bytes:
            bad(f'key file: user KDF parameters differ from the requested ones: {kdf}', 'config_or_key')
        if len(rd.keys.private['shared_key']) != rd.keys.cipher.key_bytes:
            bad('private section: shared key length differs from the cipher key length', 'config_or_key')
    # ---- every storage name
    for name in sorted(objects):
        if name == 'config':
            continue
        if name.startswith('data/'):
            try:
                rd.check_chunk_name(name)
            except refcodec.FormatError as e:
                bad(str(e)[:160], 'chunk_name')
        elif not name.startswith('snapshots/'):
            bad(f'object outside config / data/ / snapshots/: {name[:60]}', 'stray_object')
    if sorted(rd.snapshot_names()) != sorted(x[0] for x in expected):
        bad('snapshot objects in the store differ from the locations snapshot() reported', 'snapshot_name')
    # ---- every snapshot object
    referenced = set()
    stamps = []
    for loc, st, note, (t0, t1) in expected:
        if loc not in objects:
            continue
        try:
            snap = rd.read_snapshot(loc)
        except refcodec.FormatError as e:
            bad(f'snapshot object does not decode under the documented scheme: {e}', 'snapshot_object')
            continue
        raw = refcodec.loads_raw(objects[loc])
        if encrypted:
            if not (_tagged(raw.get('chunks')) and _tagged(raw.get('data'))):
                bad('encrypted snapshot: chunks / data are not tagged byte strings', 'tagging')
        else:
            if not all(_tagged(d) for d in raw['chunks']) or not all(_tagged(f['digest']) for f in raw['data']['files']):
                bad('snapshot: digests are not tagged {"!b": base64} byte strings', 'tagging')
        try:
            objects[loc].decode('ascii')
        except UnicodeDecodeError:
            bad('snapshot object is not ASCII JSON', 'snapshot_object')
        data, table = snap['data'], snap['table']
        if not isinstance(data, dict) or not {'utc_timestamp', 'files'} <= set(data) or set(data) - {'utc_timestamp', 'files', 'note'}:
            bad(f'snapshot data fields: {sorted(data) if isinstance(data, dict) else type(data)}', 'snapshot_object')
            continue
        if data.get('note') != note:
            bad('snapshot note differs', 'snapshot_object')
        if not isinstance(data['utc_timestamp'], str) or re.fullmatch(r'\d{4}-\d\d-\d\d \d\d:\d\d:\d\d(\.\d+)?', data['utc_timestamp']) is None:
            bad(f'utc_timestamp is not an ISO-like UTC time: {data["utc_timestamp"]!r}', 'snapshot_object')
        else:
            ts = datetime.fromisoformat(data['utc_timestamp']).replace(tzinfo=timezone.utc)
            stamps.append(ts)
            slack = timedelta(seconds=2)
            if not (t0 - slack <= ts <= t1 + slack):
                tzname = (case.get('tz') or [None, None])[len(stamps) - 1]
                bad(f'utc_timestamp {data["utc_timestamp"]} (TZ={tzname}) is not inside the UTC interval of the snapshot call '
                    f'[{t0:%Y-%m-%d %H:%M:%S}, {t1:%Y-%m-%d %H:%M:%S}]', 'utc_timestamp')
        hsize = len(rd.keys.hash(b''))
        if any(len(d) != hsize for d in table):
            bad('chunk table entry is not a digest of the configured hash', 'snapshot_object')
        referenced |= set(table)
        spans, bycounter = [], {}
        seen_paths = [f.get('path') for f in data['files']]
        if sorted(seen_paths) != sorted(st):
            bad(f'files recorded {len(seen_paths)} ({len(set(seen_paths))} distinct) != files the arguments denote {len(st)}'
                + (f' (snapshot {obs["fault_outcome"]} while a file could not be read)' if obs.get('fault_outcome') else ''), 'file_set')
        used_idx = set()
        for entry in data['files']:
            if set(entry) != {'path', 'chunks', 'digest', 'metadata'}:
                bad(f'file entry fields: {sorted(entry)}', 'file_entry')
                continue
            if not isinstance(entry['digest'], bytes) or not isinstance(entry['metadata'], dict) or not isinstance(entry['chunks'], list):
                bad(f'file entry is not well-formed: digest {type(entry["digest"]).__name__}, metadata {type(entry["metadata"]).__name__}'
                    + (f' (snapshot {obs["fault_outcome"]} while a file could not be read)' if obs.get('fault_outcome') else ''), 'file_entry')
                continue
            if entry['path'] not in st:
                continue         # reported as file_set above
            want, mtime_ns, size, mode = st[entry['path']]
            try:
                got, lay = rd.file_bytes(entry, table)
            except refcodec.FormatError as e:
                bad(f'file does not reassemble: {e}', 'file_bytes')
                continue
            used_idx |= {i for _, i, _, _, _ in lay}
            total = sum(b - a for _, _, a, b, _ in lay)
            md = entry['metadata']
            if got != want:
                bad(f'file reassembled from the recorded ranges differs from the source ({len(got)} vs {len(want)} bytes)', 'file_bytes')
            if total != size or not isinstance(md, dict) or md.get('st_size') != size:
                bad(f'ranges do not tile the file: sum {total}, st_size {md.get("st_size") if isinstance(md, dict) else None}, real {size}', 'tiling')
            if entry['digest'] != rd.keys.hash(want) or entry['digest'] != rd.keys.hash(got):
                bad('the bytes rebuilt from the recorded ranges / the source do not hash to the recorded file digest', 'file_entry')
            if isinstance(md, dict) and (md.get('st_mtime_ns') != mtime_ns or md.get('st_mode') != mode
                                         or not {'st_uid', 'st_gid', 'st_atime_ns', 'st_ctime_ns'} <= set(md)):
                bad('file metadata differs from the source', 'metadata')
            counters = [c for c, _, _, _, _ in lay]
            if len(set(counters)) != len(counters):
                bad('two ranges of one file share a counter', 'tiling')
            # consecutive positions: between the first and the last non-empty range every chunk is used whole
            ne = [x for x in lay if x[3] > x[2]]
            for i, (c, _, a, b, n) in enumerate(ne):
                if (i > 0 and a != 0) or (i < len(ne) - 1 and b != n) or (i > 0 and c != ne[i - 1][0] + 1):
                    bad(f'ranges of a file are not consecutive in the chunk stream (counter, start, end, chunk length): '
                        f'{[(x[0], x[2], x[3], x[4]) for x in ne[max(0, i - 2):i + 2]]}', 'tiling')
                    break
            for c, i, _, _, _ in lay:
                bycounter[c] = table[i]
            if ne:
                spans.append((ne[0][0], ne[0][2], size))
            obs['files'].append({'refs': [[a, b, c] for c, _, a, b, _ in lay],
                                 'chunks': {c: rd.chunk_plaintext(table[i]) for c, i, _, _, _ in lay}, 'want': want})
        # the chunk stream: files start at multiples of the chunker alignment (4), zero padding in between
        if bycounter and set(bycounter) == set(range(1, max(bycounter) + 1)):
            offs, pos, pieces = {}, 0, []
            for c in range(1, max(bycounter) + 1):
                offs[c] = pos
                plain = rd.chunk_plaintext(bycounter[c])
                pos += len(plain)
                pieces.append(plain)
            stream = b''.join(pieces)
            placed = sorted((offs[c] + a, n) for c, a, n in spans)
            for j, (start, n) in enumerate(placed):
                nxt = placed[j + 1][0] if j + 1 < len(placed) else None
                if start % 4 or (nxt is not None and (nxt - (start + n) != (-n) % 4 or stream[start + n:nxt].strip(b'\0'))):
                    bad(f'files are not laid out at multiples of the alignment with zero padding: {placed[:8]}', 'padding')
                    break
            if placed and placed[-1][0] + placed[-1][1] != len(stream):
                bad('the chunk stream extends past the last file', 'padding')
        if used_idx != set(range(len(table))) and data['files'] and any(f['chunks'] for f in data['files']):
            # every table entry is referenced by a range, except chunks of pure padding
            unused = [rd.chunk_plaintext(table[i]) for i in set(range(len(table))) - used_idx]
            if any(u.strip(b'\0') for u in unused):
                bad('chunk table entry referenced by no file range', 'snapshot_object')
        obs['locs'].append(['snapshot', snap['name'], snap['tag'], loc])
    if len(stamps) == 2 and len(expected) == 2 and not stamps[0] < stamps[1]:
        bad(f'the snapshot taken later carries the earlier utc_timestamp ({stamps[1]} vs {stamps[0]}): a reader takes the older version as the latest', 'utc_timestamp_order')
    # ---- every chunk object is the documented function of a table digest, and vice versa
    want_paths = {}
    for d in referenced:
        name, tag = rd.keys.chunk_parts(d)
        path = refcodec.chunk_path(name, tag)
        want_paths[path] = d
        obs['locs'].append(['chunk', name, tag, path])
        try:
            rd.chunk_plaintext(d)
        except refcodec.FormatError as e:
            bad(f'chunk object does not decode under the documented scheme: {e}', 'chunk_object')
    extra = set(rd.chunk_names()) - set(want_paths)
    if extra and not (obs.get('fault_outcome') or '').startswith('raised'):      # an aborted snapshot may leave orphans (tags still verify)
        bad(f'{len(extra)} chunk object(s) at locations that are not the documented function of any table digest', 'chunk_name')
    obs['nchunks'] = len(referenced)


# --------------------------------------------------------------------------- direction 2
def layout2(case):
    """contents, extents, padded stream and the writer's own chunk split for one direction-2 case
    (one layout per snapshot)."""
    rng = _random.Random(case['seed'])
    shared = rng.randbytes(19)
    base = [make_content(rng, f['size'], f['kind'], shared) for f in case['files']]
    snaps = [list(range(len(base)))]
    contents = {0: base}
    # later (newer) snapshots re-record some paths: changed, emptied (an empty file: no data, hence no chunk
    # references) or filled (new unrelated content, e.g. over a version that was empty)
    later = case.get('later')
    if later is None:
        later = [[{'file': 0, 'kind': 'changed'}]] if case.get('two') else []
    current = list(base)
    for edits in later:
        idxs, blobs = [], []
        for e in edits:
            i = e['file']
            if i >= len(base) or i in idxs:
                continue
            if e['kind'] == 'emptied':
                new = b''
            elif e['kind'] == 'filled':
                new = rng.randbytes(rng.randint(1, 40))
            else:
                new = bytes(reversed(current[i])) + rng.randbytes(rng.choice([0, 1, 9]))
            current[i] = new
            idxs.append(i)
            blobs.append(new)
        if idxs:
            contents[len(snaps)] = blobs
            snaps.append(idxs)
    layouts = []
    for k, idxs in enumerate(snaps):
        blobs = contents[k]
        a = case['align']
        ext, off, stream = [], 0, bytearray()
        for j, b in enumerate(blobs):
            ext.append((off, off + len(b)))
            stream += b
            off += len(b)
            if j < len(blobs) - 1:
                pad = (-len(b)) % a
                stream += bytes(pad)
                off += pad
        n = len(stream)
        sizes, pos = [], 0
        while pos < n:
            if case['split'] == 'fixed4':
                s = case['unit'] if case['unit'] % 4 == 0 else 4
            elif case['split'] == 'random':
                s = rng.randint(1, 3 * case['unit'])
            elif case['split'] == 'one':
                s = n
            else:   # perfile: cut at the next file boundary (padding goes with the file before it)
                nxt = [e[0] for e in ext if e[0] > pos]
                s = (nxt[0] - pos) if nxt else n - pos
            s = min(s, n - pos)
            sizes.append(s)
            pos += s
        layouts.append({'files': idxs, 'blobs': blobs, 'ext': ext, 'stream': bytes(stream), 'clens': sizes})
    return layouts


def own_refs(ext, clens):
    """the writer's direct computation: non-empty intersections of a file with the chunks"""
    out = []
    for fs, fe in ext:
        refs, off = [], 0
        for c, n in enumerate(clens, 1):
            lo, hi = max(fs, off), min(fe, off + n)
            if lo < hi:
                refs.append([lo - off, hi - off, c])
            off += n
        out.append(refs)
    return out


def model_manifests(layouts_flat):
    """Model/Stream.manifest on (alignment, file lengths, chunk lengths): the Coq model writes the ranges"""
    L = ['From Coq Require Import List Arith.', 'From Replicat Require Import Model.Stream.', 'Import ListNotations.',
         'Definition refl (r : ref) := (r_start r, r_end r, r_counter r).',
         'Definition cases : list (nat * list nat * list nat) := [']
    L.append(';\n'.join(f'  ({a}, {core.coq_nat_list(fl)}, {core.coq_nat_list(cl)})' for a, fl, cl in layouts_flat))
    L.append('].')
    L.append("Eval vm_compute in map (fun c => let '(a, fl, cl) := c in map (map refl) (manifest a fl cl)) cases.")
    return '\n'.join(L) + '\n'


def model_plans(files):
    """Model/Stream.plan / plan_size on recorded refs: the Coq model reads the ranges"""
    L = ['From Coq Require Import List Arith.', 'From Replicat Require Import Model.Stream.', 'Import ListNotations.',
         'Definition mk (t : nat * nat * nat) : ref := let \'(a, b, c) := t in mkref a b c.',
         'Definition cases : list (list (nat * nat * nat)) := [']
    L.append(';\n'.join('  [' + '; '.join(f'({a}, {b}, {c})' for a, b, c in f['refs']) + ']' for f in files))
    L.append('].')
    L.append('Eval vm_compute in map (fun m => (map (fun pr => (fst pr, r_start (snd pr), r_end (snd pr), r_counter (snd pr))) '
             '(plan (map mk m)), plan_size (map mk m))) cases.')
    return '\n'.join(L) + '\n'


def coq_batches(prefix, items, builder, per_file):
    jobs = [(f'{prefix}_{i // per_file}', builder(items[i:i + per_file])) for i in range(0, len(items), per_file)]
    res = core.coq_eval_files(jobs) if jobs else {}
    out = []
    for name, _ in jobs:
        rc, text = res[name]
        if rc != 0:
            return None, text[-1500:]
        out += core.parse_coq_term(core.parse_coq_values(text)[0])
    return out, ''


def run_dir2(case, layouts, manifests, wd: Path):
    """reference writer -> real unlock + restore.  manifests: per layout the model's refs per file (or None)."""
    rng = _random.Random(case['seed'] + 7)
    cfg = json.loads(json.dumps(case['config']))
    encrypted = 'encryption' in cfg
    w = refcodec.Writer(rng, cfg, PASSWORD if encrypted else None, user_kdf=case['kdf'], mac_length=case['mac_length'], style=case['style'])
    root = '/c14-src'
    paths = [root + '/' + '/'.join(f['parts']) for f in case['files']]
    expect = {}
    problems = []
    for k, lay in enumerate(layouts):
        chunks, pos = [], 0
        for n in lay['clens']:
            chunks.append(lay['stream'][pos:pos + n])
            pos += n
        digests = [w.put_chunk(c) for c in chunks]
        table = list(dict.fromkeys(digests))
        refs_by_file = manifests[k] if manifests is not None else own_refs(lay['ext'], lay['clens'])
        entries = []
        for j, fi in enumerate(lay['files']):
            blob = lay['blobs'][j]
            refs = [list(r) for r in refs_by_file[j]]
            if case['drop_empty_refs']:
                refs = [r for r in refs if r[1] > r[0]]
            if case['shuffle']:
                rng.shuffle(refs)
            sec = rng.randint(10 ** 8, 16 * 10 ** 8)
            st_size = len(blob)
            if case.get('size_skew') and (j == 0 or rng.random() < 0.5):
                st_size = max(0, len(blob) + case['size_skew'])
            if case['legacy']:
                mt = sec + rng.choice([0, 0, 0.5, 0.25, 0.125, 0.875])
                md = {'st_mode': 0o100644, 'st_uid': 0, 'st_gid': 0, 'st_size': st_size,
                      'st_atime': float(sec + 1), 'st_mtime': float(mt) if rng.random() < 0.7 else int(mt), 'st_ctime': float(sec)}
                mtime_ns = int(md['st_mtime'] * 8) * 125_000_000
            else:
                mtime_ns = sec * 10 ** 9 + rng.randint(0, 10 ** 9 - 1)
                md = {'st_mode': 0o100644, 'st_uid': 0, 'st_gid': 0, 'st_size': st_size,
                      'st_atime_ns': mtime_ns + 5, 'st_mtime_ns': mtime_ns, 'st_ctime_ns': mtime_ns + 7}
            entries.append({'path': paths[fi], 'chunks': [{'range': [a, b], 'index': table.index(digests[c - 1]), 'counter': c} for a, b, c in refs],
                            'digest': w.keys.hash(blob), 'metadata': md})
            expect[paths[fi]] = (blob, mtime_ns)       # later (newer) snapshots overwrite
        if case['shuffle']:
            rng.shuffle(entries)
        data = {'utc_timestamp': f'2026-0{k + 1}-01 10:00:00.000000', 'files': entries}
        if case['style'] == 'utf8' or rng.random() < 0.3:
            data['note'] = 'écrit par le writer de référence — 参照'      # raw UTF-8 in the 'utf8' style, \u-escaped otherwise
        elif rng.random() < 0.5:
            data['note'] = 'written by the reference writer'
        w.put_snapshot(table, data)
    backend = MemBackend()
    backend.objects.update(w.objects)
    target = Path(os.path.realpath(wd)) / 'out'
    target.mkdir(parents=True)
    # the target directory may already hold stale copies of the paths (longer, shorter, same length) and a bystander
    bystander = None
    pre = case.get('pre', 'none')
    if pre != 'none':
        prng = _random.Random(case['seed'] + 11)
        for p, (blob, _) in expect.items():
            mode = pre if pre != 'mixed' else prng.choice(['none', 'longer', 'shorter', 'equal'])
            if mode == 'none':
                continue
            t = Path(target, *Path(p).parts[1:])
            t.parent.mkdir(parents=True, exist_ok=True)
            n = len(blob)
            t.write_bytes(b'Z' * (n + 1 + prng.randint(0, 300)) if mode == 'longer' else (b'Y' * max(0, n - 1 - prng.randint(0, 5)) if mode == 'shorter' else b'X' * n))
            os.utime(t, ns=(10 ** 18, 10 ** 18))
        bystander = target / 'c14-src' / 'bystander.bin'
        bystander.parent.mkdir(parents=True, exist_ok=True)
        bystander.write_bytes(b'keep me')

    async def go():
        r = _repo(backend, case['concurrent'])
        await r.unlock(password=PASSWORD if encrypted else None, key=w.key_bytes)
        return await r.restore(path=target)

    with _quiet():
        res = asyncio.run(go())
    if sorted(res.files) != sorted(expect):
        problems.append((f'restore reports {len(res.files)} files, the repository holds {len(expect)}', 'file_set'))
    seen = set()
    for p, (blob, mtime_ns) in expect.items():
        t = Path(target, *Path(p).parts[1:])
        seen.add(str(t))
        if not t.is_file():
            problems.append((f'file not restored ({len(blob)} bytes)', 'missing'))
            continue
        got = t.read_bytes()
        if got != blob:
            problems.append((f'restored content differs from the data the recorded ranges define ({len(got)} vs {len(blob)} bytes'
                             + (f'; metadata st_size skewed by {case["size_skew"]}' if case.get('size_skew') else '')
                             + (f'; target directory pre-filled with {pre} copies' if pre != 'none' else '') + ')', 'content'))
        elif t.stat().st_mtime_ns != mtime_ns:
            problems.append((f'modification time not restored ({"pre-1.3 st_mtime" if case["legacy"] else "st_mtime_ns"}): '
                             f'{t.stat().st_mtime_ns} != {mtime_ns}', 'mtime'))
    if bystander is not None:
        seen.add(str(bystander))
        if not bystander.is_file() or bystander.read_bytes() != b'keep me':
            problems.append(('restore touched a file of the target directory that the repository does not hold', 'bystander'))
    extra = {str(q) for q in target.rglob('*') if q.is_file()} - seen
    if extra:
        problems.append((f'{len(extra)} file(s) created that the repository does not hold', 'extra_file'))
    if set(backend.objects) != set(w.objects) or any(backend.objects[n] != w.objects[n] for n in w.objects):
        problems.append(('restore modified the repository', 'mutated'))
    return problems


# --------------------------------------------------------------------------- locations
HEX = '0123456789abcdef'
JUNK = 'abcdef0123456789-/ABCxyz._'


def gen_loc_cases(rng, n, seeds):
    cases = [[nm, tg] for _, nm, tg, _ in seeds[:n // 3]]
    lens = [0, 1, 2, 3, 4, 5, 6, 8, 16, 32, 40, 56, 64, 96, 128]
    while len(cases) < n:
        r = rng.random()
        if r < 0.7:
            cases.append([''.join(rng.choice(HEX) for _ in range(rng.choice(lens))), ''.join(rng.choice(HEX) for _ in range(rng.choice(lens)))])
        else:
            cases.append([''.join(rng.choice(JUNK) for _ in range(rng.randint(0, 12))), ''.join(rng.choice(JUNK) for _ in range(rng.randint(0, 12)))])
    cases.append(['0123456789abcdef' * 8, 'fedcba9876543210' * 8])
    return cases


def gen_parse_cases(rng, n, seeds):
    out = [loc for _, _, _, loc in seeds[:n // 3]]
    while len(out) < n:
        pre = rng.choice(['data/', 'snapshots/', 'data', 'snapshots', '', 'data/', 'snapshots/', 'Data/', '/data/'])
        out.append(pre + ''.join(rng.choice(JUNK) for _ in range(rng.randint(0, 16))))
    return out


def is_hex(s):
    return all(c in HEX for c in s)


def real_locations(cases, plocs):
    r = _repo(MemBackend(), 1)

    def p(f, x):
        try:
            res = f(x)
            return [res.name, res.tag]
        except (ValueError, IndexError):
            return None
    outs = []
    for n, t in cases:
        c, s = r.get_chunk_location(name=n, tag=t), r.get_snapshot_location(name=n, tag=t)
        outs.append([c, p(r.parse_chunk_location, c), s, p(r.parse_snapshot_location, s)])
    pouts = [[p(r.parse_chunk_location, x), p(r.parse_snapshot_location, x)] for x in plocs]
    return outs, pouts


def model_locations(cases, plocs):
    L = ['From Coq Require Import String List.', 'From Replicat Require Import Lib.PyStr Model.Location.', 'Import ListNotations.',
         'Open Scope string_scope.', 'Definition cases : list (string * string) := [']
    L.append(';\n'.join(f'  ({core.coq_string(n)}, {core.coq_string(t)})' for n, t in cases))
    L.append('].')
    L.append('Eval vm_compute in map (fun c => (get_chunk_location (fst c) (snd c), parse_chunk_location (get_chunk_location (fst c) (snd c)), '
             'get_snapshot_location (fst c) (snd c), parse_snapshot_location (get_snapshot_location (fst c) (snd c)))) cases.')
    L.append('Definition plocs : list string := [' + '; '.join(core.coq_string(x) for x in plocs) + '].')
    L.append('Eval vm_compute in map (fun l => (parse_chunk_location l, parse_snapshot_location l)) plocs.')
    return '\n'.join(L) + '\n'


def _opt(x):
    if x is None:
        return None
    assert isinstance(x, tuple) and x[0] == 'Some', x
    return list(x[1])


def check_locations(rep, ctx, seeds, n, with_model=True):
    cases = gen_loc_cases(ctx.rng, n, seeds)
    plocs = gen_parse_cases(ctx.rng, n, seeds)
    real, preal = real_locations(cases, plocs)
    for (nm, tg), (c, pc, s, ps) in zip(cases, real):
        hexok = is_hex(nm) and is_hex(tg) and nm != ''
        rep.case({'loc': [nm, tg]}, nontrivial=hexok and len(tg) >= 4)
        rep.count('loc_hex' if hexok else 'loc_junk')
        if not hexok:
            continue
        for kind, loc, parsed, need, prefix, shape in (('chunk', c, pc, 4, 'data/', refcodec.CHUNK_RE), ('snapshot', s, ps, 2, 'snapshots/', refcodec.SNAPSHOT_RE)):
            if len(tg) < need:
                continue
            sig = {'kind': 'location', 'which': kind}
            replay = {'dir': 'loc', 'name': nm, 'tag': tg}
            last = loc.rsplit('/', 1)[-1]
            if parsed != [nm, tg]:
                rep.violations.append({'what': f'parse_{kind}_location(get_{kind}_location(name, tag)) = {parsed} for name={nm[:12]} tag={tg[:12]}',
                                       'signature': sig, 'replay': replay})
            elif not loc.startswith(prefix) or shape.match(loc) is None or len(last.encode()) > 255:
                rep.violations.append({'what': f'{kind} location {loc[:50]} does not have the documented shape / prefix / file-name length',
                                       'signature': sig, 'replay': replay})
            elif (kind == 'chunk' and loc != refcodec.chunk_path(nm, tg)) or (kind == 'snapshot' and loc != refcodec.snapshot_path(nm, tg)):
                rep.violations.append({'what': f'{kind} location {loc[:50]} is not the documented function of name and tag',
                                       'signature': sig, 'replay': replay})
    if not with_model:
        return
    per = 150
    jobs = [(f'c14loc_{i}', model_locations(cases[i:i + per], plocs[i:i + per])) for i in range(0, len(cases), per)]
    res = core.coq_eval_files(jobs)
    mout, mpout = [], []
    for name, _ in jobs:
        rc, text = res[name]
        if rc != 0:
            rep.disagreements.append({'what': 'the location model could not be evaluated: ' + text[-800:], 'replay': None})
            return
        vals = core.parse_coq_values(text)
        mout += core.parse_coq_term(vals[0])
        mpout += core.parse_coq_term(vals[1])
    for (nm, tg), r, m in zip(cases, real, mout):
        rep.traces_validated += 1
        mm = [m[0], _opt(m[1]), m[2], _opt(m[3])]
        if mm != r:
            rep.disagreements.append({'what': f'location model {mm} != implementation {r} for name={nm!r} tag={tg!r}',
                                      'replay': {'dir': 'loc', 'name': nm, 'tag': tg}})
    for x, r, m in zip(plocs, preal, mpout):
        rep.traces_validated += 1
        mm = [_opt(m[0]), _opt(m[1])]
        if mm != r:
            rep.disagreements.append({'what': f'parse model {mm} != implementation {r} for location {x!r}', 'replay': {'dir': 'ploc', 'location': x}})


# --------------------------------------------------------------------------- JSON tagging
KEYS = ['a', 'b', 'chunks', 'data', '!b', '!', 'b!', 'k1', 'range']
STRS = ['', 'x', 'aGk=', 'hello world', '!b', 'AQL/', 'A-_B', '{}', 'é']


def gen_value(rng, depth, bang):
    r = rng.random()
    if depth <= 0 or r < 0.35:
        k = rng.random()
        if k < 0.35:
            return rng.randbytes(rng.choice([0, 1, 2, 3, 4, 5, 16, 31]))
        if k < 0.5:
            return rng.randint(-10 ** 6, 10 ** 12)
        if k < 0.7:
            return rng.choice(STRS[:-1])
        if k < 0.8:
            return rng.choice([True, False])
        return None
    if r < 0.6:
        return [gen_value(rng, depth - 1, bang) for _ in range(rng.randint(0, 4))]
    if bang and r < 0.7:
        return {'!b': base64.b64encode(rng.randbytes(rng.randint(0, 7))).decode()}       # looks like a hint
    keys = rng.sample(KEYS, rng.randint(0, 4))
    if keys == ['!b']:
        keys.append('a')
    return {k: gen_value(rng, depth - 1, bang) for k in keys}


def no_bang(v):
    if isinstance(v, list):
        return all(no_bang(x) for x in v)
    if isinstance(v, dict):
        return list(v) != ['!b'] and all(no_bang(x) for x in v.values())
    return True


def coq_value(v):
    if v is None:
        return 'JNull'
    if isinstance(v, bool):
        return f'(JBool {"true" if v else "false"})'
    if isinstance(v, int):
        return f'(JNum ({v})%Z)'
    if isinstance(v, str):
        return f'(JStr {core.coq_string(v)})'
    if isinstance(v, bytes):
        return f'(JBytes {core.coq_bytes(v)})'
    if isinstance(v, list):
        return '(JArr [' + '; '.join(coq_value(x) for x in v) + '])'
    return '(JObj [' + '; '.join(f'({core.coq_string(k)}, {coq_value(x)})' for k, x in v.items()) + '])'


def py_value(t):
    if t == 'JNull':
        return None
    tag = t[0]
    if tag == 'JBool':
        return bool(t[1])
    if tag == 'JNum':
        return t[1]
    if tag == 'JStr':
        return t[1]
    if tag == 'JBytes':
        return bytes(t[1])
    if tag == 'JArr':
        return [py_value(x) for x in t[1]]
    if tag == 'JObj':
        return {k: py_value(x) for k, x in t[1]}
    raise ValueError(t)


def model_json(values):
    L = ['From Coq Require Import String List NArith ZArith.', 'From Replicat Require Import Model.Json Model.Base64.', 'Import ListNotations.',
         'Open Scope string_scope.', 'Definition cases : list (jv (list N) Z) := [']
    L.append(';\n'.join('  ' + coq_value(v) for v in values))
    L.append('].')
    L.append('Eval vm_compute in map (fun v => (hint_tree b64_encode v, reverse_tree b64_decode (hint_tree b64_encode v), no_bang v)) cases.')
    return '\n'.join(L) + '\n'


def check_json(rep, ctx, n, with_model=True):
    from replicat import utils
    r = _repo(MemBackend(), 1)
    values = []
    for i in range(n):
        bang = ctx.rng.random() < 0.3
        v = gen_value(ctx.rng, 3, bang)
        values.append(v)
    values.append({'chunks': [bytes(range(250, 256)) * 3, b'\xfb\xff\xbe'], 'data': {'digest': b'\xff\xfe\xfd', 'n': 1}})
    real = []
    for v in values:
        nb = no_bang(v)
        rep.case({'json': repr(v)}, nontrivial=nb and isinstance(v, (list, dict)) and 'b\'' in repr(v))
        rep.count('json_no_bang' if nb else 'json_with_bang_lookalike')
        text = r.serialize(v)
        back = r.deserialize(text)
        real.append((json.loads(text), back))
        replay = {'dir': 'json', 'value': coq_value(v)}
        if nb and back != v:
            rep.violations.append({'what': f'deserialize(serialize(v)) != v for {repr(v)[:120]}', 'signature': {'kind': 'json_roundtrip'}, 'replay': replay})
        if isinstance(v, bytes):
            h = utils.type_hint(v)
            if h != {'!b': base64.standard_b64encode(v).decode('ascii')} or utils.type_reverse(h) != v:
                rep.violations.append({'what': f'byte string {v.hex()} is not tagged as {{"!b": standard base64}}: {h}',
                                       'signature': {'kind': 'tagging'}, 'replay': replay})
    # stored JSON is RFC 8259 text: UTF-8 bytes with or without \\u escapes, and str, mean the same
    for doc in ({'note': 'é — 参照', 'path': '/srv/名/ü', 'digest': b'\xff\x00\xfe'}, ['д', {'k': 'Ω', 'b': b'\x01'}], {'ascii': 'only'}):
        rep.case({'json_utf8': repr(doc)}, nontrivial=True)
        rep.count('json_utf8_documents')
        for style in ('utf8', 'compact', 'indented'):
            text = refcodec.dumps(doc, style)
            for form, arg in (('bytes', text), ('str', text.decode('utf-8'))):
                try:
                    got = r.deserialize(arg)
                except Exception as e:
                    got = f'{type(e).__name__}: {e}'
                if got != doc:
                    rep.violations.append({'what': f'deserialize of RFC 8259 JSON ({style}, {form}) {text[:60]!r} gives {str(got)[:100]}',
                                           'signature': {'kind': 'json_text_encoding', 'style': style, 'form': form},
                                           'replay': {'dir': 'json', 'value': repr(doc)}})
    if not with_model:
        return
    out, err = coq_batches('c14json', values, model_json, 80)
    if out is None:
        rep.disagreements.append({'what': 'the JSON model could not be evaluated: ' + err, 'replay': None})
        return
    for v, (rtree, rback), m in zip(values, real, out):
        rep.traces_validated += 1
        mtree, mback, mnb = py_value(m[0]), py_value(m[1]), m[2]
        if mtree != rtree or mback != rback or mnb != no_bang(v):
            rep.disagreements.append({'what': f'JSON model (hint {mtree!r}, back {mback!r}) != implementation (hint {rtree!r}, back {rback!r})'[:400],
                                      'replay': {'dir': 'json', 'value': coq_value(v)}})


# --------------------------------------------------------------------------- README vs code: the MAC construction
def readme_probe(rep):
    """The README's primitives table and settings paragraph name the use of blake2b.  A reader that takes
    'HMAC' literally (RFC 2104 over BLAKE2b) derives different names than replicat writes."""
    try:
        text = (core.REPO / 'README.md').read_text()
    except OSError:
        return
    row = re.search(r'^\|\s*`blake2b`\s*\|([^|]*)\|', text, re.M)
    if row is None:
        return
    use = row.group(1)
    rep.count('readme_probe')
    if 'HMAC' not in use:
        return
    from replicat.utils import adapters
    key, msg = bytes(range(64)), b'digest'
    real = adapters.blake2b(length=64).mac(msg, params=key)
    documented = hmac.new(key, msg, hashlib.blake2b).digest()
    if real != documented:
        rep.violations.append({'what': 'README documents blake2b as "HMAC"; names replicat writes are keyed BLAKE2b, HMAC-BLAKE2b(key, digest) '
                                       f'= {documented.hex()[:16]}... but the stored name is {real.hex()[:16]}...',
                               'signature': {'kind': 'readme_mac_construction'}, 'replay': {'dir': 'readme'}})


# --------------------------------------------------------------------------- driver
RULE = ('cases = direction 1: (repository settings incl. cipher / hash / chunk sizes, file tree with sizes around 0, alignment, max, 2*max, '
        'names incl. non-ASCII, optional second snapshot after an edit); direction 2: (config, files, padding 1/4/8, own chunk split, '
        'current or pre-1.3 metadata, JSON style, MAC length, shuffled refs, optional newer snapshot); (name, tag) pairs; JSON value trees. '
        'non-trivial = direction 1/2 with at least 2 chunks or 2 files; hex pair with tag >= 4; tree with bytes inside a container. '
        'distinct = distinct case description')


def _viol(rep, what, kind, case, extra=None):
    sig = {'dir': case['dir'], 'kind': kind}
    rep.violations.append({'what': what, 'signature': sig, 'replay': dict(case, **(extra or {}))})


def do_dir1(rep, ctx, cases, with_model=True):
    seeds, files = [], []
    for i, case in enumerate(cases):
        wd = ctx.scratch / f'c14-d1-{i}'
        wd.mkdir(parents=True, exist_ok=True)
        try:
            problems, obs = run_dir1(case, wd)
        except Exception as e:
            problems, obs = [(f'init / snapshot / restore of its own snapshot raised {type(e).__name__}: {e}', 'exception')], None
            case = dict(case, traceback=traceback.format_exc()[-1200:])
        finally:
            shutil.rmtree(wd, ignore_errors=True)
        for what, kind in problems:
            _viol(rep, 'replicat writes / reference reads: ' + what, kind, case)
        enc = case['settings'].get('encryption', {}) is not None
        rep.count('d1_encrypted' if enc else 'd1_unencrypted')
        rep.count('d1_hash=' + case['settings']['hashing']['name'])
        rep.count('d1_tz=' + ('/'.join(str(z) for z in case['tz']) if case.get('tz') else 'unchanged'))
        rep.count('d1_args=' + case.get('args', 'root'))
        if case.get('schedule'):
            rep.count('d1_forced_producer_worker_schedule')
        if case.get('replace'):
            rep.count('d1_sources_replaced_by_rename_while_open')
        if case.get('fault'):
            rep.count(f'd1_fault={case["fault"]}:{(obs or {}).get("fault_outcome")}')
        if case.get('big'):
            rep.count('d1_file_spanning_read_blocks')
        if enc:
            ci = case['settings']['encryption']['cipher']
            rep.count('d1_cipher=' + ci['name'] + str(ci.get('key_bits', '')))
            if ci['name'] == 'aes_gcm':
                rep.count('d1_nonce_bits=' + str(ci.get('nonce_bits', 'default')))
        if obs is None:
            rep.case(case, nontrivial=False)
            continue
        rep.case(case, nontrivial=obs.get('nchunks', 0) >= 2 or len(case['tree']) >= 2)
        rep.count('d1_chunks', obs.get('nchunks', 0))
        rep.sample({'direction': 1, 'settings': case['settings'], 'files': [f['size'] for f in case['tree']], 'chunk_objects': obs.get('nchunks'),
                    'a_location': obs['locs'][0][3] if obs['locs'] else None}, limit=2)
        seeds += obs['locs']
        for f in obs['files']:
            f['case'] = case
        files += obs['files']
    # Model/Stream works in unary nat: the Coq reader is run on small files only; files spanning read blocks are
    # checked by the independent reader alone
    files = [f for f in files if len(f['want']) <= 5000 and all(b <= 5000 for _, b, _ in f['refs'])]
    if with_model and files:
        out, err = coq_batches('c14plan', files, model_plans, 120)
        if out is None:
            rep.disagreements.append({'what': 'the restore-plan model could not be evaluated: ' + err, 'replay': None})
        else:
            for f, (writes, size) in zip(files, out):
                rep.traces_validated += 1
                want = f['want']
                buf = bytearray(size)
                ok = size == len(want)
                for pos, a, b, c in writes:
                    chunk = f['chunks'][c]
                    if pos + (b - a) > size:
                        ok = False
                        break
                    buf[pos:pos + (b - a)] = chunk[a:b]
                if not ok or bytes(buf) != want:
                    rep.disagreements.append({'what': f'the model reader (plan / plan_size) on the recorded ranges {f["refs"]} does not rebuild the '
                                                      f'file ({size} planned vs {len(want)} bytes)', 'replay': f['case']})
    return seeds


def do_dir2(rep, ctx, cases, with_model=True):
    layouts = [layout2(c) for c in cases]
    manifests = [None] * len(cases)
    if with_model:
        flat = [(c['align'], [e[1] - e[0] for e in lay['ext']], lay['clens']) for c, ls in zip(cases, layouts) for lay in ls]
        out, err = coq_batches('c14man', flat, model_manifests, 60)
        if out is None:
            rep.disagreements.append({'what': 'the manifest model could not be evaluated: ' + err, 'replay': None})
        else:
            k = 0
            for i, (c, ls) in enumerate(zip(cases, layouts)):
                ms = []
                for lay in ls:
                    m = [[list(r) for r in refs] for refs in out[k]]
                    k += 1
                    rep.traces_validated += 1
                    own = own_refs(lay['ext'], lay['clens'])
                    if [[r for r in refs if r[1] > r[0]] for refs in m] != own:
                        rep.disagreements.append({'what': f'model manifest {m} != direct computation {own} of the ranges', 'replay': c})
                    ms.append(m)
                manifests[i] = ms
    for i, case in enumerate(cases):
        wd = ctx.scratch / f'c14-d2-{i}'
        wd.mkdir(parents=True, exist_ok=True)
        try:
            problems = run_dir2(case, layouts[i], manifests[i], wd)
        except Exception as e:
            problems = [(f'unlock/restore raised {type(e).__name__}: {e}', 'exception')]
            case = dict(case, traceback=traceback.format_exc()[-1200:])
        finally:
            shutil.rmtree(wd, ignore_errors=True)
        for what, kind in problems:
            _viol(rep, 'reference writes / replicat restores: ' + what, kind, case, {'metadata': 'legacy' if case['legacy'] else 'current'})
        nch = sum(len(l['clens']) for l in layouts[i])
        rep.case(case, nontrivial=nch >= 2 or len(case['files']) >= 2)
        rep.count('d2_encrypted' if 'encryption' in case['config'] else 'd2_unencrypted')
        if 'encryption' in case['config']:
            ci = case['config']['encryption']['cipher']
            rep.count('d2_cipher=' + ci['name'] + str(ci.get('key_bits', '')))
            if ci['name'] == 'aes_gcm':
                rep.count('d2_nonce_bits=' + str(ci.get('nonce_bits', 'default')))
        rep.count('d2_legacy_metadata' if case['legacy'] else 'd2_current_metadata')
        rep.count('d2_split=' + case['split'])
        rep.count('d2_json=' + case['style'])
        rep.count('d2_snapshots=%d' % len(layouts[i]))
        rep.count('d2_target_prefilled=' + case.get('pre', 'none'))
        for edits in case.get('later') or []:
            for e in edits:
                rep.count('d2_newer_version=' + e['kind'])
        rep.count('d2_st_size_skew=%d' % case.get('size_skew', 0))
        rep.count('d2_align=%d' % case['align'])
        rep.sample({'direction': 2, 'config': case['config'], 'files': [f['size'] for f in case['files']], 'chunk_lengths': layouts[i][0]['clens'][:12],
                    'metadata': 'pre-1.3' if case['legacy'] else 'current', 'ranges_written_by': 'Coq model' if manifests[i] else 'direct'}, limit=4)


def corpus_cases():
    return [json.loads(p.read_text()) for p in sorted((core.ROOT / 'corpus' / 'C14').glob('*.json'))]


def run(ctx) -> Report:
    rep = Report(rule=RULE)
    corpus = corpus_cases()
    c1 = [c for c in corpus if c.get('dir') == 1] + [gen_big_case1(ctx.rng) for _ in range(ctx.scale(1, 4))] \
        + [gen_sched_case1(ctx.rng) for _ in range(ctx.scale(8, 60))] \
        + [gen_case1(ctx.rng) for _ in range(ctx.scale(80, 2500))]
    c2 = [c for c in corpus if c.get('dir') == 2] + [gen_case2(ctx.rng) for _ in range(ctx.scale(110, 3000))]
    seeds = do_dir1(rep, ctx, c1)
    do_dir2(rep, ctx, c2)
    check_locations(rep, ctx, seeds, ctx.scale(450, 6000))
    check_json(rep, ctx, ctx.scale(240, 5000))
    readme_probe(rep)
    return rep


def search(ctx, broken) -> Report:
    rep = Report(rule=RULE)
    seeds1 = [b['case'] for b in broken if isinstance(b.get('case'), dict) and b['case'].get('dir') == 1]
    seeds2 = [b['case'] for b in broken if isinstance(b.get('case'), dict) and b['case'].get('dir') == 2]
    s = do_dir1(rep, ctx, seeds1 + [gen_big_case1(ctx.rng)] + [gen_sched_case1(ctx.rng) for _ in range(20)] + [gen_case1(ctx.rng) for _ in range(250)], with_model=False)
    do_dir2(rep, ctx, seeds2 + [gen_case2(ctx.rng) for _ in range(300)], with_model=False)
    check_locations(rep, ctx, s, 2000, with_model=False)
    check_json(rep, ctx, 1500, with_model=False)
    return rep


def replay(ctx, obj):
    rep = Report(rule=RULE)
    case = obj.get('replay') or {}
    d = case.get('dir')
    if d == 1:
        do_dir1(rep, ctx, [case])
    elif d == 2:
        do_dir2(rep, ctx, [case])
    elif d == 'loc':
        r = _repo(MemBackend(), 1)
        for kind in ('chunk', 'snapshot'):
            loc = getattr(r, f'get_{kind}_location')(name=case['name'], tag=case['tag'])
            try:
                back = tuple(getattr(r, f'parse_{kind}_location')(loc))
            except (ValueError, IndexError) as e:
                back = repr(e)
            print(kind, 'location', loc, '-> parsed', back, '| documented', getattr(refcodec, f'{kind}_path')(case['name'], case['tag']))
        check_locations(rep, ctx, [['x', case['name'], case['tag'], '']] * 3, 3)
    elif d == 'ploc':
        r = _repo(MemBackend(), 1)
        for kind in ('chunk', 'snapshot'):
            try:
                print(kind, tuple(getattr(r, f'parse_{kind}_location')(case['location'])))
            except (ValueError, IndexError) as e:
                print(kind, 'raises', repr(e))
        return 0
    elif d == 'json':
        print('value (Gallina):', case.get('value'))
        check_json(rep, ctx, 0)
    elif d == 'readme':
        readme_probe(rep)
    else:
        print('replay file does not carry a C14 case:', obj.get('kind'))
        return 0
    for v in rep.violations:
        print('VIOLATION-REPRODUCED', v['what'])
    for x in rep.disagreements:
        print('DISAGREEMENT-REPRODUCED', x['what'])
    return 1 if rep.violations or rep.disagreements else 0
