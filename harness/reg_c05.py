from harness.registry import COMMON_TB

ENTRY = {
    'level': 'proof',
    'technique': ('Coq proof of a symbolic (Dolev-Yao) secrecy statement over the terms emitted by init/add-key/snapshot/delete/clean + '
                  'term structure translated from _encrypt_snapshot_body/_decrypt_snapshot_body/name derivations/_chunk_producer/encrypt + '
                  'lifting of every written byte by an independent reader and comparison with the model + taint scan'),
    'design_ref': 'DESIGN.md section 4 C05, section 3.3; design/C05.md',
    'text': ('PROVED (symbolic statement only): C05_no_leak - for all file trees, paths, metadata, notes, digests (arbitrary terms), for every choice '
             'of secret atoms under which shared key, MAC key and passwords are secret and config/KDF settings/user salt carry no secret, no name '
             'or object sent to the backend, no key file and nothing printed by init, add-key, snapshot, delete, clean exposes a secret (a secret '
             'occurs only inside Enc bodies / Mac messages under keys the observer cannot compute, or in key positions); C05_name_shapes - chunk '
             'names are Mac and Mac-of-Mac of the digest, the snapshot name is the hash of ciphertext; C05_nonces_distinct and '
             'C05_nonce_determines_ciphertext - every encryption takes its own element of the nonce supply and every emitted ciphertext is one of '
             'them. The model terms equal the terms translated from the source (C05_*_tie by reflexivity). NOT PROVED and not provable by this '
             'technique: indistinguishability of ciphertexts, unpredictability/uniqueness of os.urandom output, what lengths, object counts, '
             'timing and access patterns reveal. Explored: every written byte of real histories in 4 (quick) / 36 (thorough) cipher x hash '
             'configurations (run with the cache disabled / private / shared with an unencrypted or differently encrypted sibling repository, a third '
             'of them with debug logging enabled) lifted to terms = the model\'s items; secrecy predicate evaluated on the lifted terms; concrete nonces pairwise '
             'distinct; taint scan for every known secret in raw/hex/base64 forms.'),
    'note': ('Claimed as proof of the symbolic statement; the cryptographic content of the property (IND-CPA style secrecy, randomness of nonces) '
             'is an assumption about AES-GCM/ChaCha20-Poly1305/BLAKE2/scrypt and os.urandom, named here and in the evidence notes. "Hash hides '
             'nothing" is used conservatively (a digest of a secret atom counts as exposing it).'),
    'trusted_base': COMMON_TB + ['independent repository reader /verif/harness/refreader.py (lifts bytes to terms; hashlib + cryptography only)',
                                 'in-memory Backend /verif/harness/membackend.py (records every call)'],
    'assumptions': ['AEAD, MAC, KDF are ideal (free term constructors; keys cannot be computed from ciphertexts/MACs/derived keys)',
                    'os.urandom never repeats a 96-bit nonce under one key (nonce supply = fresh elements)',
                    'serialisation (JSON, base64, hex) is injective and adds nothing'],
}
