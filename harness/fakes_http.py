"""Fake S3 (ListObjectsV2/PUT/GET/HEAD/DELETE, XML) and fake B2 (authorize, list_buckets, get_upload_url,
upload, hide_file, list_file_names, download by name) as httpx.MockTransport handlers, with fault plans and
virtual back-off sleeps.  Shared by C12 and C13 (DESIGN.md C12/C13).  The services' semantics are my reading of
their public documentation and are part of the trusted base.

Fault plan = list of rules {'op': <operation kind>, 'kind': <fault kind>, 'count': n, 'after': k}:
the first `count` requests of that operation kind are answered by the fault.
  kinds: '500', '503', '429' (with retry-after), '401', '403'  -> status answered, request has no effect
         '500_after'   -> the request takes effect, then the answer is lost (500)
         'drop'        -> transport error before anything is read/sent (ConnectError)
         'drop_body'   -> transport error after `after` chunks of the request body (upload) or of the
                          response body (download) have passed
         'expire'      -> (B2) the account token is invalidated first, so the request is answered 401 until
                          the client re-authorises
         'expire_upload_tokens' -> (B2, op upload) every upload URL / token pair issued so far expires (they live
                          24 h at the real service): uploads to them are answered 401 until a new pair is requested
         'sick_pod'    -> (B2, op upload) the pod behind the upload URL of this request answers 503 from now on;
                          a pair from a fresh b2_get_upload_url works
"""
from __future__ import annotations

import asyncio
import base64
import contextlib
import hashlib
import json
import time
from urllib.parse import parse_qs, unquote, unquote_plus
from xml.sax.saxutils import escape

import httpx


class RequestCapExceeded(Exception):
    """Raised by a fake when the hard cap on requests is hit: the client is retrying without bound."""


# --------------------------------------------------------------------------- virtual sleep
class VirtualClock:
    """Seconds of virtual time: advanced by the virtual sleeps and by slow transfers in the fakes."""

    def __init__(self):
        self.t = 0.0

    def advance(self, seconds):
        if seconds and seconds > 0:
            self.t += float(seconds)


CLOCK = VirtualClock()


class VirtualSleep:
    """Makes backoff's sleeps virtual: asyncio.sleep / time.sleep return at once, are recorded and advance the virtual
    clock; the clock backoff itself reads for max_time / elapsed (datetime.datetime.now() in backoff._sync / _async)
    is the virtual one, so time spent in a slow transfer counts exactly as it would in reality."""

    def __init__(self):
        self.slept = []

    def __enter__(self):
        import datetime as _dt
        import types
        import backoff._async
        import backoff._sync
        self._asleep, self._tsleep = asyncio.sleep, time.sleep
        real = self._asleep
        CLOCK.t = 0.0
        base = _dt.datetime(2026, 1, 1)

        class _VirtualDatetime(_dt.datetime):
            @classmethod
            def now(cls, tz=None):
                return base + _dt.timedelta(seconds=CLOCK.t)

        shim = types.SimpleNamespace(datetime=_VirtualDatetime, timedelta=_dt.timedelta)
        self._saved = (backoff._async.datetime, backoff._sync.datetime)
        backoff._async.datetime = backoff._sync.datetime = shim

        async def vsleep(delay, result=None):
            if delay and delay > 0:
                self.slept.append(float(delay))
                CLOCK.advance(delay)
            await real(0)
            return result

        def tsleep(delay):
            if delay and delay > 0:
                self.slept.append(float(delay))
                CLOCK.advance(delay)

        asyncio.sleep, time.sleep = vsleep, tsleep
        return self

    def __exit__(self, *exc):
        import backoff._async
        import backoff._sync
        asyncio.sleep, time.sleep = self._asleep, self._tsleep
        backoff._async.datetime, backoff._sync.datetime = self._saved


@contextlib.contextmanager
def patched_async_client(handler):
    """While active, httpx.AsyncClient(...) as called by the backend constructors gets a MockTransport;
    every other argument (timeout, the module's own response hooks) is kept."""
    real = httpx.AsyncClient

    def factory(*a, **ka):
        ka.pop('transport', None)
        return real(*a, transport=httpx.MockTransport(handler), **ka)

    httpx.AsyncClient = factory
    try:
        yield
    finally:
        httpx.AsyncClient = real


# --------------------------------------------------------------------------- fault plans
STATUS_KINDS = {'500': 500, '503': 503, '429': 429, '401': 401, '403': 403, '400': 400, '408': 408}


# the transport-level exceptions httpx really raises (all httpx.TransportError, hence httpx.HTTPError)
TRANSPORT_ERRORS = ('ConnectError', 'ConnectTimeout', 'ReadError', 'ReadTimeout', 'WriteError', 'WriteTimeout', 'PoolTimeout',
                    'CloseError', 'RemoteProtocolError', 'LocalProtocolError', 'ProxyError')


def transport_error(rule, default, message):
    """The exception a dropped connection surfaces as: rule['exc'] names the httpx class (default given)."""
    name = (rule or {}).get('exc') or default
    assert name in TRANSPORT_ERRORS, name
    return getattr(httpx, name)('fake: ' + message)


class FaultPlan:
    def __init__(self, rules=()):
        self.rules = [dict(r) for r in rules]
        self.fired = []

    def take(self, op, name=None):
        """op '*' in a rule = any request except the account authorisation; 'skip': n lets the first n matching requests pass"""
        for r in self.rules:
            if r.get('count', 0) > 0 and (r['op'] == op or (r['op'] == '*' and op != 'authorize')) and r.get('name', name) == name:
                if r.get('skip', 0) > 0:
                    r['skip'] -= 1
                    continue
                r['count'] -= 1
                self.fired.append((op, r['kind']))
                return r
        return None


class _Body(httpx.AsyncByteStream):
    """Response body sent in pieces; optionally the connection drops after k pieces."""

    def __init__(self, data, piece, drop_after=None, rule=None, seconds_per_piece=0):
        self.data, self.piece, self.drop_after, self.rule = data, max(1, piece), drop_after, rule
        self.seconds_per_piece = seconds_per_piece

    async def __aiter__(self):
        n = 0
        for i in range(0, len(self.data), self.piece):
            if self.drop_after is not None and n >= self.drop_after:
                raise transport_error(self.rule, 'ReadError', 'connection dropped in mid-download')
            CLOCK.advance(self.seconds_per_piece)
            yield self.data[i:i + self.piece]
            n += 1
        if self.drop_after is not None and n <= self.drop_after:
            raise transport_error(self.rule, 'ReadError', 'connection dropped at the end of the download')


class _FakeBase:
    def __init__(self, *, page_size=1000, piece=64, max_requests=400):
        self.page_size = page_size
        self.piece = piece
        self.max_requests = max_requests
        self.plan = FaultPlan()
        self.log = []            # (op, name or None, status or fault kind)
        self.nrequests = 0
        self.seconds_per_piece = 0       # virtual seconds every body piece takes (a slow link)

    def count(self, op):
        return sum(1 for o, _, _ in self.log if o == op)

    def _tick(self):
        self.nrequests += 1
        if self.nrequests > self.max_requests:
            raise RequestCapExceeded(f'more than {self.max_requests} requests')

    async def _read_body(self, request, fault):
        """Read the request body chunk by chunk; drop the connection after k chunks if asked to."""
        chunks, n = [], 0
        drop_after = fault.get('after', 0) if fault and fault['kind'] == 'drop_body' else None
        async for chunk in request.stream:
            if drop_after is not None and n >= drop_after:
                raise transport_error(fault, 'WriteError', 'connection dropped in mid-upload')
            if chunk:
                chunks.append(bytes(chunk))
                n += 1
                CLOCK.advance(self.seconds_per_piece)
        if drop_after is not None:
            raise transport_error(fault, 'WriteError', 'connection dropped at the end of the upload')
        return b''.join(chunks)


def _utf8(s):
    return s.encode('utf-8', 'surrogatepass')


# --------------------------------------------------------------------------- S3
class FakeS3(_FakeBase):
    """Path-style S3: /<bucket>/<key>.  Keys listed in UTF-8 binary order."""

    def __init__(self, bucket, **ka):
        super().__init__(**ka)
        self.bucket = bucket
        self.objects = {}

    def _error(self, status, code, extra_headers=None):
        body = f'<?xml version="1.0" encoding="UTF-8"?><Error><Code>{code}</Code><Message>fake</Message></Error>'.encode()
        return httpx.Response(status, content=body, headers=dict({'content-type': 'application/xml'}, **(extra_headers or {})))

    def _fault_response(self, kind):
        status = STATUS_KINDS[kind.split('_')[0]]
        headers = {'retry-after': '3'} if status == 429 else None
        return self._error(status, {500: 'InternalError', 503: 'SlowDown', 429: 'TooManyRequests', 401: 'ExpiredToken',
                                    403: 'AccessDenied', 400: 'BadRequest', 408: 'RequestTimeout'}[status], headers)

    async def handler(self, request: httpx.Request):
        self._tick()
        raw = request.url.raw_path
        rawpath, _, rawquery = raw.partition(b'?')
        path = unquote(rawpath.decode('ascii'))
        assert path.startswith('/' + self.bucket), path
        key = path[len(self.bucket) + 2:]
        method = request.method
        query = parse_qs(rawquery.decode('ascii'), keep_blank_values=True)
        if method == 'GET' and path == '/' + self.bucket:
            op = 'LIST'
        else:
            op = method
        fault = self.plan.take(op)
        kind = fault['kind'] if fault else None
        if kind == 'drop':
            self.log.append((op, key, 'drop'))
            raise transport_error(fault, 'ConnectError', 'connection refused')
        if kind in STATUS_KINDS:
            if op == 'PUT':
                await self._read_body(request, None)
            self.log.append((op, key, kind))
            return self._fault_response(kind)
        after = kind is not None and kind.endswith('_after')
        if op == 'LIST':
            resp = self._list(query)
        elif op == 'HEAD':
            if key in self.objects:
                resp = httpx.Response(200, headers={'content-length': str(len(self.objects[key]))})
            else:
                resp = httpx.Response(404)
        elif op == 'GET':
            if key in self.objects:
                data = self.objects[key]
                drop = fault.get('after', 0) if kind == 'drop_body' else None
                resp = httpx.Response(200, headers={'content-length': str(len(data))}, stream=_Body(data, self.piece, drop, fault, self.seconds_per_piece))
            else:
                resp = self._error(404, 'NoSuchKey')
        elif op == 'PUT':
            try:
                body = await self._read_body(request, fault)
            except httpx.TransportError:
                self.log.append((op, key, 'drop_body'))
                raise
            declared = request.headers.get('content-length')
            if declared is None or int(declared) != len(body):
                resp = self._error(400, 'IncompleteBody')
            elif request.headers.get('x-amz-content-sha256') != hashlib.sha256(body).hexdigest():
                resp = self._error(400, 'XAmzContentSHA256Mismatch')
            else:
                self.objects[key] = body
                resp = httpx.Response(200)
        elif op == 'DELETE':
            self.objects.pop(key, None)
            resp = httpx.Response(204)
        else:
            resp = self._error(405, 'MethodNotAllowed')
        if kind == 'drop_after':
            self.log.append((op, key, kind))
            raise transport_error(fault, 'RemoteProtocolError', 'server closed the connection without an answer')
        if after:
            self.log.append((op, key, kind))
            return self._fault_response('500')
        self.log.append((op, key, kind or resp.status_code))
        return resp

    def _list(self, query):
        prefix = query.get('prefix', [''])[0]
        token = query.get('continuation-token', [None])[0]
        max_keys = min(int(query.get('max-keys', ['1000'])[0]), self.page_size)
        keys = sorted((k for k in self.objects if k.startswith(prefix)), key=_utf8)
        if token is not None:
            last = base64.b64decode(token).decode('utf-8', 'surrogatepass')
            keys = [k for k in keys if _utf8(k) > _utf8(last)]
        page, rest = keys[:max_keys], keys[max_keys:]
        parts = ['<?xml version="1.0" encoding="UTF-8"?>',
                 '<ListBucketResult xmlns="http://s3.amazonaws.com/doc/2006-03-01/">',
                 f'<Name>{escape(self.bucket)}</Name><Prefix>{escape(prefix)}</Prefix>',
                 f'<KeyCount>{len(page)}</KeyCount><MaxKeys>{max_keys}</MaxKeys>',
                 f'<IsTruncated>{"true" if rest else "false"}</IsTruncated>']
        for k in page:
            parts.append(f'<Contents><Key>{escape(k)}</Key><Size>{len(self.objects[k])}</Size>'
                         '<StorageClass>STANDARD</StorageClass></Contents>')
        if rest:
            parts.append(f'<NextContinuationToken>{base64.b64encode(_utf8(page[-1])).decode()}</NextContinuationToken>')
        parts.append('</ListBucketResult>')
        return httpx.Response(200, content=''.join(parts).encode('utf-8', 'surrogatepass'),
                              headers={'content-type': 'application/xml'})


# --------------------------------------------------------------------------- B2
class FakeB2(_FakeBase):
    API = 'https://api.fake-b2.test'
    DL = 'https://dl.fake-b2.test'
    POD = 'https://pod.fake-b2.test'

    def __init__(self, bucket_name, *, synthetic_next=False, restricted=False, authorize_delay=0, **ka):
        super().__init__(**ka)
        self.bucket_name = bucket_name
        self.restricted = restricted              # the application key is restricted to this bucket (allowed.bucketId / bucketName set)
        self.authorize_delay = authorize_delay    # event-loop turns b2_authorize_account takes to answer
        self.bucket_id = 'bkt-' + hashlib.sha1(bucket_name.encode()).hexdigest()[:10]
        self.versions = {}            # name -> list of ('upload', bytes) | ('hide',), newest last
        self.tokens = set()
        self.upload_pairs = {}        # upload URL path -> its authorisation token (every b2_get_upload_url issues a new pair)
        self.expired_upload_tokens = set()
        self.sick_upload_urls = set()
        self.ntok = 0
        self.synthetic_next = synthetic_next

    # abstraction: the visible name -> bytes map
    @property
    def objects(self):
        return {k: v[-1][1] for k, v in self.versions.items() if v and v[-1][0] == 'upload'}

    def expire_upload_tokens(self):
        self.expired_upload_tokens.update(self.upload_pairs.values())

    def make_upload_pods_sick(self):
        self.sick_upload_urls.update(self.upload_pairs)

    def _json(self, status, obj, headers=None):
        return httpx.Response(status, content=json.dumps(obj).encode(), headers=dict({'content-type': 'application/json'}, **(headers or {})))

    def _error(self, status, code, headers=None):
        return self._json(status, {'status': status, 'code': code, 'message': 'fake'}, headers)

    def _fault_response(self, kind):
        status = STATUS_KINDS[kind.split('_')[0]]
        code = {500: 'internal_error', 503: 'service_unavailable', 429: 'too_many_requests', 401: 'expired_auth_token',
                403: 'access_denied', 400: 'bad_request', 408: 'request_timeout'}[status]
        return self._error(status, code, {'retry-after': '3'} if status == 429 else None)

    def _op_of(self, request):
        url = request.url
        host, path = url.host, url.path
        if host == 'api.backblazeb2.com' and path.endswith('/b2_authorize_account'):
            return 'authorize'
        for name in ('b2_list_buckets', 'b2_get_upload_url', 'b2_hide_file', 'b2_list_file_names'):
            if path.endswith('/' + name):
                return name[3:]
        if '/b2_upload_file/' in path:
            return 'upload'
        if path.startswith('/file/'):
            return 'head' if request.method == 'HEAD' else 'download'
        return 'unknown'

    async def handler(self, request: httpx.Request):
        self._tick()
        op = self._op_of(request)
        fault = self.plan.take(op)
        kind = fault['kind'] if fault else None
        name = None
        if kind == 'expire':
            self.tokens.clear()
            kind = None
        if kind == 'expire_upload_tokens':
            self.expire_upload_tokens()
            kind = None
        if kind == 'sick_pod':
            self.sick_upload_urls.add(request.url.path)
            kind = None
        if kind == 'drop':
            self.log.append((op, None, 'drop'))
            raise transport_error(fault, 'ConnectError', 'connection refused')
        if kind in STATUS_KINDS:
            if request.method == 'POST':
                await self._read_body(request, None)
            self.log.append((op, None, kind))
            return self._fault_response(kind)
        after = kind is not None and kind.endswith('_after')
        auth = request.headers.get('authorization')
        if op == 'authorize':
            for _ in range(self.authorize_delay):
                await asyncio.sleep(0)
            self.ntok += 1
            tok = f'acct-token-{self.ntok}'
            self.tokens = {tok}        # a new authorisation supersedes the previous one
            resp = self._json(200, {'accountId': 'acct', 'authorizationToken': tok, 'apiUrl': self.API, 'downloadUrl': self.DL,
                                    'allowed': {'bucketId': self.bucket_id if self.restricted else None,
                                                'bucketName': self.bucket_name if self.restricted else None,
                                                'capabilities': ['all'], 'namePrefix': None}})
        elif op == 'upload':
            try:
                body = await self._read_body(request, fault)
            except httpx.TransportError:
                self.log.append((op, None, 'drop_body'))
                raise
            name = unquote_plus(request.headers.get('x-bz-file-name', ''))
            declared = request.headers.get('content-length')
            if request.url.path in self.sick_upload_urls:
                resp = self._error(503, 'service_unavailable')
            elif self.upload_pairs.get(request.url.path) != auth:
                resp = self._error(401, 'bad_auth_token')
            elif auth in self.expired_upload_tokens:
                resp = self._error(401, 'expired_auth_token')
            elif declared is None or int(declared) != len(body):
                resp = self._error(400, 'bad_request')
            else:
                self.versions.setdefault(name, []).append(('upload', body))
                resp = self._json(200, {'fileId': f'id{self.nrequests}', 'fileName': name, 'contentLength': len(body)})
        elif op in ('head', 'download'):
            rawpath = request.url.raw_path.partition(b'?')[0].decode('ascii')
            path = unquote_plus(rawpath)
            want = f'/file/{self.bucket_name}/'
            name = path[len(want):] if path.startswith(want) else None
            objs = self.objects
            if auth not in self.tokens:
                resp = self._error(401, 'expired_auth_token')
            elif name is None or name not in objs:
                resp = self._error(404, 'not_found')
            elif op == 'head':
                resp = httpx.Response(200, headers={'content-length': str(len(objs[name]))})
            else:
                data = objs[name]
                drop = fault.get('after', 0) if kind == 'drop_body' else None
                resp = httpx.Response(200, headers={'content-length': str(len(data))}, stream=_Body(data, self.piece, drop, fault, self.seconds_per_piece))
        else:
            body = json.loads((await self._read_body(request, None)) or b'{}')
            if auth not in self.tokens:
                resp = self._error(401, 'expired_auth_token')
            elif op != 'list_buckets' and body.get('bucketId') != self.bucket_id:
                resp = self._error(400, 'bad_bucket_id')
            elif op == 'list_buckets':
                resp = self._json(200, {'buckets': [{'bucketId': 'bkt-other', 'bucketName': 'some-other-bucket'},
                                                    {'bucketId': self.bucket_id, 'bucketName': self.bucket_name}]})
            elif op == 'get_upload_url':
                self.npairs = getattr(self, 'npairs', 0) + 1
                tok = f'upload-token-{self.npairs}'
                path = f'/b2api/v2/b2_upload_file/{self.bucket_id}/c{self.npairs:04d}'
                self.upload_pairs[path] = tok
                resp = self._json(200, {'bucketId': self.bucket_id, 'uploadUrl': self.POD + path, 'authorizationToken': tok})
            elif op == 'hide_file':
                name = body['fileName']
                vs = self.versions.get(name)
                if not vs:
                    resp = self._error(400, 'no_such_file')
                elif vs[-1][0] == 'hide':
                    resp = self._error(400, 'already_hidden')
                else:
                    vs.append(('hide',))
                    resp = self._json(200, {'fileName': name, 'action': 'hide'})
            elif op == 'list_file_names':
                resp = self._list(body)
            else:
                resp = self._error(400, 'bad_request')
        if kind == 'drop_after':
            self.log.append((op, name, kind))
            raise transport_error(fault, 'RemoteProtocolError', 'server closed the connection without an answer')
        if after:
            self.log.append((op, name, kind))
            return self._fault_response('500')
        self.log.append((op, name, kind or resp.status_code))
        return resp

    def _list(self, body):
        prefix = body.get('prefix') or ''
        start = body.get('startFileName')
        n = min(int(body.get('maxFileCount', 100)), self.page_size)
        names = sorted((k for k in self.objects if k.startswith(prefix)), key=_utf8)
        if start is not None:
            names = [k for k in names if _utf8(k) >= _utf8(start)]
        page, rest = names[:n], names[n:]
        nxt = None
        if rest:
            # any name in (last returned, next unreturned] is a valid continuation point
            nxt = page[-1] + ' ' if (self.synthetic_next and page) else rest[0]
        objs = self.objects
        return self._json(200, {'files': [{'fileName': k, 'action': 'upload', 'contentLength': len(objs[k])} for k in page],
                                'nextFileName': nxt})
