"""C06 - access rights follow key relationships."""
from harness import cli_hist, core, repo_hist
from harness.core import Report

RULE = ('cases = histories over key graphs built by init/add-key (shared, clone, independent; encrypted only), with per-user observations: '
        'list-snapshots rows (visible iff same key family; details iff same user key), list-files, restore of other users\' snapshots (must write '
        'nothing), delete naming other users\' snapshots (must be refused and change nothing), clean/delete confinement to the family, and at the '
        'end the full unlock matrix key x password plus mangled passwords; lifted state compared with Model/Repo.exec; non-trivial = >= 3 commands of >= 2 kinds')
WEIGHTS = {'snapshot': 4, 'repeat': 1, 'delete': 2, 'delete_foreign': 4, 'clean': 3, 'observe': 4, 'orphans': 1.5}
CHECKS = {'access', 'frame', 'restore'}
MINE = ('visibility', 'details', 'file_list_foreign', 'restore_foreign', 'restore_foreign_crash', 'delete_foreign_succeeded', 'delete_foreign_crash', 'refused_delete_mutated', 'unlock', 'unlock_trailing_nul', 'unlock_crash', 'gc_overreach', 'referenced_chunk_missing', 'restore_mismatch', 'exception')


CLI_MINE = ('snapshot_not_listed', 'exception', 'hang', 'snapshot_unreadable', 'snapshot_objects', 'snapshot_name', 'visibility', 'details', 'file_list_foreign', 'restore_foreign', 'restore_foreign_crash', 'delete_foreign_succeeded', 'refused_delete_mutated', 'shared_secrets_differ', 'independent_secrets_equal', 'key_unusable', 'gc_overreach')


def _run(ctx, n, nops, rep, concurrent=None):
    seeds = [ctx.rng.randint(0, 2 ** 31) for _ in range(n)]
    repo_hist.run_batch(seeds, ctx.scratch, rep, nops=nops, weights=WEIGHTS, checks=CHECKS,
                        concurrent=concurrent or ctx.rng.choice([1, 2, 4]), delay=0.001, encrypted=True)
    rep.violations[:] = [v for v in rep.violations if v['signature']['kind'] in MINE]
    # the same property through the tool as a user runs it: fresh `python -m replicat` processes, a repository on disk, real faults
    cli_hist.run_scenarios(ctx, rep, {'plain': ctx.scale(6, 60)}, CLI_MINE, encrypted=True)
    cli_hist.termination_probe(ctx, rep, {'delete'})


def run(ctx) -> Report:
    rep = Report(rule=RULE)
    _run(ctx, ctx.scale(40, 600), ctx.scale(10, 18), rep)
    return rep


def search(ctx, broken) -> Report:
    rep = Report(rule=RULE)
    _run(ctx, ctx.scale(120, 1500), 16, rep)
    rep.disagreements.clear()
    return rep


def replay(ctx, obj):
    rc = cli_hist.replay_cli(ctx, obj, CLI_MINE)
    if rc is not None:
        return rc
    rep = Report(rule=RULE)
    seed = (obj.get('replay') or {}).get('seed')
    if seed is None:
        print('no seed in replay file'); return 0
    repo_hist.run_batch([seed], ctx.scratch, rep, nops=18, weights=WEIGHTS, checks=CHECKS, concurrent=2, delay=0.001, encrypted=True)
    for v in rep.violations:
        print('VIOLATION-REPRODUCED', v['what'])
    for d in rep.disagreements:
        print('DISAGREEMENT-REPRODUCED', d['what'])
    return 1 if rep.violations or rep.disagreements else 0
