"""C06 - access rights follow key relationships."""
from harness import cli_hist, core, repo_hist
from harness.core import Report

RULE = ('cases = histories over key graphs built by init/add-key (shared, clone, independent; encrypted only), with per-user observations: '
        'list-snapshots rows (visible iff same key family; details iff same user key), list-files, restore of other users\' snapshots (must write '
        'nothing), delete naming other users\' snapshots (must be refused and change nothing), clean/delete confinement to the family, and at the '
        'end the full unlock matrix key x password plus mangled passwords; lifted state compared with Model/Repo.exec; non-trivial = >= 3 commands of >= 2 kinds')
WEIGHTS = {'snapshot': 4, 'repeat': 1, 'delete': 2, 'delete_foreign': 4, 'clean': 3, 'observe': 4, 'orphans': 1.5}
CHECKS = {'access', 'frame', 'restore'}
MINE = ('visibility', 'details', 'file_list_foreign', 'restore_foreign', 'restore_foreign_crash', 'delete_foreign_succeeded', 'delete_foreign_crash', 'refused_delete_mutated', 'unlock', 'unlock_trailing_nul', 'unlock_crash', 'gc_overreach', 'referenced_chunk_missing', 'restore_mismatch', 'exception')


def foreign_garbage_probe(ctx, rep):
    """clean by the holder of an INDEPENDENT key who has garbage of his own, next to another user's chunks, at concurrency 4, with
    the jobs of every thread pool completing in an order unrelated to their submission order (JitterPool): his garbage goes, the
    other user's chunks and snapshots stay - whatever is done in parallel inside clean."""
    import asyncio, contextlib, io, random as _random, shutil as _sh
    from pathlib import Path
    import replicat.repository as R
    from replicat.repository import Repository
    from harness.memstore import MemBackend
    from harness.repo_hist import JitterPool, KDF
    for trial in range(3):
        wd = Path(ctx.scratch) / f'foreign-garbage-{trial}'
        (wd / 'a').mkdir(parents=True)
        (wd / 'a' / 'f').write_bytes(ctx.rng.randbytes(64 * 10))
        be = MemBackend()
        out = {}

        async def go():
            ra = Repository(be, concurrent=4, quiet=True, cache_directory=None)
            init = await ra.init(password=b'pa', settings={'chunking': {'min_length': 64, 'max_length': 64}, 'hashing': {'name': 'blake2b', 'length': 16},
                                                           'encryption': {'kdf': dict(KDF)}})
            rb0 = Repository(be, concurrent=4, quiet=True, cache_directory=None)
            kb = (await rb0.add_key(password=b'pb', settings={'encryption': {'kdf': dict(KDF)}}, shared=False)).new_key
            ra2 = Repository(be, concurrent=4, quiet=True, cache_directory=None)
            await ra2.unlock(password=b'pa', key=init.key)
            sa = await ra2.snapshot(paths=[wd / 'a'])
            rb = Repository(be, concurrent=4, quiet=True, cache_directory=None)
            await rb.unlock(password=b'pb', key=kb)
            garbage = [rb._chunk_digest_to_location(ctx.rng.randbytes(16)) for _ in range(9)]
            for g in garbage:
                be.objects[g] = b'garbage of an interrupted snapshot'
            alice = {ra2._chunk_digest_to_location(d) for d in sa.chunks}
            await rb.clean()
            out['alice_lost'] = sorted(alice - set(be.objects))
            out['garbage_left'] = [g for g in garbage if g in be.objects]
            out['snap_lost'] = sa.location not in be.objects
        saved = R.ThreadPoolExecutor
        JitterPool.rng = _random.Random(ctx.rng.randint(0, 2 ** 31))
        R.ThreadPoolExecutor = JitterPool
        try:
            with contextlib.redirect_stdout(io.StringIO()), contextlib.redirect_stderr(io.StringIO()):
                asyncio.run(asyncio.wait_for(go(), 120))
        except Exception as e:
            out['error'] = f'{type(e).__name__}: {str(e)[:100]}'
        finally:
            R.ThreadPoolExecutor = saved
        _sh.rmtree(wd, ignore_errors=True)
        rep.case(('foreign-garbage', trial), nontrivial=True)
        rep.count('foreign_garbage_probe')
        replay = {'probe': 'foreign_garbage'}
        if out.get('error'):
            rep.violations.append({'what': 'clean by an independent-key holder with garbage of his own failed: ' + out['error'], 'signature': {'kind': 'exception', 'probe': 'foreign_garbage'}, 'replay': replay})
        elif out['alice_lost'] or out['snap_lost']:
            rep.violations.append({'what': f'clean by the holder of an independent key removed {len(out["alice_lost"])} chunk(s) of another user\'s snapshot (9 garbage chunks of his own next to '
                                           f'10 foreign ones, concurrency 4, pool jobs completing out of order); {len(out["garbage_left"])} of his own garbage chunks were kept',
                                   'signature': {'kind': 'gc_overreach', 'probe': 'foreign_garbage'}, 'replay': replay})
            return
        elif out['garbage_left']:
            rep.violations.append({'what': f'clean left {len(out["garbage_left"])} of the caller\'s own garbage chunks (independent key, foreign chunks present, concurrency 4)',
                                   'signature': {'kind': 'gc_incomplete_own', 'probe': 'foreign_garbage'}, 'replay': replay})
            return


CLI_MINE = ('snapshot_not_listed', 'exception', 'hang', 'snapshot_unreadable', 'snapshot_objects', 'snapshot_name', 'visibility', 'details', 'file_list_foreign', 'restore_foreign', 'restore_foreign_crash', 'delete_foreign_succeeded', 'refused_delete_mutated', 'shared_secrets_differ', 'independent_secrets_equal', 'key_unusable', 'gc_overreach')


def _run(ctx, n, nops, rep, concurrent=None):
    seeds = [ctx.rng.randint(0, 2 ** 31) for _ in range(n)]
    repo_hist.run_batch(seeds, ctx.scratch, rep, nops=nops, weights=WEIGHTS, checks=CHECKS,
                        concurrent=concurrent or ctx.rng.choice([1, 2, 4]), delay=0.001, encrypted=True)
    rep.violations[:] = [v for v in rep.violations if v['signature']['kind'] in MINE]
    # the same property through the tool as a user runs it: fresh `python -m replicat` processes, a repository on disk, real faults
    foreign_garbage_probe(ctx, rep)
    cli_hist.run_scenarios(ctx, rep, {'plain': ctx.scale(6, 60)}, CLI_MINE, encrypted=True)
    cli_hist.termination_probe(ctx, rep, {'delete'})


def run(ctx) -> Report:
    rep = Report(rule=RULE)
    _run(ctx, ctx.scale(40, 600), ctx.scale(10, 18), rep)
    return rep


def search(ctx, broken) -> Report:
    rep = Report(rule=RULE)
    _run(ctx, ctx.scale(120, 1500), 16, rep)
    rep.disagreements.clear()
    return rep


def replay(ctx, obj):
    rc = cli_hist.replay_cli(ctx, obj, CLI_MINE)
    if rc is not None:
        return rc
    if (obj.get('replay') or {}).get('probe') == 'foreign_garbage':
        rep = Report(rule=RULE)
        foreign_garbage_probe(ctx, rep)
        for v in rep.violations:
            print('VIOLATION-REPRODUCED', v['what'])
        return 1 if rep.violations else 0
    rep = Report(rule=RULE)
    seed = (obj.get('replay') or {}).get('seed')
    if seed is None:
        print('no seed in replay file'); return 0
    repo_hist.run_batch([seed], ctx.scratch, rep, nops=18, weights=WEIGHTS, checks=CHECKS, concurrent=2, delay=0.001, encrypted=True)
    for v in rep.violations:
        print('VIOLATION-REPRODUCED', v['what'])
    for d in rep.disagreements:
        print('DISAGREEMENT-REPRODUCED', d['what'])
    return 1 if rep.violations or rep.disagreements else 0
