from harness.registry import COMMON_TB

ENTRY = {
    'level': 'proof',
    'technique': ('Coq proof over an executable model of Repository.init (settings validation, from_config binding, adapter constructor '
                  'checks in a small check language extracted from adapters.py, trial use of the primitives, upload last) and a symbolic '
                  'key-chain model + structural enumeration of the settings lattice against the real init/add_key on an in-memory backend'),
    'design_ref': 'DESIGN.md section 4 C17, design/C17.md',
    'text': ('Theorems (all inputs, no bounds): C17_accept_usable / C17_accept_cli_usable - whatever settings dictionary (or flat CLI form) '
             'and password init accepts, every configured parameter lies in the domain its primitive accepts and every adapter has the '
             'right kind; C17_reject_untouched / C17_accept_writes_config_only / C17_reject_untouched_any_order - a rejected init performs '
             'no backend write, an accepted one writes exactly the config; C17_add_key_accept_usable; C17_keys_unlock_own_only / '
             'C17_cross_unlock - for every chain of add-key operations (independent/shared/clone, any KDF parameters per key) each key '
             'opens with its own password only. The adapter table, constructor checks, schema keys, default names, kind checks and the '
             'order of the steps of init are extracted from the working tree and proved equal to the model by reflexivity. '
             'Explored, not proved: that the model is the implementation (structural lattice enumeration, accepted/rejected + stored '
             'config + writes compared), that accepted repositories really unlock/snapshot/restore in a fresh Repository, and the real '
             'cross-unlock matrices of all add-key chains of length <= 3.'),
    'note': ('Primitive domains (blake2b digest 1..64, sha2/sha3 sizes, AES key sizes, AEAD nonce 8..128 bytes, scrypt n a power of two > 1 '
             'and r,p >= 1, chunker 1 <= min and align4(min) <= max) are stated assumptions about hashlib/cryptography/the chunker (C10); '
             'KDF and cipher are symbolic with explicit premises in the key theorems. The default user KDF (scrypt n=2**20) is never run; '
             'memory limits of scrypt and collision resistance of short digests are outside the model.'),
    'trusted_base': COMMON_TB + ['in-memory Backend subclass and the snapshot/restore oracle of harness/c17.py'],
    'assumptions': ['hashlib.blake2b accepts digest_size 1..64 and keys up to 64 bytes; hashlib has sha{224,256,384,512} and sha3_{...}',
                    'cryptography AESGCM accepts 16/24/32-byte keys and 8..128-byte nonces; ChaCha20Poly1305 32-byte keys and 12-byte nonces',
                    'cryptography Scrypt accepts int n > 1 a power of two, r >= 1, p >= 1 (memory permitting)',
                    'the chunker works for 1 <= min_length and align4(min_length) <= max_length (proved in C10)',
                    'key theorems: AEAD round trip, a different key never decrypts, the KDF is injective in the password for fixed parameters and salt'],
}
