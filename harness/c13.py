"""C13 - all backends behave as the same simple object store.
Random operation histories are executed on the Local adapter (real directories, every spelling of the
repository path), on S3Compatible and B2 against the fake services, on a plain dict (model-free oracle) and
through the Coq models (Store spec, S3/B2 service+client models, local directory-tree model) by vm_compute.
DESIGN.md section 4 C13, design/C13.md."""
from __future__ import annotations

import asyncio
import io
import os
from pathlib import Path

from harness import core
from harness.core import Report
from harness import fakes_http as fk

ALPHABET = list('abcxyzAZ019 ._-~%+?#&<>"\'=*!():;,@$[]\\{}|^`') + ['é', 'ü', 'ß', '漢', 'я', '🙂', 'ñ']
PLAIN = list('abcd01')
OPS = ('upload', 'upload_stream', 'delete', 'exists', 'download', 'download_stream', 'list')
MISSING_OK = ('FileNotFoundError', 'HTTPStatusError:404', 'AuthRequired')


# --------------------------------------------------------------------------- generators
def gen_segment(rng, plain):
    alpha = PLAIN if plain else ALPHABET
    while True:
        n = rng.choice([1, 1, 2, 2, 3, 4, 6]) if rng.random() < 0.93 else rng.randint(20, 60)
        s = ''.join(rng.choice(alpha) for _ in range(n))
        if s in ('.', '..') or s.endswith('.tmp') or len(s.encode()) > 200:
            continue
        return s


def gen_universe(rng, n, plain):
    """n legal names, none a directory prefix of another (nor equal), sharing directories."""
    names = []
    tries = 0
    while len(names) < n and tries < 50 * (n + 1):
        tries += 1
        if names and rng.random() < 0.6:
            base = rng.choice(names)[:-1]             # sibling / cousin of an existing name
            base = base[:rng.randint(0, len(base))]
        else:
            base = []
        cand = base + [gen_segment(rng, plain) for _ in range(rng.choice([1, 1, 2] if base else [1, 1, 2, 2, 3]))]
        if any(cand[:len(o)] == o or o[:len(cand)] == cand for o in names):
            continue
        names.append(cand)
    return ['/'.join(x) for x in names]


def gen_prefix(rng, names, plain):
    r = rng.random()
    if r < 0.25 or not names:
        return '' if rng.random() < 0.75 or not names else gen_segment(rng, plain)
    name = rng.choice(names)
    if r < 0.75:
        return name[:rng.randint(0, len(name))]        # cut anywhere
    if r < 0.82:
        return name
    if r < 0.9:
        parts = name.split('/')
        k = rng.randint(1, len(parts))
        return '/'.join(parts[:k]) + ('/' if rng.random() < 0.7 else '')
    return name[:rng.randint(0, len(name))] + rng.choice(ALPHABET if not plain else PLAIN)


def gen_payload(rng, chunk):
    n = rng.choice([0, 1, chunk - 1, chunk, chunk + 1, 2 * chunk, 3 * chunk, 3 * chunk + 1, rng.randint(0, 4 * chunk)])
    return bytes(rng.randrange(256) for _ in range(max(0, n)))


def gen_history(rng, plain=None):
    if plain is None:
        plain = rng.random() < 0.3
    page = rng.choice([1, 1, 2, 2, 3, 4])
    top = int(2.5 * page) + 2
    nnames = rng.randint(0, top) if rng.random() < 0.35 else rng.randint(min(page + 1, top), top)
    names = gen_universe(rng, nnames, plain)
    # names that are proper STRING prefixes / extensions of other names in the same directory ('a/bc' next to 'a/b': legal,
    # neither is a directory prefix of the other); some of the shorter ones are "ghosts": never uploaded, only looked up,
    # downloaded or deleted
    ghosts = set()
    if names and rng.random() < 0.6:
        for _ in range(rng.randint(1, 3)):
            parts = rng.choice(names).split('/')
            last = parts[-1]
            if len(last) > 1 and rng.random() < 0.6:
                cand, ghost = parts[:-1] + [last[:rng.randint(1, len(last) - 1)]], rng.random() < 0.6
            else:
                cand, ghost = parts[:-1] + [last + gen_segment(rng, plain)[:2]], False
            others = [n.split('/') for n in names]
            if (cand[-1] in ('.', '..') or cand[-1].endswith('.tmp') or len(cand[-1].encode()) > 200
                    or any(cand[:len(o)] == o or o[:len(cand)] == cand for o in others)):
                continue
            names.append('/'.join(cand))
            if ghost:
                ghosts.add(names[-1])
    chunk = rng.choice([1, 2, 3, 4, 8, 16])
    ops = []
    nops = rng.randint(6, 34)
    burst = rng.random() < 0.7
    for i in range(nops):
        if not names:
            kind = 'list'
        elif burst and i < len(names):
            kind = rng.choice(['upload', 'upload_stream'])
        else:
            kind = rng.choices(OPS, weights=[20, 18, 14, 8, 8, 10, 22])[0]
        if kind == 'list':
            ops.append(['list', gen_prefix(rng, names, plain)])
            continue
        name = names[i] if (burst and i < len(names)) else rng.choice(names)
        if name in ghosts and kind in ('upload', 'upload_stream'):
            kind = rng.choice(['exists', 'exists', 'download', 'download_stream', 'delete'])
        if kind in ('upload', 'upload_stream'):
            ops.append([kind, name, gen_payload(rng, chunk).hex()])
            if rng.random() < 0.15:
                ops.append(['exists', name])
        elif kind == 'delete' and rng.random() < 0.5:
            # look, delete, look again (what callers do around a removal)
            ops += [['exists', name], ['delete', name], [rng.choice(['exists', 'exists', 'download']), name]]
        else:
            ops.append([kind, name])
    return {'names': names, 'ops': ops, 'page': page, 'chunk': chunk, 'synthetic_next': rng.random() < 0.5,
            'piece': rng.choice([1, chunk, chunk + 1, 64])}


# --------------------------------------------------------------------------- reference: a plain dict
def run_dict(h):
    d, out = {}, []
    for op in h['ops']:
        k = op[0]
        if k in ('upload', 'upload_stream'):
            d[op[1]] = bytes.fromhex(op[2]); out.append('ok')
        elif k == 'delete':
            d.pop(op[1], None); out.append('ok')
        elif k == 'exists':
            out.append(op[1] in d)
        elif k in ('download', 'download_stream'):
            out.append(d[op[1]].hex() if op[1] in d else 'missing')
        else:
            out.append(sorted(n for n in d if n.startswith(op[1])))
    return out, d


# --------------------------------------------------------------------------- implementation side
def _exc_class(e):
    import httpx
    if isinstance(e, httpx.HTTPStatusError):
        return f'HTTPStatusError:{e.response.status_code}'
    return type(e).__name__


async def _maybe_await(x):
    if asyncio.iscoroutine(x):
        return await x
    return x


async def _collect(x):
    if hasattr(x, '__aiter__'):
        return [v async for v in x]
    return list(x)


async def run_adapter(backend, h, before_op=None, after_op=None, real_files=None):
    """Execute the history on one adapter; canonicalised results."""
    out = []
    chunk = h['chunk']
    for idx, op in enumerate(h['ops']):
        k = op[0]
        if before_op:
            before_op(idx, op)
        try:
            if k == 'upload':
                await _maybe_await(backend.upload(op[1], bytes.fromhex(op[2]))); r = 'ok'
            elif k == 'upload_stream':
                data = bytes.fromhex(op[2])
                await _maybe_await(backend.upload_stream(op[1], io.BytesIO(data), len(data), chunk)); r = 'ok'
            elif k == 'delete':
                await _maybe_await(backend.delete(op[1])); r = 'ok'
            elif k == 'exists':
                r = bool(await _maybe_await(backend.exists(op[1])))
            elif k == 'download':
                try:
                    r = bytes(await _maybe_await(backend.download(op[1]))).hex()
                except Exception as e:
                    r = 'missing' if _exc_class(e) in MISSING_OK else f'error:{_exc_class(e)}'
            elif k == 'download_stream':
                # every other streamed download goes into a real file when a directory is given (truncate() extends there)
                st = open(real_files / f'o{idx}.bin', 'w+b') if (real_files is not None and idx % 2) else io.BytesIO()
                try:
                    await _maybe_await(backend.download_stream(op[1], st, chunk))
                    pos = st.tell()
                    st.seek(0)
                    got = st.read()
                    r = got.hex()
                    if pos != len(got):
                        r = f'error:position {pos} of {len(got)}'
                except Exception as e:
                    r = 'missing' if _exc_class(e) in MISSING_OK else f'error:{_exc_class(e)}'
                finally:
                    st.close()
            else:
                r = sorted(await _collect(backend.list_files(op[1])))
        except Exception as e:      # noqa: an adapter failing on a legal history is a result to compare
            r = f'error:{_exc_class(e)}:{str(e)[:80]}'
        out.append(r)
        if after_op:
            after_op(idx, op)
    return out


SPELLINGS = ('abs', 'rel', 'dotslash', 'trailing', 'dotdot', 'symlink', 'dot', 'empty', 'dotslash_only', 'double', 'abs_trailing')


def local_instance(base: Path, label):
    """(connection string, cwd to be in, directory that really holds the objects)"""
    base.mkdir(parents=True, exist_ok=True)
    real = base / 'store'
    if label == 'abs':
        return str(real), None, real
    if label == 'abs_trailing':
        return str(real) + '/', None, real
    if label == 'double':
        return str(base) + '//store', None, real
    if label == 'rel':
        return 'store', base, real
    if label == 'dotslash':
        return './store', base, real
    if label == 'trailing':
        return 'store///', base, real
    if label == 'dotdot':
        (base / 'x').mkdir(exist_ok=True)
        return 'x/../store', base, real
    if label == 'symlink':
        real = base / 'target'
        real.mkdir(exist_ok=True)
        os.symlink(real, base / 'store')
        return str(base / 'store'), None, real
    real.mkdir(exist_ok=True)
    return {'dot': '.', 'empty': '', 'dotslash_only': './'}[label], real, real


def read_tree(root: Path):
    out = {}
    if root.exists():
        for dp, _, files in os.walk(root):
            for f in files:
                p = Path(dp) / f
                out[str(p.relative_to(root))] = p.read_bytes()
    return out


class RenameFaults:
    """One transient OSError (EACCES as PermissionError, EBUSY, EIO) at the rename that publishes an upload, on the
    operations `armed` says; the adapter's retry masks it, so the history must still answer as the plain map does."""

    def __init__(self, real_root: Path):
        self.root = os.path.realpath(real_root) + os.sep
        self.pending = None
        self.fired = 0

    def __enter__(self):
        import errno
        self._replace, self._rename = os.replace, os.rename
        errors = (lambda: PermissionError(errno.EACCES, 'injected: permission denied at rename'),
                  lambda: OSError(errno.EBUSY, 'injected: device or resource busy at rename'),
                  lambda: OSError(errno.EIO, 'injected: I/O error at rename'))

        def make(original):
            def patched(src, dst, *a, **ka):
                if self.pending is not None and os.path.realpath(os.fspath(dst)).startswith(self.root):
                    k, self.pending = self.pending, None
                    self.fired += 1
                    raise errors[k % 3]()
                return original(src, dst, *a, **ka)
            return patched
        os.replace, os.rename = make(self._replace), make(self._rename)
        return self

    def __exit__(self, *exc):
        os.replace, os.rename = self._replace, self._rename


def run_local(h, base: Path, label, faulty=False):
    from replicat.backends.local import Local
    conn, cwd, real = local_instance(base, label)
    old = os.getcwd()
    try:
        if cwd is not None:
            os.chdir(cwd)
        b = Local(conn)
        if faulty:
            with RenameFaults(real) as rf:
                def before(idx, op):
                    rf.pending = idx if (op[0] in ('upload', 'upload_stream') and (idx + len(h['ops'])) % 2 == 0) else None
                out = _sync_run(run_adapter(b, h, before))
            return out, read_tree(real), rf.fired
        out = _sync_run(run_adapter(b, h))
    finally:
        os.chdir(old)
    return out, read_tree(real)


# --------------------------------------------------------------------------- observation AT the commit point of an upload
class SimulatedCrash(BaseException):
    """stands for the process dying at this system call"""


class CommitHook:
    """Intercepts os.replace / os.rename (what Path.replace delegates to) whose target lies inside the watched store,
    and shutil.copyfileobj into a file of the store: callback(kind, path) runs right BEFORE the real call."""

    def __init__(self, real_root: Path, callback):
        self.root = os.path.realpath(real_root) + os.sep
        self.callback = callback
        self.fired = 0

    def inside(self, p):
        try:
            return os.path.realpath(os.fspath(p)).startswith(self.root)
        except (TypeError, ValueError):
            return False

    def __enter__(self):
        import shutil
        self._replace, self._rename, self._copy = os.replace, os.rename, shutil.copyfileobj

        def make(original):
            def patched(src, dst, *a, **ka):
                if self.inside(dst):
                    self.fired += 1
                    path = os.path.realpath(os.fspath(dst))
                    self.callback('rename', path)
                    r = original(src, dst, *a, **ka)
                    self.callback('renamed', path)          # ... and right AFTER it returned
                    return r
                return original(src, dst, *a, **ka)
            return patched

        def copy(fsrc, fdst, length=0):
            name = getattr(fdst, 'name', None)
            if isinstance(name, (str, bytes, os.PathLike)) and self.inside(name):
                self.callback('copy', None)
            return self._copy(fsrc, fdst, length) if length else self._copy(fsrc, fdst)

        os.replace, os.rename, shutil.copyfileobj = make(self._replace), make(self._rename), copy
        return self

    def __exit__(self, *exc):
        import shutil
        os.replace, os.rename, shutil.copyfileobj = self._replace, self._rename, self._copy


def observe_store(real: Path, cur: dict, names, chunk):
    """What a second client of the same repository sees right now, compared with the map `cur`."""
    from replicat.backends.local import Local
    b = Local(str(real))
    bad = []
    for u in names:
        want = cur.get(u)
        ex = b.exists(u)
        if ex != (want is not None):
            bad.append(f'exists({u!r}) = {ex}, the map says {want is not None}')
        # (a download of a name that is not there would only exercise the adapter's retry loop)
        got = None
        if ex or want is not None:
            try:
                got = b.download(u)
            except OSError:
                got = None
        if got != want:
            bad.append(f'download({u!r}) = {got!r}, the map holds {want!r}')
        if want is not None and ex:
            st = io.BytesIO()
            try:
                b.download_stream(u, st, chunk)
                got = st.getvalue()
            except OSError:
                got = None
            if got != want:
                bad.append(f'download_stream({u!r}) = {got!r}, the map holds {want!r}')
    listed = sorted(b.list_files(''))
    if listed != sorted(cur):
        bad.append(f"list_files('') = {listed}, the map's names are {sorted(cur)}")
    return bad


def apply_op(cur, op):
    if op[0] in ('upload', 'upload_stream'):
        cur[op[1]] = bytes.fromhex(op[2])
    elif op[0] == 'delete':
        cur.pop(op[1], None)


def run_local_commit_points(h, base: Path, label, crash_at=None):
    """The history on Local with a second client looking at the store right before every rename that publishes an
    upload (and before the copy of a streamed upload): it must see exactly the map as it was BEFORE the operation.
    With crash_at = k the rename of operation k raises SimulatedCrash instead; a fresh client must then find the
    object of that operation with its old or its new bytes (absent only if it was absent before) and everything else
    untouched.  Returns (results, problems)."""
    from replicat.backends.local import Local
    conn, cwd, real = local_instance(base, label)
    cur, pending, problems = {}, [None], []
    ops = h['ops'] if crash_at is None else h['ops'][:crash_at + 1]
    hh = dict(h, ops=ops)

    def before(idx, op):
        pending[0] = (idx, op)

    def after(idx, op):
        apply_op(cur, op)

    def callback(kind, path):
        idx, op = pending[0]
        if crash_at is not None:          # the crash runs only crash; the reader run observes
            if idx == crash_at and kind == 'rename':
                raise SimulatedCrash()
            return
        watch = [op[1]] + [n for n in h['names'] if n != op[1]][:3]
        here = os.getcwd()
        expect = cur
        if kind == 'renamed':       # the rename has published the object: from now on a reader must get the complete new bytes
            expect = dict(cur)
            apply_op(expect, op)
        try:
            for b in observe_store(real, expect, watch if kind != 'renamed' else watch[:1], h['chunk']):
                problems.append({'idx': idx, 'op': op[:2], 'when': {'rename': 'before the rename', 'renamed': 'right after the rename returned',
                                                                    'copy': 'during the streamed copy'}[kind],
                                 'kind': 'commit_point_reader', 'what': b})
        finally:
            os.chdir(here)

    old = os.getcwd()
    out = None
    try:
        if cwd is not None:
            os.chdir(cwd)
        b = Local(conn)
        with CommitHook(real, callback) as hook:
            try:
                out = _sync_run(run_adapter(b, hh, before, after))
            except SimulatedCrash:
                pass
    finally:
        os.chdir(old)
    if crash_at is not None:
        idx, op = crash_at, h['ops'][crash_at]
        name, new = op[1], bytes.fromhex(op[2])
        tree = read_tree(real)
        tree = {k: v for k, v in tree.items() if not k.endswith('.tmp')}
        allowed = [dict(cur), dict(cur, **{name: new})]
        from replicat.backends.local import Local as L2
        fresh = L2(str(real))
        seen = {}
        for n in sorted(set(h['names']) | {name}):
            if fresh.exists(n):
                try:
                    seen[n] = fresh.download(n)
                except OSError:
                    seen[n] = None
        listed = sorted(fresh.list_files(''))
        if seen not in allowed or listed != sorted(seen):
            problems.append({'idx': idx, 'op': op[:2], 'when': 'after a crash at the rename', 'kind': 'commit_point_crash',
                             'what': f'a fresh client finds {name!r} = {seen.get(name)!r} (listing {listed}); before the upload it was '
                                     f'{cur.get(name)!r}, the upload carries {new!r}'})
    return out, problems, hook.fired


class ReadRaceHook:
    """While a download of the watched object runs on the first client, the k-th of the file-system calls the adapter
    makes for it (os.stat / os.lstat, Path.open, os.fstat, shutil.copyfileobj) is preceded by callback(): a second
    client replaces the object there."""

    def __init__(self, real_root: Path, k, callback):
        self.root = os.path.realpath(real_root) + os.sep
        self.k, self.callback = k, callback
        self.n, self.busy, self.fired, self.steps = 0, False, None, []

    def inside(self, p):
        try:
            q = os.path.realpath(os.fspath(p))
        except (TypeError, ValueError):
            return False
        return q.startswith(self.root) and not q.endswith('.tmp')

    def step(self, what):
        if self.busy:
            return
        self.steps.append(what)
        if self.n == self.k and self.fired is None:
            self.busy = True
            try:
                self.fired = what
                self.callback()
            finally:
                self.busy = False
        self.n += 1

    def __enter__(self):
        import pathlib
        import shutil
        hook = self
        self._stat, self._fstat, self._open, self._copy = os.stat, os.fstat, pathlib.Path.open, shutil.copyfileobj

        def stat(path, *a, **ka):
            if not hook.busy and not isinstance(path, int) and hook.inside(path):
                hook.step('stat')
            return hook._stat(path, *a, **ka)

        def fstat(fd):
            hook.step('fstat')
            return hook._fstat(fd)

        def popen(self, *a, **ka):
            if not hook.busy and hook.inside(self):
                hook.step('open')
            return hook._open(self, *a, **ka)

        def copy(fsrc, fdst, length=0):
            hook.step('copy')
            return hook._copy(fsrc, fdst, length) if length else hook._copy(fsrc, fdst)

        os.stat, os.fstat, pathlib.Path.open, shutil.copyfileobj = stat, fstat, popen, copy
        return self

    def __exit__(self, *exc):
        import pathlib
        import shutil
        os.stat, os.fstat, pathlib.Path.open, shutil.copyfileobj = self._stat, self._fstat, self._open, self._copy


def check_read_races(h, rep: Report, base: Path, label):
    """Downloads racing with a replacement by a second client: the history runs on Local; for every download /
    download_stream of a live object (streamed downloads go into a REAL file, where truncate() extends with zeros) the
    object is replaced by a shorter or a longer one right before the k-th file-system call of the download, k cycling
    over the calls.  A plain map would hand out the old or the new bytes - never a mixture, padding or a shortened copy."""
    from replicat.backends.local import Local
    conn, cwd, real = local_instance(base, label)
    cur = {}
    outdir = base / 'out'
    outdir.mkdir(parents=True, exist_ok=True)
    old_cwd = os.getcwd()
    nraces = 0
    try:
        if cwd is not None:
            os.chdir(cwd)
        b = Local(conn)
        other = Local(str(real))
        for idx, op in enumerate(h['ops']):
            k = op[0]
            if k in ('download', 'download_stream') and op[1] in cur:
                old = cur[op[1]]
                shorter = (idx // 4) % 2 == 0
                new = old[:len(old) // 2] if (shorter and old) else old + bytes((idx * 13 + i) % 256 for i in range(len(old) + 3))
                hook = ReadRaceHook(real, idx % 4, lambda: other.upload(op[1], new))
                got = None
                with hook:
                    try:
                        if k == 'download':
                            got = bytes(b.download(op[1]))
                        else:
                            with open(outdir / f'o{idx}.bin', 'w+b') as st:
                                b.download_stream(op[1], st, h['chunk'])
                                pos = st.tell()
                                st.seek(0)
                                got = st.read()
                            if pos != len(got):
                                got = ('position', pos, got)
                    except Exception as e:          # noqa
                        got = f'error:{_exc_class(e)}'
                if hook.fired is not None:
                    cur[op[1]] = new
                    nraces += 1
                    rep.count('read_race_at_' + hook.fired)
                if got not in ((old, new) if hook.fired is not None else (old,)):
                    rep.violations.append({
                        'what': f'local:{label}: op #{idx} {op[:2]} while a second client replaced the object ({len(old)} -> {len(new)} bytes) right '
                                f'before the {hook.fired} step {hook.steps}: got {got!r}, neither the old {old!r} nor the new {new!r}',
                        'signature': {'backend': 'local', 'kind': 'read_race', 'op': k},
                        'replay': {'history': h, 'backend': 'local:' + label, 'probe': 'read_race'}})
            elif k in ('upload', 'upload_stream'):
                data = bytes.fromhex(op[2])
                if k == 'upload':
                    b.upload(op[1], data)
                else:
                    b.upload_stream(op[1], io.BytesIO(data), len(data), h['chunk'])
                cur[op[1]] = data
            elif k == 'delete':
                b.delete(op[1])
                cur.pop(op[1], None)
    finally:
        os.chdir(old_cwd)
    rep.count('read_races', nraces)


def crash_points(h):
    """Indices of uploads worth crashing: the last one that replaces a live object, and the last one that creates one."""
    cur, over, fresh = {}, None, None
    for i, op in enumerate(h['ops']):
        if op[0] in ('upload', 'upload_stream'):
            if op[1] in cur:
                over = i
            else:
                fresh = i
        apply_op(cur, op)
    return [i for i in (over, fresh) if i is not None]


def check_commit_points(h, ref, rep: Report, base: Path, label, full=False):
    out, problems, fired = run_local_commit_points(h, base / 'reader', label)
    rep.count('commit_point_observations', fired)
    if out is not None and out != ref:
        i = first_diff(out, ref)
        problems.append({'idx': i, 'op': h['ops'][i][:2], 'when': 'with the commit-point hook installed', 'kind': 'history',
                         'what': f'returned {str(out[i])[:100]!r}, a plain map returns {str(ref[i])[:100]!r}'})
    cps = crash_points(h)
    for k in (cps if full else cps[len(h['ops']) % 2:][:1] or cps[:1]):
        _, pr, _ = run_local_commit_points(h, base / f'crash{k}', label, crash_at=k)
        rep.count('commit_point_crashes')
        problems += pr
    firsts = {}
    for pr in problems:
        firsts.setdefault((pr['kind'], pr['op'][0]), pr)
    for pr in firsts.values():
        rep.violations.append({
            'what': f'local:{label}: op #{pr["idx"]} {pr["op"]} {pr["when"]}: {pr["what"]}',
            'signature': {'backend': 'local', 'kind': pr['kind'], 'op': pr['op'][0]},
            'replay': {'history': h, 'backend': 'local:' + label, 'probe': 'commit_point'}})


_LOOP = None


def _sync_run(coro):
    global _LOOP
    if _LOOP is None or _LOOP.is_closed():
        _LOOP = asyncio.new_event_loop()
    return _LOOP.run_until_complete(coro)


PRIMARY13 = {('s3c', 'upload'): 'PUT', ('s3c', 'upload_stream'): 'PUT', ('s3c', 'download'): 'GET', ('s3c', 'download_stream'): 'GET',
             ('s3c', 'exists'): 'HEAD', ('s3c', 'delete'): 'DELETE', ('s3c', 'list'): 'LIST',
             ('b2', 'upload'): 'upload', ('b2', 'upload_stream'): 'upload', ('b2', 'download'): 'download', ('b2', 'download_stream'): 'download',
             ('b2', 'exists'): 'head', ('b2', 'delete'): 'hide_file', ('b2', 'list'): 'list_file_names'}


def transient_rules(backend, idx, op, h):
    """The masked transient fault(s) this operation meets in the faulty runs: about 3 operations in 5 get one (S3 sometimes
    two) - a connection dropped after at least one body piece, 503, 429 with retry-after, 408, a refused connection - always
    within the retry budget, so the adapter must still answer exactly as the plain map does."""
    salt = len(h['ops']) + len(op[1])
    if (idx * 7 + salt) % 5 >= 3:
        return []
    kind = ('drop_body', '503', '429', 'drop_body', 'drop', '408', 'lost_answer')[(idx + salt) % 7]
    transfer = op[0] in ('upload', 'upload_stream', 'download', 'download_stream')
    if op[0] == 'delete' and (idx + salt) % 2:
        kind = 'lost_answer'
    if kind == 'lost_answer':       # the request takes effect at the service, the answer never arrives
        kind = ('drop_after', '500_after')[idx % 2] if op[0] in ('upload', 'upload_stream', 'delete') else '503'
    if kind == 'drop_body' and not transfer:
        kind = 'drop'
    rule = {'op': PRIMARY13[(backend, op[0])], 'kind': kind, 'count': 1}
    if kind == 'drop_body':
        rule['after'] = 1 + (idx + salt) % 3
    rules = [rule]
    if backend == 's3c' and (idx + salt) % 4 == 0:
        rules.append({'op': rule['op'], 'kind': '503' if kind != '503' else '429', 'count': 1})
    return rules


def run_s3(h, faulty=False, real_files=None):
    from replicat.backends import s3c
    svc = fk.FakeS3('bkt', page_size=h['page'], piece=h['chunk'] if faulty else h['piece'], max_requests=5000)
    nfired = [0]
    with fk.patched_async_client(svc.handler):
        b = s3c.S3Compatible('bkt', key_id='AKIDEXAMPLE', access_key='secret', region='us-east-1', host='s3.fake.test')
    pages, mark = [], [0]

    def before(idx, op):
        mark[0] = svc.count('LIST')
        if faulty:
            nfired[0] += len(svc.plan.fired)
            svc.plan = fk.FaultPlan(transient_rules('s3c', idx, op, h))
            if op[0] == 'delete' and (idx + len(h['ops'])) % 3 == 0:
                svc.objects.pop(op[1], None)                 # a second client removed it a moment ago

    def after(idx, op):
        pages.append(svc.count('LIST') - mark[0] if op[0] == 'list' else 0)
    out = _sync_run(run_adapter(b, h, before, after, real_files))
    _sync_run(b.close())
    if faulty:
        return out, dict(svc.objects), nfired[0] + len(svc.plan.fired)
    return out, dict(svc.objects), pages


# how the repository is addressed at B2 (bucket name or bucket id) x whether the application key is restricted to the bucket
B2_MODES = (('name', False), ('id', False), ('id', True), ('name', True))


def run_b2(h, mode=('name', False), faulty=False, real_files=None):
    from replicat.backends import b2
    by, restricted = mode
    svc = fk.FakeB2('bkt', page_size=h['page'], piece=h['chunk'] if faulty else h['piece'], synthetic_next=h['synthetic_next'], max_requests=5000,
                    restricted=restricted)
    nfired = [0]
    with fk.patched_async_client(svc.handler):
        b = b2.B2('bkt' if by == 'name' else svc.bucket_id, key_id='kid', application_key='appkey')
    pages, mark = [], [0]

    def before(idx, op):
        mark[0] = svc.count('list_file_names')
        if faulty:
            nfired[0] += len(svc.plan.fired)
            svc.plan = fk.FaultPlan(transient_rules('b2', idx, op, h))
            vs = svc.versions.get(op[1])
            if op[0] == 'delete' and (idx + len(h['ops'])) % 3 == 0 and vs and vs[-1][0] == 'upload':
                vs.append(('hide',))                          # a second client hid it a moment ago: ours gets already_hidden

    def after(idx, op):
        pages.append(svc.count('list_file_names') - mark[0] if op[0] == 'list' else 0)
    out = _sync_run(run_adapter(b, h, before, after, real_files))
    _sync_run(b.close())
    if faulty:
        return out, dict(svc.objects), nfired[0] + len(svc.plan.fired)
    return out, dict(svc.objects), pages


# --------------------------------------------------------------------------- model side (Coq, vm_compute)
def cstr(s):
    return '[' + ';'.join(str(ord(c)) for c in s) + ']'


def cpath(s):
    return '[' + ';'.join(cstr(x) for x in s.split('/')) + ']' if s != '' else '[]'


def split_prefix(p):
    i = p.rfind('/')
    if i < 0:
        return [], p
    d = p[:i]
    return (d.split('/') if d else []), p[i + 1:]


def cop(op, local):
    nm = cpath if local else cstr
    k = op[0]
    if k in ('upload', 'upload_stream'):
        c = 'Upload' if k == 'upload' else 'UploadStream'
        return f'{c} {nm(op[1])} {core.coq_bytes(bytes.fromhex(op[2])).replace("%N", "")}'
    if k == 'list':
        if local:
            d, b = split_prefix(op[1])
            return f'ListFiles ([{";".join(cstr(x) for x in d)}], {cstr(b)})'
        return f'ListFiles {cstr(op[1])}'
    return {'delete': 'Delete', 'exists': 'Exists', 'download': 'Download', 'download_stream': 'DownloadStream'}[k] + ' ' + nm(op[1])


MODEL_HEADER = '''From Coq Require Import List NArith Bool.
From Replicat Require Import Model.Store Model.S3Proto Model.B2Proto Model.LocalFs.
Import ListNotations. Local Open Scope N_scope.
Definition pm (p k : str) : bool := starts_with k p.
Definition tmpn : seg := [95;116;46;116;109;112].
Definition withpages {S} (step : op str str -> S -> S * obs str) (pages : str -> S -> nat) (o : op str str) (s : S) :=
  let '(s2, b) := step o s in (s2, (b, match o with ListFiles p => pages p s | _ => 0%nat end)).
Definition s3run (ps : nat) (ops : list (op str str)) := run (withpages (s3c_step str_cmp pm ps) (s3c_list_pages str_cmp pm ps)) ops [].
Definition b2run (ps : nat) (ops : list (op str str)) := run (withpages (b2c_step str_cmp pm ps) (b2c_list_pages str_cmp pm ps)) ops [].
Definition sprun (ops : list (op str str)) := run (spec_step str_eqb pm) ops [].
Definition lorun (ops : list (op path (path * seg))) := run local_step (map (fun o => (o, tmpn)) ops) [].
'''


def model_file(hs):
    lines = [MODEL_HEADER]
    for h in hs:
        flat = '[' + '; '.join(cop(o, False) for o in h['ops']) + ']'
        loc = '[' + '; '.join(cop(o, True) for o in h['ops']) + ']'
        lines.append(f'Eval vm_compute in (s3run {h["page"]}%nat {flat}, b2run {h["page"]}%nat {flat}, sprun {flat}, lorun {loc}).')
    return '\n'.join(lines) + '\n'


def _dec_str(x):
    return ''.join(chr(c) for c in x)


def _dec_obs(o, local):
    name = (lambda p: '/'.join(_dec_str(s) for s in p)) if local else _dec_str
    if o == 'ODone':
        return 'ok'
    if o == 'OMissing':
        return 'missing'
    if o == 'OFail':
        return 'error:model'
    if o[0] == 'OBool':
        return o[1]
    if o[0] == 'OData':
        return bytes(o[1]).hex()
    if o[0] == 'ONames':
        return sorted(name(k) for k in o[1])
    raise ValueError(o)


def run_model(hs, per_file=25):
    jobs = [(f'c13_{i // per_file}', model_file(hs[i:i + per_file])) for i in range(0, len(hs), per_file)]
    res = core.coq_eval_files(jobs)
    out = []
    for name, _ in jobs:
        rc, text = res[name]
        if rc != 0:
            return None, text[-1500:]
        for v in core.parse_coq_values(text):
            s3, b2, sp, lo = core.parse_coq_term(v)
            out.append({'s3': [_dec_obs(o, False) for o, _ in s3], 's3_pages': [n for _, n in s3],
                        'b2': [_dec_obs(o, False) for o, _ in b2], 'b2_pages': [n for _, n in b2],
                        'spec': [_dec_obs(o, False) for o in sp], 'local': [_dec_obs(o, True) for o in lo]})
    return out, ''


# --------------------------------------------------------------------------- the check
def first_diff(a, b):
    for i, (x, y) in enumerate(zip(a, b)):
        if x != y:
            return i
    return None


def check_histories(hs, rep: Report, scratch: Path, spellings, with_model=True, tag='h', all_b2_modes=False):
    impl = []
    with fk.VirtualSleep():
        for idx, h in enumerate(hs):
            ref, ref_state = run_dict(h)
            runs = {}
            for label in spellings(idx):
                runs['local:' + label] = run_local(h, scratch / f'{tag}{idx}_{label}', label)[:2]
            labels = spellings(idx)
            check_commit_points(h, ref, rep, scratch / f'{tag}{idx}_commit', labels[idx % len(labels)], full=all_b2_modes)
            check_read_races(h, rep, scratch / f'{tag}{idx}_race', labels[(idx + 1) % len(labels)])
            s3o, s3state, s3pages = run_s3(h)
            modes = B2_MODES if (idx < 4 or all_b2_modes) else (B2_MODES[idx % 4], B2_MODES[(idx + 2) % 4])[:1 + idx % 2]
            b2o, b2state, b2pages = run_b2(h, modes[0])
            runs['s3c'] = (s3o, s3state)
            runs['b2:by-%s%s' % (modes[0][0], '-restricted-key' if modes[0][1] else '')] = (b2o, b2state)
            for md in modes[1:]:
                runs['b2:by-%s%s' % (md[0], '-restricted-key' if md[1] else '')] = run_b2(h, md)[:2]
            rep.count('b2_addressed_by_' + modes[0][0] + ('_restricted' if modes[0][1] else ''))
            o, st_, nfl = run_local(h, scratch / f'{tag}{idx}_renamefaults', labels[(idx + 2) % len(labels)], faulty=True)
            runs['local:' + labels[(idx + 2) % len(labels)] + ':with-transient-rename-faults'] = (o, st_)
            rep.count('masked_transient_rename_faults', nfl)
            # the same history with masked transient faults sprinkled over the requests (refinement across retries)
            fdir = scratch / f'{tag}{idx}_httpfiles'
            fdir.mkdir(parents=True, exist_ok=True)
            o, st_, nf = run_s3(h, faulty=True, real_files=fdir)
            runs['s3c:with-transient-faults'] = (o, st_)
            o, st_, nf2 = run_b2(h, modes[0], faulty=True, real_files=fdir)
            runs['b2:with-transient-faults'] = (o, st_)
            rep.count('masked_transient_http_faults', nf + nf2)
            impl.append({'s3': s3o, 'b2': b2o, 's3_pages': s3pages, 'b2_pages': b2pages,
                         'local': runs['local:' + spellings(idx)[0]][0], 'ref': ref})
            nlist_pages = max(s3pages) if s3pages else 0
            kinds = {o[0] for o in h['ops']}
            rep.case((h['ops'], h['page']), nontrivial=nlist_pages >= 2 and bool(kinds & {'delete'}) and len(ref_state) >= 1)
            rep.count(f'page_size={h["page"]}')
            rep.count('pages_max=' + ('0' if nlist_pages == 0 else '1' if nlist_pages == 1 else '2' if nlist_pages == 2 else '3+'))
            if any(a != b and b.startswith(a) and '/' not in b[len(a):] for a in h['names'] for b in h['names']):
                rep.count('string_prefix_names')
            rep.count('names=' + ('0' if not h['names'] else '1-3' if len(h['names']) <= 3 else '4-7' if len(h['names']) <= 7 else '8+'))
            for o in h['ops']:
                rep.count('op=' + o[0])
            if any(ord(c) > 127 for n in h['names'] for c in n):
                rep.count('unicode_names')
            if any(c in n for n in h['names'] for c in '%+?# '):
                rep.count('special_char_names')
            rep.sample({'names': h['names'][:6], 'page_size': h['page'], 'chunk': h['chunk'], 'ops': [o[:2] for o in h['ops'][:8]],
                        'dict_results': [r if not isinstance(r, str) or len(r) < 24 else r[:24] + '...' for r in ref[:8]]})
            for label, (out, state) in runs.items():
                backend = label.split(':')[0]
                i = first_diff(out, ref)
                if i is not None:
                    rep.violations.append({
                        'what': f'{label}: op #{i} {h["ops"][i][:2]} returned {str(out[i])[:120]!r}, a plain map returns {str(ref[i])[:120]!r}',
                        'signature': {'backend': backend, 'kind': 'history', 'op': h['ops'][i][0]},
                        'replay': {'history': h, 'backend': label}})
                elif {k: v for k, v in state.items()} != ref_state:
                    rep.violations.append({
                        'what': f'{label}: final stored objects differ from the map: ' + '; '.join(
                            f'{n!r}: stored {state.get(n)!r}, the map holds {ref_state.get(n)!r}'
                            for n in sorted(set(state) | set(ref_state)) if state.get(n) != ref_state.get(n))[:300],
                        'signature': {'backend': backend, 'kind': 'final_state'},
                        'replay': {'history': h, 'backend': label}})
    if with_model and hs:
        model, err = run_model(hs)
        if model is None:
            rep.disagreements.append({'what': 'the model could not be evaluated: ' + err, 'replay': None})
            return
        for h, m, i in zip(hs, model, impl):
            for key, what in (('s3', 'S3 model vs S3Compatible adapter on the fake service'), ('b2', 'B2 model vs B2 adapter on the fake service'),
                              ('local', 'directory-tree model vs Local adapter'), ('s3_pages', 'number of ListObjectsV2 requests'),
                              ('b2_pages', 'number of b2_list_file_names requests')):
                rep.traces_validated += 1
                if m[key] != i[key]:
                    j = first_diff(m[key], i[key])
                    rep.disagreements.append({'what': f'{what}: op #{j} {h["ops"][j][:2]} model {str(m[key][j])[:100]} implementation {str(i[key][j])[:100]}',
                                              'replay': {'history': h, 'model': m[key], 'implementation': i[key], 'part': key}})
            rep.traces_validated += 1
            if m['spec'] != i['ref']:
                rep.disagreements.append({'what': 'Store specification (Coq) differs from the dict oracle', 'replay': {'history': h, 'model': m['spec'], 'dict': i['ref']}})


def probes(rep: Report, scratch: Path):
    """Inputs of the known findings, kept out of the main generator (DESIGN.md section 5, rows 8 and 9)."""
    # replacement of an existing object, plain and streamed, observed at the commit point and crashed there
    h = {'names': ['data/ab/x', 'data/ab/y', 'top'], 'page': 2, 'chunk': 4, 'synthetic_next': False, 'piece': 4,
         'ops': [['upload', 'data/ab/x', '0102'], ['upload_stream', 'data/ab/y', '03040506070809'], ['upload', 'top', ''],
                 ['upload_stream', 'data/ab/x', '1112131415'], ['upload', 'data/ab/y', '21'], ['upload', 'data/ab/x', '31'],
                 ['upload_stream', 'data/ab/y', '4142434445464748'], ['list', 'data/']]}
    with fk.VirtualSleep():
        for label in ('abs', 'dot', 'symlink'):
            check_commit_points(h, run_dict(h)[0], rep, scratch / f'probe_commit_{label}', label, full=True)
            rep.case(('probe_commit', label), nontrivial=False)
        hr = {'names': ['data/ab/x'], 'page': 2, 'chunk': 4, 'synthetic_next': False, 'piece': 4,
              'ops': [['upload', 'data/ab/x', '0102030405060708090a0b0c']] + [['download_stream', 'data/ab/x'] if i % 3 else ['download', 'data/ab/x'] for i in range(1, 17)]}
        for label in ('abs', 'rel'):
            check_read_races(hr, rep, scratch / f'probe_race_{label}', label)
            rep.case(('probe_race', label), nontrivial=False)
    with fk.VirtualSleep():
        # row 8: a local name ending in .tmp exists but is never listed
        h = {'names': ['data/zz.tmp'], 'ops': [['upload', 'data/zz.tmp', '0102'], ['exists', 'data/zz.tmp'], ['list', 'data/'], ['list', '']],
             'page': 2, 'chunk': 4, 'synthetic_next': False, 'piece': 4}
        ref, _ = run_dict(h)
        out, _ = run_local(h, scratch / 'probe_tmp', 'abs')
        rep.case(('probe_tmp',), nontrivial=False)
        if out != ref:
            i = first_diff(out, ref)
            rep.violations.append({'what': f'local: name ending in .tmp: op #{i} {h["ops"][i][:2]} returned {out[i]!r}, a plain map returns {ref[i]!r}',
                                   'signature': {'backend': 'local', 'kind': 'tmp_suffix'}, 'replay': {'history': h, 'backend': 'local:abs', 'probe': 'tmp_suffix'}})
        for label in ('s3c', 'b2'):
            o2 = (run_s3(h) if label == 's3c' else run_b2(h))[0]
            if o2 != ref:
                rep.violations.append({'what': f'{label}: name ending in .tmp handled differently from a map', 'signature': {'backend': label, 'kind': 'history', 'op': 'list'},
                                       'replay': {'history': h, 'backend': label}})
        # '.' / '..' segments: httpx normalises the URL path, so the request addresses another object
        for nm in ('a/../b', 'a/./c'):
            h = {'names': [nm], 'ops': [['upload', nm, '07'], ['exists', nm], ['download', nm], ['list', '']],
                 'page': 2, 'chunk': 4, 'synthetic_next': False, 'piece': 4}
            ref, _ = run_dict(h)
            for label in ('s3c', 'b2'):
                out = (run_s3(h) if label == 's3c' else run_b2(h))[0]
                rep.case(('probe_dots', label, nm), nontrivial=False)
                if out != ref:
                    i = first_diff(out, ref)
                    rep.violations.append({'what': f'{label}: name {nm!r} with a dot segment: op #{i} {h["ops"][i][:2]} returned {out[i]!r}, a plain map returns {ref[i]!r}',
                                           'signature': {'backend': label, 'kind': 'dot_segments'}, 'replay': {'history': h, 'backend': label, 'probe': 'dot_segments'}})


RULE = ('case = one operation history (upload, upload_stream, delete, exists, download, download_stream, list prefix) over a '
        'prefix-free universe of legal names (printable incl. space, unicode, % + ? # & < >; names that are proper string prefixes of sibling '
        'names, some never uploaded and only looked up / downloaded / deleted), executed on Local under several '
        'spellings of the repository path, on S3Compatible and B2 against the fake services (page size 1..4, 0..2.5 pages of '
        'objects, payloads around the stream chunk size), on a dict and through the Coq models; non-trivial = some listing '
        'needed >= 2 pages and the history contains a delete and ends non-empty; distinct = distinct (ops, page size)')


def _spelling_chooser(rng, n, k):
    picks = []
    for _ in range(n):
        s = list(SPELLINGS)
        rng.shuffle(s)
        picks.append(tuple(s[:k]))
    return lambda idx: picks[idx]


def corpus():
    import json
    return [json.loads(p.read_text()) for p in sorted((core.ROOT / 'corpus' / 'C13').glob('*.json'))]


def run(ctx) -> Report:
    rep = Report(rule=RULE)
    n = ctx.scale(240, 3000)
    hs = corpus() + [gen_history(ctx.rng) for _ in range(n)]
    # every spelling on the first histories, then a rotating subset
    k = ctx.scale(4, 6)
    chooser = _spelling_chooser(ctx.rng, len(hs), k)
    spell = lambda idx: SPELLINGS if idx < len(SPELLINGS) + 4 else chooser(idx)
    check_histories(hs, rep, ctx.scratch, spell)
    probes(rep, ctx.scratch)
    # two uploads of ONE name that overlap in time inside one process (forced schedule): the object visible under the name is at every
    # moment entirely one upload's bytes - each writer needs a temporary of its own
    from harness import c02 as _c02
    _c02.local_overlap_probe(ctx, rep)
    return rep


def search(ctx, broken) -> Report:
    rep = Report(rule=RULE)
    seeds = []
    for b in broken:
        c = b.get('case')
        if isinstance(c, dict) and isinstance(c.get('history'), dict):
            seeds.append(c['history'])
    hs = seeds + [gen_history(ctx.rng) for _ in range(ctx.scale(1500, 4000))]
    check_histories(hs, rep, ctx.scratch / 'search', lambda idx: SPELLINGS, with_model=False, tag='s', all_b2_modes=True)
    return rep


def replay(ctx, obj):
    rep = Report(rule=RULE)
    case = obj.get('replay') or {}
    h = case.get('history')
    if not isinstance(h, dict):
        for b in obj.get('broken', []):
            c = b.get('case')
            if isinstance(c, dict) and isinstance(c.get('history'), dict):
                h = c['history']
                break
    if not isinstance(h, dict):
        print('replay file does not carry an operation history:', obj.get('kind'))
        return 0
    check_histories([h], rep, ctx.scratch, lambda idx: SPELLINGS, all_b2_modes=True)
    for v in rep.violations:
        print('VIOLATION-REPRODUCED', v['what'])
    for d in rep.disagreements:
        print('DISAGREEMENT-REPRODUCED', d['what'])
    return 1 if rep.violations or rep.disagreements else 0
