"""C05 - an encrypted repository reveals no plaintext at rest (symbolic statement).
B2: every object / name / key file / stdout byte produced by real init, add-key, snapshot, delete, clean runs is
parsed by the independent reader into a term and compared with the items emitted by Model/Emit (vm_compute):
same shape, which key opens what, ciphertext length = nonce + plaintext + 16; the secrecy predicate of the
theorem is evaluated (in Coq) on the lifted terms; nonces collected per key are pairwise distinct.
C: taint scan - every secret the harness knows, in raw / hex / base64 form, searched in everything written.
DESIGN.md C05 / design/C05.md."""
from __future__ import annotations

import base64
import json
import shutil
from pathlib import Path

from harness import core, repolab, refreader
from harness.core import Report
from harness.membackend import MemBackend

RULE = ('cases = (configuration, history): configurations = cipher {aes_gcm 128/192/256, chacha20_poly1305} x hash {blake2b, sha2, sha3 with '
        'several lengths}; history = init (key to a file or printed), add-key shared and independent, two snapshots by two users of a random '
        'tree with distinctive names/notes, delete, clean; each history runs in an environment chosen by its index: cache disabled / private / '
        'the one cache directory of the user shared with (and used in between by) an unencrypted or a differently encrypted sibling repository, '
        'and root logger at DEBUG for a third of them; for every case all backend calls (names and uploaded bytes), key files and '
        'stdout/stderr are lifted to terms and compared item by item with the model, and scanned for every known secret; plus one unencrypted '
        'repository on which the scanner must find the secrets (self-check); evaluations = lifted items + (secret, form, haystack) scans; '
        'non-trivial = an encrypted configuration whose history uploaded at least 4 chunk objects and 2 snapshots; distinct = distinct '
        '(configuration, tree seed)')

SECRET_LIMIT = 60000   # atoms below are secret (keys, passwords, chunk/path/file/meta/info atoms); above: settings, salts


def configs(ctx):
    quick = [(('aes_gcm', None), None), (('chacha20_poly1305', None), {'name': 'sha2', 'bits': 256}),
             (('aes_gcm', 128), {'name': 'sha3', 'bits': 512}), (('aes_gcm', 192), {'name': 'blake2b', 'length': 32}),
             (('chacha20_poly1305', None), {'name': 'blake2b', 'length': 64}), (('aes_gcm', 256), {'name': 'sha2', 'bits': 512}),
             (('aes_gcm', 128), {'name': 'sha3', 'bits': 224}), (('aes_gcm', 192), {'name': 'sha2', 'bits': 384}),
             # cipher parameter sweep: nonce widths the adapter accepts besides the default 96 bits
             (('aes_gcm', 256, 128), None), (('aes_gcm', 128, 256), {'name': 'sha2', 'bits': 256}), (('aes_gcm', 192, 512), {'name': 'blake2b', 'length': 48}),
             (('aes_gcm', 256, 64), {'name': 'sha3', 'bits': 256})]
    if ctx.tier == 'thorough' or ctx.deep:
        for nb in (64, 104, 128, 192, 384, 1024):
            quick.append((('aes_gcm', 256, nb), {'name': 'blake2b', 'length': 32}))
        for c in (('aes_gcm', 128), ('aes_gcm', 192), ('aes_gcm', 256), ('chacha20_poly1305', None)):
            for h in ({'name': 'blake2b', 'length': 64}, {'name': 'blake2b', 'length': 20}, {'name': 'sha2', 'bits': 224}, {'name': 'sha2', 'bits': 384},
                      {'name': 'sha2', 'bits': 512}, {'name': 'sha3', 'bits': 224}, {'name': 'sha3', 'bits': 256}, {'name': 'sha3', 'bits': 384}):
                quick.append((c, h))
    return quick


# --------------------------------------------------------------------------- running a history on the real code
CACHE_ENVS = ['none', 'plain-sibling', 'private', 'encrypted-sibling']


def environment(cid):
    """The surroundings a history runs in (a function of the case id, so a replay rebuilds it):
    cache  none              - cache disabled
           private           - a cache directory of its own
           plain-sibling     - the user's ONE cache directory (as ~/.cache/replicat is), already used - and used again
                               between the commands - for an unencrypted repository of the same user
           encrypted-sibling - the same with a sibling repository encrypted under another cipher / hash / password
    debug  root logger at DEBUG (what -vv does), records captured and discarded
    refuse_delete  from the owner's `delete` on, the backend refuses - for good - to delete one chunk object (a permission
           problem at the provider): delete and clean fail, whatever they wrote before failing is scanned like everything else"""
    return {'cache': CACHE_ENVS[cid % 4], 'debug': cid % 3 == 0, 'refuse_delete': cid % 2 == 1,
            'user_kdf': 'blake2b' if cid % 4 == 3 else 'scrypt'}


class DebugLogging:
    """root logger at DEBUG for the duration of a history"""

    def __init__(self, enabled):
        self.enabled = enabled

    def __enter__(self):
        if self.enabled:
            import io
            import logging
            self.root = logging.getLogger()
            self.level = self.root.level
            self.stream = io.StringIO()
            self.handler = logging.StreamHandler(self.stream)
            self.root.addHandler(self.handler)
            self.root.setLevel(logging.DEBUG)
        return self

    def __exit__(self, *exc):
        if self.enabled:
            self.root.setLevel(self.level)
            self.root.removeHandler(self.handler)


PASSWORD_SHAPES = ['word', 'empty', 'long', 'nul', 'utf8', 'b65', 'b129']


def make_password(rng, role, shape):
    tag = rng.randbytes(6).hex()
    return {'word': f'pass-{role}-{tag}'.encode(), 'empty': b'', 'nul': b'\x00', 'long': f'pass-long-{role}-{tag} '.encode() * 40,
            'utf8': f'p\u00e4ssw\u00f6rd-{role}-{tag}-\U0001F511'.encode('utf-8'),
            'b65': (f'pass65-{role}-{tag}-'.encode() * 4)[:65], 'b129': (f'pass129-{role}-{tag}-'.encode() * 8)[:129]}[shape]


class VanishOnOpen:
    """the file disappears at the moment it is opened for reading (it was there when the files were collected)"""

    def __init__(self, path):
        self.path, self.done = str(path), False

    def __enter__(self):
        orig, me = Path.open, self
        self.orig = orig

        def open_(self, *a, **k):
            if not me.done and str(self) == me.path:
                me.done = True
                import os as _os
                _os.unlink(me.path)
            return orig(self, *a, **k)
        Path.open = open_
        return self

    def __exit__(self, *exc):
        Path.open = self.orig


class PasswordRefused(Exception):
    """init refused the password (the KDF cannot take it): no repository, nothing to check"""


class RefusingBackend(MemBackend):
    """once armed, the first chunk object whose deletion is requested can never be deleted"""
    armed = False
    refused = None

    def delete(self, name):
        if self.armed and name.startswith('data/') and self.refused in (None, name):
            self.refused = name
            self._note('delete', name)
            raise PermissionError(f'the provider refuses to delete {name[:24]}...')
        return super().delete(name)


class Sibling:
    """another repository of the same user that shares the cache directory"""

    def __init__(self, rng, root, kind, cache):
        self.be = MemBackend()
        self.tree = root / 'sibling-tree'
        repolab.make_tree(rng, self.tree, 2, maxlen=300)
        if kind == 'plain-sibling':
            self.client = repolab.Client(self.be, cache=cache)
            settings = repolab.settings_for(None, hashing={'name': 'sha2', 'bits': 256})
        else:
            self.client = repolab.Client(self.be, password=b'sibling-password', cache=cache)
            settings = repolab.settings_for(('chacha20_poly1305', None), hashing={'name': 'sha3', 'bits': 384})
        assert self.client.init(settings).ok
        self.n = 0

    def use(self):
        """one ordinary command on the sibling repository (every one of them unlocks it)"""
        self.n += 1
        o = self.client.snapshot([self.tree], note=f'sibling-{self.n}') if self.n % 2 == 1 else self.client.list_snapshots()
        assert o.ok, o.detail


def run_history(rng, scratch, cid, cipher, hashing):
    env = environment(cid)
    with DebugLogging(env['debug']), PrimitiveLog() as plog:
        h = _run_history(rng, scratch, cid, cipher, hashing, env)
    h['primitive_calls'] = len(plog.calls)
    h['primitive_reuse'] = plog.reused()
    return h


def _run_history(rng, scratch, cid, cipher, hashing, env):
    root = Path(scratch) / f'c05-{cid}'
    root.mkdir(parents=True, exist_ok=True)
    tag = rng.randbytes(5).hex()
    tree = root / f'confidential-{tag}'
    files = repolab.make_tree(rng, tree, rng.randint(3, 5), maxlen=700)
    # distinctive names
    renamed = {}
    for i, (p, d) in enumerate(sorted(files.items())):
        q = Path(p).with_name(f'secretname{i}-{rng.randbytes(4).hex()}.dat')
        Path(p).rename(q)
        renamed[str(q)] = d
    files = renamed
    cache = None if env['cache'] == 'none' else root / 'cache'
    sibling = Sibling(rng, root, env['cache'], cache) if env['cache'].endswith('sibling') else None

    def between():
        if sibling is not None:
            sibling.use()
    between()
    be = RefusingBackend()
    # "for all passwords": the shapes rotate over users and histories - a word, the empty string, one NUL byte, a long
    # passphrase, non-ASCII bytes
    pw = {u: make_password(rng, u, PASSWORD_SHAPES[(cid + k) % len(PASSWORD_SHAPES)]) for k, u in enumerate(('indep', 'owner', 'shared'))}
    note1, note2 = f'note-alpha-{rng.randbytes(5).hex()}', f'note-beta-{rng.randbytes(5).hex()}'
    outputs = []          # (command, stdout, stderr)
    failures = []         # commands of the honest history that ended in an error
    keyfiles = {}
    to_file = {'owner': cid % 2 == 0, 'shared': cid % 2 == 1, 'indep': cid % 3 == 0}
    owner = repolab.Client(be, password=pw['owner'], cache=cache)
    kdf = {'name': 'scrypt', 'n': 4} if env.get('user_kdf', 'scrypt') == 'scrypt' else {'name': 'blake2b'}
    cheap = {'encryption': {'kdf': dict(kdf)}}

    def refusable(u):
        # the BLAKE2b user KDF keys the hash with the password: longer than 64 bytes cannot be used and is refused
        return kdf['name'] == 'blake2b' and len(pw[u]) > 64

    def done(cmd, o, may_fail=False):
        outputs.append((cmd, o.stdout, o.stderr))
        if not o.ok and not (may_fail and 'refuses to delete' in o.detail):
            failures.append(f'{cmd}: {o.detail}')
        between()
        return o

    def keypath(u):
        return str(root / f'{u}.key') if to_file[u] else None
    init_settings = repolab.settings_for(cipher, hashing=hashing)
    init_settings['encryption']['kdf'] = dict(kdf)
    o = owner.init(init_settings, key_output_path=keypath('owner'))
    if not o.ok and refusable('owner'):
        raise PasswordRefused(o.detail)
    assert o.ok, o.detail
    done('init', o)
    keys = {'owner': owner.key}
    for u, shared in (('shared', True), ('indep', False)):
        o = owner.add_key(pw[u], shared=shared, settings=cheap, key_output_path=keypath(u))
        if not o.ok and refusable(u) and 'ValueError' in o.detail:
            outputs.append(('add-key refused', o.stdout, o.stderr))     # nothing was produced: nothing to seal
            between()
            continue
        done('add-key', o)
        if o.ok:
            keys[u] = repolab.serialize_key(o.value.new_key)
    for u in keys:
        if to_file[u] and (root / f'{u}.key').exists():
            keyfiles[u] = (root / f'{u}.key').read_bytes()
    clients = {u: repolab.Client(be, password=pw[u], key=keys[u], cache=cache) for u in keys}
    snapshots = []
    s1 = done('snapshot', clients['owner'].snapshot([tree], note=note1))
    if s1.ok:
        snapshots.append((s1.value, 'owner'))
    # second tree for the shared user: one common file, one new
    victim = sorted(files)[0]
    Path(victim).write_bytes(rng.randbytes(400))
    files2 = dict(files)
    files2[victim] = Path(victim).read_bytes()
    for u, paths, note in (('shared', [tree], note2), ('indep', [Path(victim)], None)):
        if u in clients:
            o = done('snapshot', clients[u].snapshot(paths, note=note))
            if o.ok:
                snapshots.append((o.value, u))
    # a source file that vanishes between the collection of the files and its being opened (temporary files, rotated logs)
    fleeting = root / f'fleeting-{rng.randbytes(4).hex()}'
    fleeting.mkdir()
    gone = fleeting / f'a-vanishing-{rng.randbytes(4).hex()}.tmp'
    gone.write_bytes(rng.randbytes(20))                         # the smallest file is streamed first
    stays = fleeting / f'b-staying-{rng.randbytes(4).hex()}.dat'
    stays.write_bytes(rng.randbytes(300))
    vanishing = {str(gone.resolve()): gone.read_bytes(), str(stays.resolve()): stays.read_bytes()}
    note4 = f'note-delta-{rng.randbytes(5).hex()}'
    with VanishOnOpen(gone.resolve()):
        o = clients['owner'].snapshot([fleeting], note=note4)
    outputs.append(('snapshot', o.stdout, o.stderr))
    if o.ok:
        snapshots.append((o.value, 'owner'))
    elif 'FileNotFoundError' not in o.detail:
        failures.append(f'snapshot of a tree with a vanishing file: {o.detail}')
    between()
    shutil.rmtree(fleeting, ignore_errors=True)
    # a tree in which every file is empty (.gitkeep, lock files): the chunk table of this snapshot is empty
    hollow = root / f'hollow-{rng.randbytes(4).hex()}'
    (hollow / 'sub').mkdir(parents=True)
    empties = {}
    for nm in (f'.gitkeep-{rng.randbytes(4).hex()}', f'sub/lockfile-{rng.randbytes(4).hex()}.lock'):
        (hollow / nm).write_bytes(b'')
        empties[str((hollow / nm).resolve())] = b''
    note3 = f'note-gamma-{rng.randbytes(5).hex()}'
    o = done('snapshot', clients['owner'].snapshot([hollow], note=note3))
    if o.ok:
        snapshots.append((o.value, 'owner'))
    shutil.rmtree(hollow, ignore_errors=True)
    before_delete = dict(be.objects)
    be.armed = bool(env.get('refuse_delete'))
    if s1.ok:
        done('delete', clients['owner'].delete_snapshots([s1.value.name]), may_fail=be.armed)
    done('clean', clients['owner'].clean(), may_fail=be.armed)
    shutil.rmtree(tree, ignore_errors=True)
    return {'cid': cid, 'cipher': cipher, 'hashing': hashing, 'log': list(be.log), 'outputs': outputs, 'keyfiles': keyfiles, 'keys': keys,
            'passwords': pw, 'to_file': to_file, 'snapshots': snapshots, 'failures': failures, 'env': env,
            'files': [files, files2, {victim: files2[victim]}, empties, vanishing], 'notes': [note1, note2, None, note3, note4], 'before_delete': before_delete,
            'deleted': s1.value.name if s1.ok else None, 'config': before_delete['config']}


# --------------------------------------------------------------------------- lifting what was written
class Lift:
    def __init__(self, h):
        self.h = h
        self.rr = refreader.RefReader(h['config'])
        self.atoms = refreader.Atoms()
        self.keys = {u: self.rr.open_key(h['keys'][u], h['passwords'][u]) for u in h['keys']}
        self.lifters = {}
        for u, k in self.keys.items():
            L = refreader.Lifter(self.rr, k, self.atoms)
            L.kt = {'shared': self.atoms.atom('key', k.shared_key), 'salt': self.atoms.atom('key', k.shared_salt),
                    'mac': self.atoms.atom('key', k.mac_key), 'chunker': self.atoms.atom('key', k.chunker_key),
                    'user': ('Kdf', self.atoms.atom('key', k.password), self.atoms.atom('setting', k.salt))}
            self.lifters[u] = L
        self.problems = []

    def family_of(self, u):
        k = self.keys[u]
        return (k.shared_key, k.mac_key)

    def key_term(self, u, data):
        """term of a serialized key (file or printed)"""
        k = self.keys[u]
        obj = refreader.parse_json(data)
        if sorted(obj) != ['kdf', 'kdf_params', 'private']:
            raise ValueError(f'key has fields {sorted(obj)}')
        pt = self.rr.aead_open(obj['private'], k.userkey)
        if pt is None:
            raise ValueError('private section does not open under SlowKdf(password, kdf_params)')
        if len(obj['private']) != self.rr.nonce_bytes + len(pt) + refreader.TAG_BYTES:
            raise ValueError('private section length is not nonce + plaintext + 16')
        priv = refreader.parse_json(pt)
        if list(priv) != ['shared_key', 'shared_kdf', 'shared_kdf_params', 'mac', 'mac_params', 'chunker_params']:
            raise ValueError(f'private section has fields {list(priv)}')
        L = self.lifters[u]
        a = self.atoms
        private = refreader.tlist([L.kt['shared'], a.atom('setting', json.dumps(priv['shared_kdf'], sort_keys=True)), L.kt['salt'],
                                   a.atom('setting', json.dumps(priv['mac'], sort_keys=True)), L.kt['mac'], L.kt['chunker']])
        return ('Pair', a.atom('setting', json.dumps(obj['kdf'], sort_keys=True)),
                ('Pair', a.atom('setting', obj['kdf_params']), ('Enc', L.kt['user'], L.nonce(obj['private']), private)))

    def lift_all(self):
        """items (python terms) of everything sent to the backend / written / printed"""
        h = self.h
        items = []
        cfg_atom = self.atoms.atom('setting', h['config'])
        # snapshots first: they give the digests and chunk plaintexts
        uploads = [(e[1], e[2]) for e in h['log'] if e[0] == 'upload']
        all_objects = dict(uploads)
        snaps = {}
        owner_of = {v.location: u for v, u in h['snapshots']}
        digests = {}
        for name, data in uploads:
            if name.startswith('snapshots/'):
                u = owner_of[name]
                s = self.rr.read_snapshot(self.keys[u], data)
                snaps[name] = s
                for d in s['chunks']:
                    digests.setdefault(d, set()).add(u)     # the same digest may be referenced from several key families
        plains = {}
        self.n_chunks = 0
        for name, data in uploads:
            if name != 'config' and not name.startswith(('data/', 'snapshots/')):
                self.problems.append(f'an object outside config / data/ / snapshots/ was written: {name[:60]} ({len(data)} bytes)')
            if name == 'config':
                items.append(('IObj', ('LOther', 0), cfg_atom))
            elif name.startswith('data/'):
                done = False
                for u in self.keys:
                    cands = [d for d, dus in digests.items() if any(self.family_of(du) == self.family_of(u) for du in dus)]
                    try:
                        loc, obj, dg = self.lifters[u].lift_chunk(name, data, cands)
                    except ValueError:
                        continue
                    plains[dg] = self.rr.read_chunk(self.keys[u], data, dg)
                    items.append(('IObj', loc, obj))
                    self.n_chunks += 1
                    done = True
                    break
                if not done:
                    self.problems.append(f'chunk object {name[:40]}... is not named/keyed by a referenced digest under any key')
        self.snap_terms = {}
        for name, data in uploads:
            if name.startswith('snapshots/'):
                u = owner_of[name]
                loc, obj, parsed = self.lifters[u].lift_snapshot(name, data, plains)
                items.append(('IObj', loc, obj))
                self.snap_terms[name] = (loc, obj, parsed, u)
        self.plains = plains
        # names sent in exists / delete calls
        names = [e[1] for e in h['log'] if e[0] in ('exists', 'delete')]
        known = {}
        for u in self.keys:
            for d in digests:
                if any(self.family_of(du) == self.family_of(u) for du in digests[d]):
                    known[self.rr.chunk_path(self.keys[u], d)] = (u, d)
        for n in names:
            if n.startswith('data/'):
                if n not in known:
                    self.problems.append(f'name {n[:40]}... sent to the backend is not Mac(Mac(digest)) of a referenced digest')
                    continue
                u, d = known[n]
                L = self.lifters[u]
                dt = L.digest_term(d, plains.get(d))
                items.append(('IName', ('LChunk', L.mac_t(dt), L.mac_t(L.mac_t(dt)))))
            elif n.startswith('snapshots/'):
                if n not in self.snap_terms:
                    self.problems.append(f'snapshot name {n[:40]}... was never uploaded')
                    continue
                items.append(('IName', self.snap_terms[n][0]))
        # key files and printed keys / config
        for u in h['keys']:
            if h['to_file'][u]:
                items.append(('IKey', self.key_term(u, h['keyfiles'][u])))
        dec = json.JSONDecoder()
        order = iter([u for u in ('owner', 'shared', 'indep') if u in h['keys']])
        for cmd, out, err in h['outputs']:
            if cmd not in ('init', 'add-key'):
                if out.strip():
                    self.problems.append(f'{cmd} printed to stdout: {out[:60]!r}')
                continue
            u = next(order)
            pos, objs = 0, []
            text = out.strip()
            while pos < len(text):
                o, end = dec.raw_decode(text, pos)
                objs.append(text[pos:end])
                pos = end
                while pos < len(text) and text[pos].isspace():
                    pos += 1
            if cmd == 'init':
                if not objs or refreader.parse_json(objs[0]) != refreader.parse_json(h['config']):
                    self.problems.append('init did not print exactly the config first')
                else:
                    items.append(('IOut', cfg_atom))
                objs = objs[1:]
            if h['to_file'][u]:
                if objs:
                    self.problems.append(f'{cmd} printed something besides the config although the key went to a file')
            else:
                if len(objs) != 1:
                    self.problems.append(f'{cmd} printed {len(objs)} objects, expected the key')
                else:
                    items.append(('IOut', self.key_term(u, objs[0].encode())))
        return items

    # ---- the model's program for the same history
    def family_def(self, u):
        k = self.keys[u]
        L, a = self.lifters[u], self.atoms
        return ('{| fm_shared := %s; fm_salt := %s; fm_mac := %s; fm_chunker := %s; fm_shared_kdf_cfg := %s; fm_mac_cfg := %s |}' % (
            refreader.coq(L.kt['shared']), refreader.coq(L.kt['salt']), refreader.coq(L.kt['mac']), refreader.coq(L.kt['chunker']),
            refreader.coq(a.atom('setting', json.dumps(k.private['shared_kdf'], sort_keys=True))),
            refreader.coq(a.atom('setting', json.dumps(k.private['mac'], sort_keys=True)))))

    def user_def(self, u):
        k = self.keys[u]
        a = self.atoms
        return '{| u_pw := %s; u_salt := %s; u_kdf_cfg := %s |}' % (
            refreader.coq(a.atom('key', k.password)), refreader.coq(a.atom('setting', k.salt)),
            refreader.coq(a.atom('setting', json.dumps(k.kdf, sort_keys=True))))

    def model_text(self, items):
        h = self.h
        lines = ['From Coq Require Import List NArith Bool.', 'From Replicat Require Import Model.Crypto Model.Objects Model.Emit.',
                 'Import ListNotations.', 'Local Open Scope N_scope.', 'Set Printing Depth 1000000.']
        for u in self.keys:
            lines.append(f'Definition F_{u} : family := {self.family_def(u)}.')
            lines.append(f'Definition U_{u} : user := {self.user_def(u)}.')
        cmds = [f'CInit ({refreader.coq(self.atoms.atom("setting", h["config"]))}) F_owner U_owner {str(h["to_file"]["owner"]).lower()}',
                ] + [f'CAddKey F_{u} U_{u} {str(h["to_file"][u]).lower()}' for u in ('shared', 'indep') if u in h['keys']]
        tables = {}
        for v, u in h['snapshots']:
            loc, obj, parsed, _ = self.snap_terms[v.location]
            L = self.lifters[u]
            chunks = [L.digest_term(d, self.plains.get(d))[1] for d in parsed['chunks']]
            tables[v.name] = parsed['chunks']
            data_t = L.data_term(parsed['data'])            # Pair info (tlist files)
            info = data_t[1]
            files = []
            for f in parsed['data']['files']:
                refs = '[' + '; '.join(f'({r["index"]}, {r["range"][0]}, {r["range"][1]})' for r in sorted(f['chunks'], key=lambda r: r['counter'])) + ']'
                fd = refreader.coq(('Hash', self.atoms.atom('file', f['digest']))) if f.get('digest') is not None else 'Nil'
                files.append('{| f_path := %s; f_refs := %s; f_digest := %s; f_meta := %s |}' % (
                    refreader.coq(self.atoms.atom('path', f['path'])), refs, fd,
                    refreader.coq(self.atoms.atom('meta', json.dumps(f['metadata'], sort_keys=True)))))
            cmds.append(f'CSnapshot F_{u} U_{u} [' + '; '.join(refreader.coq(c) for c in chunks) + f'] ({refreader.coq(info)}) [' + '; '.join(files) + ']')
        # delete: the named snapshot, and the digests no remaining snapshot of the family references (computed by the reader)
        deleted = h['deleted']
        fam = self.family_of('owner')
        keep = set()
        for v, u in h['snapshots']:
            if v.name != deleted and self.family_of(u) == fam:
                keep |= set(tables[v.name])
        gone = [d for d in tables[deleted] if d not in keep]
        dloc = next(self.snap_terms[v.location] for v, u in h['snapshots'] if v.name == deleted)
        L = self.lifters['owner']
        cmds.append('CDelete F_owner U_owner [' + refreader.coq(dloc[0][1]) + '] [' +
                    '; '.join(refreader.coq(L.digest_term(d, self.plains.get(d))) for d in gone) + ']')
        cmds.append('CClean F_owner U_owner')
        lines.append('Definition prog : list cmd := [\n  ' + ';\n  '.join(cmds) + '\n].')
        lines.append('Eval vm_compute in emitted 0 prog.')
        lines.append(f'Definition sa (i : N) : bool := N.ltb i {SECRET_LIMIT}.')
        lifted_terms = []
        for it in items:
            for a in it[1:]:
                if isinstance(a, tuple) and a[0] in ('LChunk', 'LSnap'):
                    lifted_terms += [a[1], a[2]]
                elif isinstance(a, tuple) and a[0] == 'LOther':
                    continue
                else:
                    lifted_terms.append(a)
        lines.append('Definition lifted : list term := [\n  ' + ';\n  '.join(refreader.coq(t) for t in lifted_terms) + '\n].')
        lines.append('Eval vm_compute in map (leaks sa) lifted.')
        return '\n'.join(lines) + '\n', lifted_terms


def norm_item(it):
    return json.dumps(refreader.strip_nonces(it), sort_keys=True)


# --------------------------------------------------------------------------- taint scan
def b64_forms(secret):
    out = set()
    for enc in (base64.standard_b64encode, base64.urlsafe_b64encode):
        for shift in range(3):
            e = enc(b'\0' * shift + secret)
            inner = e[(4 if shift else 0):len(e) - 4]       # characters that do not depend on the neighbours
            if len(inner) >= 12:
                out.add(inner)
    return out


def forms(secret):
    out = {('raw', secret), ('hex', secret.hex().encode()), ('HEX', secret.hex().upper().encode())}
    out |= {('base64', f) for f in b64_forms(secret)}
    return out


def secrets_of(h):
    """every secret the harness knows, gathered without relying on the shape of what was written"""
    rr = refreader.RefReader(h['config'])
    sec = []
    keys = {}
    for u in h['keys']:
        try:
            k = keys[u] = rr.open_key(h['keys'][u], h['passwords'][u])
        except Exception:
            sec.append(('password', h['passwords'][u]))
            try:        # the private section may not be encrypted at all
                priv = refreader.parse_json(h['keys'][u])['private']
                if isinstance(priv, dict):
                    sec += [('shared key', priv['shared_key']), ('MAC key', priv['mac_params']), ('chunker key', priv['chunker_params'])]
            except Exception:
                pass
            continue
        sec += [('password', k.password), ('user key', k.userkey), ('shared key', k.shared_key), ('MAC key', k.mac_key),
                ('chunker key', k.chunker_key), ('shared KDF salt', k.shared_salt)]
    for files in h['files']:
        for p, data in files.items():
            sec += [('path', p.encode()), ('path', Path(p).name.encode()), ('path', Path(p).parent.name.encode())]
            for off in range(0, max(len(data) - 23, 0), 24):        # every chunk of >= 47 bytes contains one of these blocks
                sec.append(('file bytes', data[off:off + 24]))
            sec.append(('file digest', rr.hash(data)))
            try:
                import os
                sec.append(('metadata', str(h['mtimes'][p]).encode()))
            except Exception:
                pass
    for n in h['notes']:
        if n:
            sec.append(('note', n.encode()))
    # chunk digests and timestamps, as far as the snapshots can be read
    for (v, u) in h['snapshots']:
        for d in v.chunks:
            sec.append(('chunk digest', bytes(d)))
        sec.append(('metadata', str(v.data['utc_timestamp']).encode()))
        for f in v.data['files']:
            if f.get('metadata'):
                sec.append(('metadata', str(f['metadata']['st_mtime_ns']).encode()))
    seen, out = set(), []
    for k, s_ in sec:
        s_ = bytes(s_)
        if len(s_) >= 8 and (k, s_) not in seen:
            seen.add((k, s_))
            out.append((k, s_))
    return out


def blobs(data):
    """the bytes themselves and every {"!b": ...} payload inside JSON"""
    out = [data]
    try:
        def walk(o):
            if isinstance(o, bytes):
                out.append(o)
                try:
                    walk(refreader.parse_json(o))
                except Exception:
                    pass
            elif isinstance(o, dict):
                for v in o.values():
                    walk(v)
            elif isinstance(o, list):
                for v in o:
                    walk(v)
        walk(refreader.parse_json(data))
    except Exception:
        pass
    return out


def haystacks(h):
    hs = []
    for e in h['log']:
        if e[0] == 'upload':
            hs.append(('object name', e[1].encode()))
            hs.append(('object name', e[1].replace('/', '').encode()))      # the tag is spread over directory levels
            for b in blobs(e[2]):
                hs.append(('object ' + e[1].split('/')[0], b))
        elif e[0] in ('exists', 'delete', 'download'):
            hs.append(('object name', e[1].encode()))
            hs.append(('object name', e[1].replace('/', '').encode()))
    for u, data in h['keyfiles'].items():
        for b in blobs(data):
            hs.append(('key file', b))
    for cmd, out, err in h['outputs']:
        for b in blobs(out.encode()) if out.strip().startswith('{') else [out.encode()]:
            hs.append((f'stdout of {cmd}', b))
        hs.append((f'stderr of {cmd}', err.encode()))
    # de-duplicate
    seen, out = set(), []
    for k, b in hs:
        if (k, b) not in seen:
            seen.add((k, b))
            out.append((k, b))
    return out


def plaintexts_of(h):
    """plaintexts that get encrypted or named: whole files, chunks, paths, notes, and - as far as the independent reader
    can open them - the snapshot tables / private data / key private sections"""
    out = []
    for files in h['files']:
        for p, data in files.items():
            out += [('file', data), ('path', p.encode())]
    for n in h['notes']:
        if n:
            out.append(('note', n.encode()))
    try:
        rr = refreader.RefReader(h['config'])
        keys = {u: rr.open_key(h['keys'][u], h['passwords'][u]) for u in h['keys']}
        objects = {e[1]: e[2] for e in h['log'] if e[0] == 'upload'}
        for (v, u) in h['snapshots']:
            k = keys.get(u)
            try:
                s_ = rr.read_snapshot(k, objects[v.location])
                out += [('snapshot table', s_.get('table_plain') or b''), ('snapshot data', s_.get('data_plain') or b'')]
            except Exception:
                pass
            for d in v.chunks:
                for name, data in objects.items():
                    if name.startswith('data/') and k is not None:
                        pt = rr.read_chunk(k, data, bytes(d))
                        if pt is not None:
                            out.append(('chunk', pt))
                            break
        for u, k in keys.items():
            pt = rr.aead_open(k.private_ct, k.userkey)
            if pt:
                out.append(('key private section', pt))
            out += [('user key', k.userkey), ('shared key', k.shared_key), ('MAC key', k.mac_key), ('chunker key', k.chunker_key),
                    ('shared KDF salt', k.shared_salt)] + ([('password', k.password)] if k.password else [])
    except Exception:
        pass
    seen, res = set(), []
    for k, b in out:
        if b and (k, b) not in seen:
            seen.add((k, b))
            res.append((k, b))
    return res


def unkeyed_digests(data):
    """(algorithm, digest) for every hash the adapters offer, without any key: blake2b in every length of at least 12 bytes,
    sha2 and sha3 in all four widths"""
    import hashlib
    out = [(f'blake2b-{n}', hashlib.blake2b(data, digest_size=n).digest()) for n in range(12, 65)]
    for bits in (224, 256, 384, 512):
        out.append((f'sha2-{bits}', getattr(hashlib, f'sha{bits}')(data).digest()))
        out.append((f'sha3-{bits}', getattr(hashlib, f'sha3_{bits}')(data).digest()))
    return out


def taint_scan(h):
    hits, n = [], 0
    hay = haystacks(h)
    for kind, s in secrets_of(h):
        for form, needle in forms(s):
            for where, b in hay:
                n += 1
                if needle in b:
                    hits.append({'secret': kind, 'form': form, 'where': where})
    # anything stored that equals an UNKEYED hash of a plaintext links equal contents across keys and repositories and
    # confirms guesses (the repository's own content digests are covered above as 'chunk digest' / 'file digest')
    known = {s for _, s in secrets_of(h)}
    for what, pt in plaintexts_of(h):
        for alg, dg in unkeyed_digests(pt):
            if dg in known:
                continue
            for where, b in hay:
                n += 1
                if dg in b or dg.hex().encode() in b:
                    hits.append({'secret': f'unkeyed {alg} digest of a {what}', 'form': 'raw' if dg in b else 'hex', 'where': where})
    return hits, n


# --------------------------------------------------------------------------- one case
def check_case(ctx, rep: Report, h, encrypted=True):
    cid = h['cid']
    label = f'{h["cipher"][0] if h["cipher"] else "none"}{"-" + str(h["cipher"][1]) if h["cipher"] and h["cipher"][1] else ""}' \
            f'{"/nonce " + str(h["cipher"][2]) if h["cipher"] and len(h["cipher"]) > 2 else ""}/{(h["hashing"] or {"name": "blake2b"})["name"]}'
    env = h.get('env') or environment(cid)
    label += f' [cache: {env["cache"]}{", debug logging" if env["debug"] else ""}{", one chunk deletion refused" if env.get("refuse_delete") else ""}{", blake2b user KDF" if env.get("user_kdf") == "blake2b" else ""}]'
    replay = {'cid': cid, 'cipher': h['cipher'], 'hashing': h['hashing'], 'seed': h['seed'], 'environment': env}
    rep.count('config:' + label.split(' [')[0])
    rep.count('env:cache=' + env['cache'])
    for u_, p_ in sorted(h.get('passwords', {}).items()):
        rep.count('password:' + ('empty' if p_ == b'' else 'one NUL byte' if p_ == b'\x00' else 'long' if len(p_) > 200 else 'non-ASCII' if any(b > 127 for b in p_) else 'word'))
    if env['debug']:
        rep.count('env:debug-logging')
    # ---- taint scan (C): model-free, does not depend on the lifting
    hits, n = taint_scan(h)
    rep.evaluations += n
    rep.count('scans', n)
    seen = set()
    for hit in hits:
        key = (hit['secret'], hit['where'])
        if key in seen:
            continue
        seen.add(key)
        rep.violations.append({'what': f'[{label}] {hit["secret"]} found in {hit["form"]} form in {hit["where"]}',
                               'signature': {'secret': hit['secret'], 'where': hit['where']}, 'replay': replay})
    rep.count('primitive encryptions', h.get('primitive_calls', 0))
    for cipher_, times, lens in h.get('primitive_reuse', [])[:1]:
        rep.violations.append({'what': f'[{label}] one (key, nonce) pair was handed to {cipher_} {times} times during the history (plaintext lengths {lens})',
                               'signature': {'secret': 'nonce reuse', 'where': 'primitive'}, 'replay': replay})
    # whatever init / add-key produced must be sealed under the password: an attacker's guesses must not open it
    rr_ = refreader.RefReader(h['config'])
    for u_, kb in sorted(h['keys'].items()):
        real = h['passwords'][u_]
        guesses = [g for g in (b'', b'password', b'\x00', real[:64], real[:1], real + b'x', real[:-1], h['passwords'].get('owner' if u_ != 'owner' else 'shared', b'?'))
                   if g != real and not (env.get('user_kdf', 'scrypt') == 'scrypt' and g.rstrip(b'\x00') == real.rstrip(b'\x00'))]
        # (scrypt = PBKDF2-HMAC-SHA256 inside: HMAC pads its key with NUL bytes, so passwords that differ only in trailing
        #  NUL bytes are the same password for it - a property of the primitive, not a wrong guess)
        for source in [kb] + ([h['keyfiles'][u_]] if u_ in h['keyfiles'] else []):
            opened = [g for g in guesses if rr_.opens_with(source, g)]
            if opened:
                rep.violations.append({'what': f'[{label}] the key of {u_} (password of {len(real)} bytes, user KDF {env.get("user_kdf", "scrypt")}) opens with a WRONG '
                                               f'password: {opened[0][:20]!r}{"..." if len(opened[0]) > 20 else ""} ({len(opened[0])} bytes)',
                                       'signature': {'secret': 'key opens with a wrong password', 'where': 'key'}, 'replay': replay})
                break
    if h.get('failures'):
        # a command of the honest history failed on the implementation: what was written has been scanned, nothing to lift
        rep.case((cid, h['seed']), nontrivial=False)
        rep.disagreements.append({'what': f'[{label}] commands of the honest history failed: {"; ".join(h["failures"])[:400]}', 'replay': replay})
        return
    try:
        lift = Lift(h)
        items = lift.lift_all()
    except Exception as e:  # the written format is not what the documented format says
        rep.disagreements.append({'what': f'[{label}] lifting what was written failed: {type(e).__name__}: {e}', 'replay': replay})
        rep.case((cid, h['seed']), nontrivial=False)
        return
    for p in lift.problems:
        rep.disagreements.append({'what': f'[{label}] {p}', 'replay': replay})
    rep.case((label, h['seed']), nontrivial=lift.n_chunks >= 4 and len(lift.snap_terms) >= 2)
    # ---- nonces: every Enc node performed once; distinct (key, plaintext) pairs must not share a nonce
    enc_nodes = set()

    def nodes(t):
        if isinstance(t, tuple):
            if t[0] == 'Enc':
                enc_nodes.add(json.dumps(t))
            for a in t[1:]:
                nodes(a)
    for it in items:
        nodes(it)
    per_nonce = {}
    for n_ in enc_nodes:
        per_nonce.setdefault(json.loads(n_)[2], []).append(n_)
    for nonce, lst in per_nonce.items():
        if len(lst) > 1:
            rep.violations.append({'what': f'[{label}] one nonce value is used by {len(lst)} different encryptions',
                                   'signature': {'secret': 'nonce reuse', 'where': 'ciphertexts'}, 'replay': replay})
            break
    rep.count('ciphertexts', len(enc_nodes))
    # ---- model comparison (B2)
    text, lifted_terms = lift.model_text(items)
    res = core.coq_eval_files([(f'c05_{cid}', text)])
    rc, out = res[f'c05_{cid}']
    if rc != 0:
        rep.disagreements.append({'what': f'[{label}] the model could not be evaluated: {out[-1200:]}', 'replay': replay})
        return
    vals = core.parse_coq_values(out)
    model_items = refreader.unctor(core.parse_coq_term(vals[0]))
    leaks = core.parse_coq_term(vals[1])
    mi = {norm_item(i) for i in model_items}
    li = {norm_item(i) for i in items}
    rep.traces_validated += len(li)
    rep.evaluations += len(li)
    if env.get('refuse_delete'):
        # the failing delete / clean stop early: which of the remaining deletions were still requested depends on the
        # schedule, so the names of the model that were not sent are not a difference; everything that WAS sent must be expected
        mi = {x for x in mi if x in li or not x.startswith('["IName"')}
    if mi != li:
        only_m = sorted(mi - li)[:2]
        only_l = sorted(li - mi)[:2]
        rep.disagreements.append({'what': f'[{label}] emitted items differ: {len(mi - li)} only in the model (e.g. {str(only_m)[:300]}), '
                                          f'{len(li - mi)} only written by the implementation (e.g. {str(only_l)[:300]})', 'replay': replay})
    if any(leaks):
        bad = [refreader.coq(t)[:200] for t, l in zip(lifted_terms, leaks) if l][:2]
        rep.violations.append({'what': f'[{label}] a written term exposes a secret according to the secrecy predicate: {bad}',
                               'signature': {'secret': 'symbolic', 'where': 'lifted term'}, 'replay': replay})
    rep.sample({'configuration': label, 'items': len(li), 'chunk objects': lift.n_chunks, 'snapshots': len(lift.snap_terms),
                'secrets scanned': len(secrets_of(h)), 'example item': refreader.coq(items[1] if len(items) > 1 else items[0])[:300]})


def scanner_selfcheck(ctx, rep):
    """the same scanner on an unencrypted repository must find file bytes, paths and digests"""
    rng = ctx.rng
    root = Path(ctx.scratch) / 'c05-plain'
    tree = root / 'confidential-plain'
    files = repolab.make_tree(rng, tree, 3, maxlen=500)
    be = MemBackend()
    cl = repolab.Client(be)
    assert cl.init(repolab.settings_for(None)).ok
    s = cl.snapshot([tree], note='note-plain-visible')
    assert s.ok
    hay = [('object', d) for n, d in be.objects.items()] + [('name', n.encode()) for n in be.objects]
    found = set()
    rr = refreader.RefReader(be.objects['config'])
    for p, data in files.items():
        for kind, sec in (('path', Path(p).name.encode()), ('file bytes', data[:32]), ('file digest', rr.hash(data)), ('note', b'note-plain-visible')):
            for form, needle in forms(sec):
                if any(needle in b for _, b in hay):
                    found.add(kind)
    missing = {'path', 'file bytes', 'file digest', 'note'} - found
    if missing:
        rep.disagreements.append({'what': f'scanner self-check: secrets {sorted(missing)} not found in an UNENCRYPTED repository', 'replay': None})
    rep.notes.append(f'scanner self-check on an unencrypted repository found: {sorted(found)}')
    shutil.rmtree(root, ignore_errors=True)


def vanishing_chunk_probe(ctx, rep):
    """A chunk that occurs twice in one snapshot stream while its first copy disappears in between (another client's
    clean removes chunks no snapshot references yet): whatever is uploaded the second time must again be ciphertext."""
    import asyncio, contextlib, io, random, shutil
    from replicat.repository import Repository
    from harness.memstore import MemBackend
    for cname, cipher in (('aes_gcm', {'name': 'aes_gcm', 'key_bits': 256}), ('chacha20_poly1305', {'name': 'chacha20_poly1305'})):
        rng = random.Random(ctx.rng.randrange(1 << 30))
        root = Path(ctx.scratch) / f'c05-vanish-{cname}'
        root.mkdir(parents=True, exist_ok=True)
        X = rng.randbytes(256)
        fillers = [rng.randbytes(256) for _ in range(30)]
        (root / 'f.bin').write_bytes(X + b''.join(fillers) + X)

        class Vanishing(MemBackend):
            def __init__(self):
                super().__init__()
                self.uploads = 0
                self.first = None

            def upload_stream(self, name, stream, length, chunk_size=128_000):
                super().upload_stream(name, stream, length, chunk_size)
                if name.startswith('data/'):
                    self.uploads += 1
                    if self.first is None:
                        self.first = name
                    if self.uploads == 12 and self.first in self.objects:
                        del self.objects[self.first]          # "clean" by another client: not referenced by any snapshot yet

        be = Vanishing()

        async def go():
            r = Repository(be, concurrent=1, quiet=True, cache_directory=None)
            await r.init(password=b'pw', settings={'chunking': {'min_length': 256, 'max_length': 256}, 'hashing': {'name': 'blake2b', 'length': 32},
                                                   'encryption': {'cipher': dict(cipher), 'kdf': {'name': 'scrypt', 'n': 4, 'r': 1, 'p': 1}}})
            await r.snapshot(paths=[root / 'f.bin'])
        try:
            with contextlib.redirect_stdout(io.StringIO()), contextlib.redirect_stderr(io.StringIO()):
                asyncio.run(go())
        except Exception as e:
            rep.notes.append(f'vanishing-chunk probe ({cname}) did not complete: {type(e).__name__}')
            shutil.rmtree(root, ignore_errors=True)
            continue
        rep.case(('vanishing-chunk', cname), nontrivial=True)
        for name, data in be.objects.items():
            for label, secret in [('chunk X', X)] + [(f'filler {i}', f) for i, f in enumerate(fillers[:3])]:
                if secret[:48] in data or secret[100:148] in data:
                    rep.violations.append({'what': f'[{cname}] plaintext of {label} found at rest in object {name[:30]}... ({len(data)} bytes) after its first copy vanished mid-snapshot',
                                           'signature': {'kind': 'plaintext_at_rest', 'scenario': 'vanishing_chunk'},
                                           'replay': {'probe': 'vanishing_chunk', 'cipher': cname}})
        shutil.rmtree(root, ignore_errors=True)


INIT_SETTINGS = [
    ('no settings', None), ('empty settings', {}),
    ('only hashing', {'hashing': {'name': 'sha2', 'bits': 256}}), ('only chunking', {'chunking': dict(repolab.SMALL_CHUNKING)}),
    ('hashing and chunking', {'hashing': {'name': 'blake2b', 'length': 32}, 'chunking': dict(repolab.SMALL_CHUNKING)}),
    ('empty encryption section', {'encryption': {}}),
    ('only cipher', {'encryption': {'cipher': {'name': 'chacha20_poly1305'}}}),
    ('only kdf', {'encryption': {'kdf': {'name': 'scrypt', 'n': 4}}}),
    ('chunking and cipher', {'chunking': dict(repolab.SMALL_CHUNKING), 'encryption': {'cipher': {'name': 'aes_gcm', 'key_bits': 128}}}),
]


class CheapDefaultKdf:
    """The default user KDF (scrypt, n = 2^20, 1 GiB) is far too expensive to run a dozen times; its default cost parameter
    is lowered from outside for the duration of the probe (settings that name a KDF are not affected)."""

    def __enter__(self):
        from replicat.utils import adapters
        self.fn = adapters.scrypt.__init__
        self.saved = dict(self.fn.__kwdefaults__)
        self.fn.__kwdefaults__['n'] = 4
        return self

    def __exit__(self, *exc):
        self.fn.__kwdefaults__.clear()
        self.fn.__kwdefaults__.update(self.saved)


def init_settings_probe(ctx, rep):
    """A repository initialised WITH a password and without `encryption: None` is encrypted, whatever else the settings
    mention: the config has the encryption section, a key is produced, and nothing that is stored afterwards is tainted."""
    import copy, random
    with CheapDefaultKdf():
        for idx, (label, settings) in enumerate(INIT_SETTINGS):
            seed = ctx.rng.randrange(1 << 30)
            rng = random.Random(seed)
            root = Path(ctx.scratch) / f'c05-init-{idx}'
            tree = root / f'confidential-{rng.randbytes(4).hex()}'
            files = repolab.make_tree(rng, tree, 2, maxlen=600)
            files = {str(Path(p).rename(Path(p).with_name(f'secretname{i}-{rng.randbytes(4).hex()}.dat'))): d for i, (p, d) in enumerate(sorted(files.items()))}
            be = MemBackend()
            pw = b'pass-init-' + rng.randbytes(6).hex().encode()
            note = f'note-init-{rng.randbytes(5).hex()}'
            cl = repolab.Client(be, password=pw)
            replay = {'init_settings': label, 'settings': settings}
            what = f'init with a password and {label} ({json.dumps(settings)})'
            rep.case(('init-settings', label, seed), nontrivial=True)
            rep.count('probe:init-settings')
            o = cl.init(copy.deepcopy(settings))
            outputs = [('init', o.stdout, o.stderr)]
            if not o.ok:
                rep.disagreements.append({'what': f'{what} failed: {o.detail}', 'replay': replay})
                shutil.rmtree(root, ignore_errors=True)
                continue
            config = refreader.parse_json(be.objects['config'])
            if config.get('encryption') is None or o.value.key is None:
                rep.violations.append({'what': f'{what}: ' + ('the config has no encryption section' if config.get('encryption') is None else 'no key was produced')
                                               + ' - the repository is not encrypted although encryption was never disabled',
                                       'signature': {'secret': 'encryption silently off', 'where': 'config'}, 'replay': replay})
            s1 = cl.snapshot([tree], note=note)
            outputs.append(('snapshot', s1.stdout, s1.stderr))
            if not s1.ok:
                rep.disagreements.append({'what': f'{what}: the first snapshot failed: {s1.detail}', 'replay': replay})
            h = {'cid': 1000 + idx, 'config': be.objects['config'], 'keys': {'owner': cl.key} if cl.key else {}, 'passwords': {'owner': pw},
                 'to_file': {'owner': False}, 'keyfiles': {}, 'outputs': outputs, 'log': list(be.log),
                 'snapshots': [(s1.value, 'owner')] if s1.ok else [], 'files': [files], 'notes': [note]}
            hits, cnt = taint_scan(h)
            rep.evaluations += cnt
            seen = set()
            for hit in hits:
                if (hit['secret'], hit['where']) in seen:
                    continue
                seen.add((hit['secret'], hit['where']))
                rep.violations.append({'what': f'{what}: {hit["secret"]} found in {hit["form"]} form in {hit["where"]}',
                                       'signature': {'secret': hit['secret'], 'where': hit['where'], 'scenario': 'init-settings'}, 'replay': replay})
            shutil.rmtree(root, ignore_errors=True)


REINIT = [('an unencrypted repository', None, None), ('a repository with another cipher and hash', ('chacha20_poly1305', None), {'name': 'sha2', 'bits': 256})]


def reinit_probe(ctx, rep):
    """A location that already holds a repository (unencrypted, or encrypted with other settings and another password) is
    initialised AGAIN with a password; a fresh session with the new key then takes a snapshot.  The location is now an
    encrypted repository with the new settings: its config says so, and nothing written after the re-init is tainted."""
    import random
    for idx, (what0, cipher0, hashing0) in enumerate(REINIT):
        seed = ctx.rng.randrange(1 << 30)
        rng = random.Random(seed)
        root = Path(ctx.scratch) / f'c05-reinit-{idx}'
        old_tree = root / 'earlier'
        repolab.make_tree(rng, old_tree, 2, maxlen=300)
        tree = root / f'confidential-{rng.randbytes(4).hex()}'
        files = repolab.make_tree(rng, tree, 2, maxlen=600)
        files = {str(Path(p).rename(Path(p).with_name(f'secretname{i}-{rng.randbytes(4).hex()}.dat'))): d for i, (p, d) in enumerate(sorted(files.items()))}
        be = MemBackend()
        replay = {'reinit': idx}
        label = f're-init of a location that holds {what0}'
        rep.case(('reinit', idx, seed), nontrivial=True)
        rep.count('probe:reinit')
        first = repolab.Client(be, password=b'earlier-password' if cipher0 else None)
        assert first.init(repolab.settings_for(cipher0, hashing=hashing0)).ok
        assert first.snapshot([old_tree], note='earlier').ok
        mark = len(be.log)
        pw = b'pass-reinit-' + rng.randbytes(6).hex().encode()
        note = f'note-reinit-{rng.randbytes(5).hex()}'
        second = repolab.Client(be, password=pw)
        o = second.init(repolab.settings_for(('aes_gcm', None), hashing={'name': 'blake2b', 'length': 32}))
        outputs = [('init', o.stdout, o.stderr)]
        if not o.ok:
            rep.notes.append(f'{label}: the second init is refused ({o.detail[:80]})')       # refusing is fine: nothing is written
            shutil.rmtree(root, ignore_errors=True)
            continue
        config = refreader.parse_json(be.objects['config'])
        if config.get('encryption') is None or o.value.key is None:
            rep.violations.append({'what': f'{label} with a password: ' + ('the config at the location has no encryption section' if config.get('encryption') is None
                                                                           else 'no key was produced') + ' - what is stored from now on is not encrypted',
                                   'signature': {'secret': 'encryption silently off', 'where': 'config', 'scenario': 'reinit'}, 'replay': replay})
        fresh = repolab.Client(be, password=pw, key=second.key)
        s1 = fresh.snapshot([tree], note=note)
        outputs.append(('snapshot', s1.stdout, s1.stderr))
        if not s1.ok:
            rep.disagreements.append({'what': f'{label}: the snapshot of the fresh session failed: {s1.detail}', 'replay': replay})
        h = {'cid': 2000 + idx, 'config': be.objects['config'], 'keys': {'owner': second.key} if second.key else {}, 'passwords': {'owner': pw},
             'to_file': {'owner': False}, 'keyfiles': {}, 'outputs': outputs, 'log': list(be.log[mark:]),
             'snapshots': [(s1.value, 'owner')] if s1.ok else [], 'files': [files], 'notes': [note]}
        hits, cnt = taint_scan(h)
        rep.evaluations += cnt
        seen = set()
        for hit in hits:
            if (hit['secret'], hit['where']) in seen:
                continue
            seen.add((hit['secret'], hit['where']))
            rep.violations.append({'what': f'{label}, then a snapshot by a fresh session: {hit["secret"]} found in {hit["form"]} form in {hit["where"]}',
                                   'signature': {'secret': hit['secret'], 'where': hit['where'], 'scenario': 'reinit'}, 'replay': replay})
        shutil.rmtree(root, ignore_errors=True)


def live_sessions_case(ctx, rep, cid, hashing, chunking):
    """Several repositories of one user served by ONE process: an unencrypted repository and two encrypted ones with
    different keys, each through a long-lived Repository object, commands interleaved over the same file contents (the
    chunking is chosen so that equal contents give equal chunks in all three).  Everything written to the two encrypted
    backends is taint-scanned and lifted under that repository's own key."""
    import asyncio, contextlib, io, random
    from replicat.repository import Repository
    seed = ctx.rng.randrange(1 << 30)
    rng = random.Random(seed)
    root = Path(ctx.scratch) / f'c05-live-{cid}'
    tree = root / f'confidential-{rng.randbytes(4).hex()}'
    files = repolab.make_tree(rng, tree, 3, maxlen=900)
    files = {str(Path(p).rename(Path(p).with_name(f'secretname{i}-{rng.randbytes(4).hex()}.dat'))): d for i, (p, d) in enumerate(sorted(files.items()))}
    specs = {'plain': None, 'enc1': ('aes_gcm', None), 'enc2': ('chacha20_poly1305', None)}
    order = [list(specs), ['enc2', 'plain', 'enc1']][cid % 2]      # who snapshots first alternates
    pw = {n: f'pass-{n}-{rng.randbytes(5).hex()}'.encode() for n in specs}
    notes = {n: f'note-{n}-{rng.randbytes(4).hex()}' for n in specs}
    bes = {n: MemBackend() for n in specs}
    got = {n: {'snapshots': [], 'key': None} for n in specs}
    replay = {'live': {'cid': cid, 'hashing': hashing, 'chunking': chunking}}
    label = f'live sessions [{"/".join(order)}; {(hashing or {"name": "blake2b"})["name"]}; chunking {chunking}]'

    async def go():
        repos = {}
        for n in specs:
            r = repos[n] = Repository(bes[n], concurrent=2, quiet=True, cache_directory=None)
            res = await r.init(password=pw[n] if specs[n] else None, settings=repolab.settings_for(specs[n], hashing=hashing, chunking=chunking))
            got[n]['key'] = repolab.serialize_key(res.key) if res.key is not None else None
        for rnd in range(2):
            for n in order:
                v = await repos[n].snapshot(paths=[tree], note=notes[n] if rnd == 0 else None)
                got[n]['snapshots'].append(v)
            victim = sorted(files)[0]
            Path(victim).write_bytes(rng.randbytes(500))
            if rnd == 0:
                # keys are handed out from the very objects that go on taking snapshots
                cheap = {'encryption': {'kdf': {'name': 'scrypt', 'n': 4}}}
                for n in order:
                    if specs[n]:
                        for shared in (True, False):
                            await repos[n].add_key(password=f'extra-{n}-{shared}'.encode(), settings={'encryption': {'kdf': dict(cheap['encryption']['kdf'])}}, shared=shared)
        for n in order:
            await repos[n].delete_snapshots([got[n]['snapshots'][0].name], confirm=False)
            await repos[n].clean()
    files2 = None
    try:
        with contextlib.redirect_stdout(io.StringIO()), contextlib.redirect_stderr(io.StringIO()), PrimitiveLog() as plog:
            asyncio.run(go())
        files2 = {p: Path(p).read_bytes() for p in files}
    except Exception as e:  # noqa: BLE001
        rep.disagreements.append({'what': f'[{label}] the interleaved sessions could not be run on the implementation: {type(e).__name__}: {str(e)[:300]}',
                                  'replay': replay})
    victim = sorted(files)[0]
    mid = dict(files)
    shutil.rmtree(root, ignore_errors=True)
    for n in ('enc1', 'enc2'):
        if got[n]['key'] is None or not got[n]['snapshots']:
            continue
        h = {'cid': cid, 'config': bes[n].objects.get('config') or next(e[2] for e in bes[n].log if e[0] == 'upload' and e[1] == 'config'),
             'keys': {'owner': got[n]['key']}, 'passwords': {'owner': pw[n]}, 'to_file': {'owner': False}, 'keyfiles': {}, 'outputs': [],
             'log': list(bes[n].log), 'snapshots': [(v, 'owner') for v in got[n]['snapshots']], 'files': [files, files2 or {}], 'notes': [notes[n]]}
        rep.case((label, n, seed), nontrivial=len(got[n]['snapshots']) >= 2)
        rep.count('scenario:live-sessions')
        hits, cnt = taint_scan(h)
        rep.evaluations += cnt
        seen = set()
        for hit in hits:
            if (hit['secret'], hit['where']) in seen:
                continue
            seen.add((hit['secret'], hit['where']))
            rep.violations.append({'what': f'[{label}] repository {n}: {hit["secret"]} found in {hit["form"]} form in {hit["where"]}',
                                   'signature': {'secret': hit['secret'], 'where': hit['where'], 'scenario': 'live'}, 'replay': replay})
        try:
            lift = Lift(h)
            lift.lift_all()
            for p_ in lift.problems:
                rep.disagreements.append({'what': f'[{label}] repository {n}: {p_}', 'replay': replay})
        except Exception as e:  # noqa: BLE001
            rep.disagreements.append({'what': f'[{label}] repository {n}: lifting what was written failed: {type(e).__name__}: {e}', 'replay': replay})
    if files2 is not None:
        for cipher_, times, lens in plog.reused()[:1]:
            rep.violations.append({'what': f'[{label}] one (key, nonce) pair was handed to {cipher_} {times} times (plaintext lengths {lens})',
                                   'signature': {'secret': 'nonce reuse', 'where': 'primitive', 'scenario': 'live'}, 'replay': replay})


LIVE_SETUPS = [(None, {'min_length': 128, 'max_length': 128}), ({'name': 'sha2', 'bits': 256}, {'min_length': 256, 'max_length': 256}),
               ({'name': 'blake2b', 'length': 32}, dict(repolab.SMALL_CHUNKING))]


def live_sessions(ctx, rep):
    for cid, (hashing, chunking) in enumerate(LIVE_SETUPS[:ctx.scale(2, 3)]):
        live_sessions_case(ctx, rep, cid, hashing, chunking)


class PrimitiveLog:
    """Records every (cipher, key, nonce, length) handed to the AEAD primitives while active: the classes of
    cryptography.hazmat.primitives.ciphers.aead are replaced by recording fronts (the adapters look them up there on
    every call)."""
    NAMES = ('AESGCM', 'ChaCha20Poly1305')

    def __init__(self):
        self.calls = []

    def __enter__(self):
        from cryptography.hazmat.primitives.ciphers import aead
        self.aead = aead
        self.orig = {n: getattr(aead, n) for n in self.NAMES}
        log = self.calls

        def front(name, orig):
            class Recording:
                def __init__(self, key):
                    self._key = bytes(key)
                    self._inner = orig(key)

                def encrypt(self, nonce, data, associated_data):
                    log.append((name, self._key, bytes(nonce), len(data)))
                    return self._inner.encrypt(nonce, data, associated_data)

                def decrypt(self, nonce, data, associated_data):
                    return self._inner.decrypt(nonce, data, associated_data)

                generate_key = staticmethod(getattr(orig, 'generate_key', None))
            Recording.__name__ = name
            return Recording
        for n, o in self.orig.items():
            setattr(aead, n, front(n, o))
        return self

    def __exit__(self, *exc):
        for n, o in self.orig.items():
            setattr(self.aead, n, o)

    def reused(self):
        """[(cipher, times, lengths)] for every (key, nonce) pair that reached the primitive more than once"""
        seen = {}
        for name, key, nonce, ln in self.calls:
            seen.setdefault((name, key, nonce), []).append(ln)
        return [(k[0], len(v), v[:4]) for k, v in seen.items() if len(v) > 1]


def size_threshold_probe(ctx, rep):
    """Inputs around every size threshold a cipher adapter declares.  Integer class attributes of the adapter (such as
    a per-call limit of the primitive) mark code paths that ordinary data never reaches; the probe scales such an attribute
    down on one instance and encrypts data of 0.5x / 1x / 3x+5 that size, recording what reaches the primitive: whatever the
    path, one (key, nonce) pair must not be used twice.  Without any such attribute only plain sizes are tried."""
    from replicat.utils import adapters
    makers = [('aes_gcm', lambda: adapters.aes_gcm(key_bits=256)), ('chacha20_poly1305', lambda: adapters.chacha20_poly1305())]
    for cname, make in makers:
        probe = make()
        limits = sorted(n for n in dir(type(probe)) if n.isupper() and isinstance(getattr(type(probe), n, None), int)
                        and not isinstance(getattr(type(probe), n), bool) and getattr(type(probe), n) >= 1 << 16)
        for attr in [None] + limits:
            a = make()
            small = 4096
            if attr is not None:
                setattr(a, attr, small)
            key = bytes(range(a.key_bytes))
            for ln in (small // 2, small, 3 * small + 5):
                data = ctx.rng.randbytes(ln)
                with PrimitiveLog() as log:
                    try:
                        ct = a.encrypt(data, key)
                        ok = a.decrypt(ct, key) == data
                    except Exception as e:  # the scaled attribute may not be a size after all
                        rep.notes.append(f'size-threshold probe {cname}.{attr}={small}, {ln} bytes: {type(e).__name__}')
                        continue
                rep.case(('size-threshold', cname, attr, ln), nontrivial=attr is not None)
                rep.count('probe:size-threshold')
                for cipher, times, lens in log.reused():
                    rep.violations.append({
                        'what': f'{cname}: encrypting {ln} bytes with {attr} scaled to {small} hands one (key, nonce) pair to {cipher} {times} times '
                                f'(segments of {lens} bytes): nonce reuse under one key',
                        'signature': {'kind': 'nonce_reuse', 'scenario': 'size_threshold'},
                        'replay': {'probe': 'size_threshold', 'cipher': cname, 'attribute': attr, 'length': ln}})
                if not ok:
                    rep.disagreements.append({'what': f'{cname}: decrypt(encrypt(x)) != x for {ln} bytes with {attr}={small}', 'replay': None})


def duplicated_state_probe(ctx, rep):
    """Cipher adapter state duplicated the way fork / pickling duplicates it: two copies encrypting under one key must not
    produce the same nonce (the nonce may not come from copyable userspace state)."""
    import copy
    from replicat.utils import adapters
    for make in (lambda: adapters.aes_gcm(key_bits=256), lambda: adapters.aes_gcm(key_bits=128), lambda: adapters.chacha20_poly1305()):
        a = make()
        key = bytes(range(a.key_bytes))
        b = copy.deepcopy(a)
        n = a._nonce_bytes if hasattr(a, '_nonce_bytes') else 12
        c1 = [a.encrypt(b'message-%d' % i, key)[:n] for i in range(4)]
        c2 = [b.encrypt(b'other-%d' % i, key)[:n] for i in range(4)]
        rep.case(('duplicated-state', type(a).__name__, a.key_bytes), nontrivial=True)
        if set(c1) & set(c2) or len(set(c1)) < 4:
            rep.violations.append({'what': f'{type(a).__name__}: two copies of one cipher adapter (as after fork) encrypt under the same key with the same nonce',
                                   'signature': {'kind': 'nonce_reuse', 'scenario': 'duplicated_state'}, 'replay': {'probe': 'duplicated_state'}})


def run_one(ctx, rep, seed, cid, cipher, hashing):
    import random
    try:
        h = run_history(random.Random(seed), ctx.scratch, cid, cipher, hashing)
    except PasswordRefused:
        rep.case((cid, seed), nontrivial=False)
        rep.count('init refused the password (too long for the BLAKE2b user KDF)')
        return
    except Exception as e:  # a command of the honest history failed on the implementation
        rep.case((cid, seed), nontrivial=False)
        rep.disagreements.append({'what': f'the history could not be run on the implementation ({cipher}, {hashing}): {type(e).__name__}: {str(e)[:300]}',
                                  'replay': {'cid': cid, 'cipher': cipher, 'hashing': hashing, 'seed': seed}})
        return
    h['seed'] = seed
    check_case(ctx, rep, h)


def run(ctx) -> Report:
    rep = Report(rule=RULE)
    rep.notes.append('indistinguishability of ciphertexts and the quality of os.urandom are outside this technique: the theorem is the symbolic statement only')
    for cid, (cipher, hashing) in enumerate(configs(ctx)):
        seed = ctx.rng.randrange(1 << 30)
        run_one(ctx, rep, seed, cid, cipher, hashing)
    scanner_selfcheck(ctx, rep)
    vanishing_chunk_probe(ctx, rep)
    duplicated_state_probe(ctx, rep)
    size_threshold_probe(ctx, rep)
    live_sessions(ctx, rep)
    init_settings_probe(ctx, rep)
    reinit_probe(ctx, rep)
    return rep


def search(ctx, broken) -> Report:
    import random
    rep = Report(rule=RULE)
    cid = 100
    for rnd in range(3):
        for cipher, hashing in configs(ctx):
            seed = ctx.rng.randrange(1 << 30)
            run_one(ctx, rep, seed, cid, cipher, hashing)
            cid += 1
    vanishing_chunk_probe(ctx, rep)
    duplicated_state_probe(ctx, rep)
    size_threshold_probe(ctx, rep)
    live_sessions(ctx, rep)
    init_settings_probe(ctx, rep)
    reinit_probe(ctx, rep)
    return rep


def replay(ctx, obj):
    import random
    r = obj.get('replay') or {}
    if 'reinit' in r:
        rep = Report(rule=RULE)
        reinit_probe(ctx, rep)
        for v in rep.violations:
            print('VIOLATION-REPRODUCED', v['what'])
        return 1 if rep.violations else 0
    if 'init_settings' in r:
        rep = Report(rule=RULE)
        init_settings_probe(ctx, rep)
        for v in rep.violations:
            print('VIOLATION-REPRODUCED', v['what'])
        return 1 if rep.violations else 0
    if 'live' in r:
        rep = Report(rule=RULE)
        live_sessions_case(ctx, rep, r['live']['cid'], r['live']['hashing'], r['live']['chunking'])
        for v in rep.violations:
            print('VIOLATION-REPRODUCED', v['what'])
        for d in rep.disagreements:
            print('DISAGREEMENT-REPRODUCED', d['what'])
        return 1 if rep.violations or rep.disagreements else 0
    if 'probe' in r:
        rep = Report(rule=RULE)
        {'vanishing_chunk': vanishing_chunk_probe, 'duplicated_state': duplicated_state_probe, 'size_threshold': size_threshold_probe}[r['probe']](ctx, rep)
        for v in rep.violations:
            print('VIOLATION-REPRODUCED', v['what'])
        return 1 if rep.violations else 0
    if 'seed' not in r:
        print('replay file does not carry a configuration:', obj.get('kind'))
        for b in obj.get('broken', []):
            print(' broken:', b.get('what'))
        return 0
    rep = Report(rule=RULE)
    cipher = tuple(r['cipher']) if r['cipher'] else None
    h = run_history(random.Random(r['seed']), ctx.scratch, r['cid'], cipher, r['hashing'])
    h['seed'] = r['seed']
    check_case(ctx, rep, h)
    for v in rep.violations:
        print('VIOLATION-REPRODUCED', v['what'])
    for d in rep.disagreements:
        print('DISAGREEMENT-REPRODUCED', d['what'])
    return 1 if rep.violations or rep.disagreements else 0
