from harness.registry import COMMON_TB
ENTRY = {
    'level': 'proof',
    'technique': ('Coq proof (stable descending sort = sorted permutation; first-occurrence-wins over the sorted snapshot sequence = version of the '
                  'maximal-timestamp candidate; lexicographic order of rendered datetimes = chronological order incl. the "...:SS" / "...:SS.ffffff" '
                  'prefix case; size = C01 tiling) + translated sort keys / guards / matching methods / size and bytes_to_human arithmetic '
                  '(Gen/SelectGen.v, semantic tie by lia) + differential correspondence on real multi-user histories with scripted utcnow() + '
                  'model-free newest-matching-snapshot oracle'),
    'design_ref': 'DESIGN.md section 4 C15, section 5 row 16; design/C15.md',
    'text': ('Theorems C15_newest_matching_wins / C15_restored_paths / C15_candidates (every list of snapshots with pairwise distinct timestamp '
             'strings, every pair of filters as arbitrary predicates - i.e. every regular expression and matcher, incl. no filter): a version is '
             'restored iff its path matches the file filter and it is held by the maximal-timestamp snapshot among the readable, family-visible '
             'snapshots whose NAME matches and that contain the path; each path once. C15_list_snapshots_exact_sorted / C15_list_files_exact_sorted: '
             'the listings are sorted permutations (non-increasing key) of exactly the filtered input. C15_size_is_true_size: the SIZE cell = file '
             'length via the C01 tiling theorem, for any recording order of the references. C15_names_*: printed names of own snapshots are accepted '
             'by delete, names not printed (or printed for another key) are refused and nothing changes. C15_ts_string_order (+ prefix case, '
             'injectivity, seconds column): str comparison of str(datetime) = chronological order for all years 0..9999. C15_combine_partial: '
             'several patterns = any-of, for matchers obeying the alternation law; C15_combine_unrestricted_refuted: CPython re does not (known '
             'finding). The model is run by vm_compute on the same histories as the real Repository (MemBackend, 3 users, scripted clock), regex '
             'answers handed over as tables computed with re.search under the documented any-of meaning; stdout rows of every column selection, '
             'restored versions (content + mtime) and delete effects are compared. Only explored, not proved: bytes_to_human rounding/formatting, '
             'table layout (header, padding), metadata time formatting, that the clock is read once per snapshot.'),
    'note': ('The regex engine is not modelled: filters are arbitrary predicates (theorems) / tables computed by Python re (correspondence). '
             'Chronological order of calendar tuples is taken as lexicographic order of (Y,M,D,h,m,s,us) (one time zone, no leap seconds). '
             'Histories with textually equal timestamps are outside the quantifier and not generated (selection then depends on load order). '
             'Correspondence is sampled.'),
    'trusted_base': COMMON_TB + ['monkeypatched replicat.repository.datetime (subclass with scripted utcnow())',
                                 'Python re (match tables), hashlib.blake2b, decimal (independent size formatting) in the harness'],
    'assumptions': ['snapshot timestamps are pairwise distinct as strings', 'a snapshot lists each path at most once',
                    'the regex matcher is an arbitrary function of (pattern, string); for several patterns it obeys the alternation law (violated by Python re for numbered back-references / inline global flags: known finding C15-regex-combination)',
                    'calendar order in UTC without leap seconds is the lexicographic order of the datetime fields'],
}
