"""Running the real replicat on small repositories (shared by the C04 / C05 / C18 harnesses).
Every command runs in a fresh Repository object inside its own event loop; stdout/stderr captured."""
from __future__ import annotations

import asyncio
import contextlib
import io
import json
import os
from dataclasses import dataclass
from pathlib import Path

SMALL_CHUNKING = {'min_length': 64, 'max_length': 256}


@dataclass
class Outcome:
    cls: str            # Ok | Corrupted | DecryptFail | ReplicatError | Missing | Malformed
    value: object = None
    stdout: str = ''
    stderr: str = ''
    detail: str = ''

    @property
    def ok(self):
        return self.cls == 'Ok'


def classify(exc):
    from replicat import exceptions
    if isinstance(exc, exceptions.DecryptionError):
        return 'DecryptFail'
    if isinstance(exc, exceptions.ReplicatError):
        return 'Corrupted' if 'corrupted' in str(exc) else 'ReplicatError'
    if isinstance(exc, (FileNotFoundError, KeyError)) and not isinstance(exc, json.JSONDecodeError):
        return 'Missing' if isinstance(exc, FileNotFoundError) else 'Malformed'
    return 'Malformed'


def silence_backoff():
    """Local's backoff decorator sleeps up to ~7 s on a missing file; make those sleeps instantaneous
    (instrumentation from outside: only backoff's own reference to the time module is replaced)."""
    import time as _time
    import backoff._sync as bs

    class _NoSleepTime:
        def __getattr__(self, name):
            return getattr(_time, name)

        @staticmethod
        def sleep(seconds):
            return None
    if not isinstance(bs.time, _NoSleepTime) and not getattr(bs.time, '_verif_nosleep', False):
        t = _NoSleepTime()
        t._verif_nosleep = True
        bs.time = t


def settings_for(cipher, hashing=None, chunking=None, kdf_n=4):
    """init settings: cipher None -> unencrypted; ('aes_gcm', 128) / ('chacha20_poly1305', None)"""
    s = {'chunking': dict(chunking or SMALL_CHUNKING)}
    if hashing:
        s['hashing'] = dict(hashing)
    if cipher is None:
        s['encryption'] = None
    else:
        name, bits = cipher[0], cipher[1]
        c = {'name': name}
        if bits:
            c['key_bits'] = bits
        if len(cipher) > 2 and cipher[2]:
            c['nonce_bits'] = cipher[2]
        s['encryption'] = {'cipher': c, 'kdf': {'name': 'scrypt', 'n': kdf_n}}
    return s


class Session:
    """Long-lived Repository objects (an embedding application, a server, the project's own tests): commands run one
    after the other on ONE event loop through objects that are kept, instead of a fresh object per command.
    mode 'one'      - one object per (repository, cache directory), re-unlocked with the credentials of whoever issues the command
    mode 'per-user' - one object per (repository, cache directory, user), unlocked once"""

    def __init__(self, mode):
        assert mode in ('one', 'per-user')
        self.mode = mode
        self.loop = asyncio.new_event_loop()
        self.repos = {}
        self.unlocked_as = {}

    def slot(self, client):
        base = (id(client.backend), str(client.cache))
        return base if self.mode == 'one' else base + (client.password, client.key)

    def close(self):
        with contextlib.suppress(Exception):
            self.loop.close()


class Client:
    """one user of one repository"""

    def __init__(self, backend, password=None, key=None, cache=None, concurrent=4, session=None):
        self.backend, self.password, self.key, self.cache, self.concurrent = backend, password, key, cache, concurrent
        self.session = session

    def _repo(self):
        from replicat.repository import Repository
        return Repository(self.backend, concurrent=self.concurrent, quiet=True,
                          cache_directory=str(self.cache) if self.cache is not None else None)

    def _run(self, fn, unlock=True):
        if self.session is not None:
            return self._run_in_session(fn, unlock)
        out, err = io.StringIO(), io.StringIO()

        async def go():
            repo = self._repo()
            if unlock:
                await repo.unlock(password=self.password, key=self.key)
            try:
                return await fn(repo)
            finally:
                with contextlib.suppress(Exception):
                    await repo.close()
        try:
            with contextlib.redirect_stdout(out), contextlib.redirect_stderr(err):
                value = asyncio.run(go())
            return Outcome('Ok', value, out.getvalue(), err.getvalue())
        except Exception as e:  # noqa: BLE001 - the outcome class is the observable
            return Outcome(classify(e), None, out.getvalue(), err.getvalue(), f'{type(e).__name__}: {e}'[:300])

    def _run_in_session(self, fn, unlock):
        ses, out, err = self.session, io.StringIO(), io.StringIO()
        k = ses.slot(self)

        async def go():
            repo = ses.repos.get(k)
            if repo is None:
                repo = ses.repos[k] = self._repo()
            who = (self.password, self.key)
            if unlock and ses.unlocked_as.get(k) != who:
                ses.unlocked_as[k] = None
                await repo.unlock(password=self.password, key=self.key)
                ses.unlocked_as[k] = who
            return await fn(repo)
        try:
            with contextlib.redirect_stdout(out), contextlib.redirect_stderr(err):
                value = ses.loop.run_until_complete(go())
            return Outcome('Ok', value, out.getvalue(), err.getvalue())
        except Exception as e:  # noqa: BLE001
            return Outcome(classify(e), None, out.getvalue(), err.getvalue(), f'{type(e).__name__}: {e}'[:300])

    def init(self, settings, key_output_path=None):
        import copy
        o = self._run(lambda r: r.init(password=self.password, settings=copy.deepcopy(settings), key_output_path=key_output_path), unlock=False)
        if o.ok and o.value.key is not None:
            from replicat.repository import Repository
            self.key = Repository(self.backend, concurrent=1).serialize(o.value.key)
        return o

    def add_key(self, password, shared, settings=None, key_output_path=None):
        import copy
        return self._run(lambda r: r.add_key(password=password, settings=copy.deepcopy(settings), shared=shared,
                                             key_output_path=key_output_path), unlock=True)

    def snapshot(self, paths, note=None):
        return self._run(lambda r: r.snapshot(paths=[Path(p) for p in paths], note=note))

    def restore(self, dest, snapshot_regex=None, file_regex=None):
        return self._run(lambda r: r.restore(snapshot_regex=snapshot_regex, file_regex=file_regex, path=Path(dest)))

    def list_snapshots(self, **kw):
        return self._run(lambda r: r.list_snapshots(**kw))

    def list_files(self, **kw):
        return self._run(lambda r: r.list_files(**kw))

    def delete_snapshots(self, names):
        return self._run(lambda r: r.delete_snapshots(list(names), confirm=False))

    def clean(self):
        return self._run(lambda r: r.clean())

    # object-level commands: they do not unlock the repository
    def upload_objects(self, directory, names, skip_existing=False):
        """upload the files directory/<name>...; object names are taken relative to the working directory"""
        def go(r):
            os.chdir(directory)
            return r.upload_objects([Path(directory, n) for n in names], skip_existing=skip_existing)
        cwd = os.getcwd()
        try:
            return self._run(go, unlock=False)
        finally:
            os.chdir(cwd)

    def download_objects(self, dest, prefix='', regex=None, skip_existing=False):
        return self._run(lambda r: r.download_objects(path=Path(dest), object_prefix=prefix, object_regex=regex, skip_existing=skip_existing), unlock=False)

    def list_objects(self, prefix='', regex=None):
        return self._run(lambda r: r.list_objects(object_prefix=prefix, object_regex=regex), unlock=False)

    def delete_objects(self, paths):
        return self._run(lambda r: r.delete_objects(list(paths), confirm=False), unlock=False)


def serialize_key(key_obj):
    from replicat.repository import Repository
    return Repository(None, concurrent=1).serialize(key_obj)


def read_tree(root):
    """relative path -> bytes for every regular file under root"""
    out = {}
    root = str(root)
    for dp, _, fns in os.walk(root):
        for fn in fns:
            p = os.path.join(dp, fn)
            out[os.path.relpath(p, root)] = open(p, 'rb').read()
    return out


def tree_modes(root):
    """relative path -> permission bits, for every directory and regular file under root (root itself excluded)"""
    out = {}
    root = str(root)
    for dp, dns, fns in os.walk(root):
        for n in dns + fns:
            p = os.path.join(dp, n)
            out[os.path.relpath(p, root)] = oct(os.lstat(p).st_mode & 0o7777)
    return out


def restored_rel(abs_source_path):
    """where restore puts a file recorded under an absolute path, relative to the target directory"""
    return os.path.join(*Path(abs_source_path).parts[1:])


def make_tree(rng, root, nfiles, maxlen=900, shared_block=None):
    """a small random file tree; returns {absolute path: bytes}.  Some files share a block (deduplication)."""
    root = Path(root)
    root.mkdir(parents=True, exist_ok=True)
    files = {}
    block = shared_block if shared_block is not None else rng.randbytes(320)
    for i in range(nfiles):
        k = rng.random()
        if k < 0.2:
            data = block + rng.randbytes(rng.randint(0, 200))
        elif k < 0.3:
            data = rng.randbytes(rng.randint(1, 63))
        else:
            data = rng.randbytes(rng.randint(64, maxlen))
        sub = root / (f'd{i % 2}' if i % 3 == 0 else '')
        sub.mkdir(parents=True, exist_ok=True)
        p = sub / f'f{i}_{rng.randrange(1000)}.bin'
        p.write_bytes(data)
        files[str(p.resolve())] = data
    return files
