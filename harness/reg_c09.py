from harness.registry import COMMON_TB
ENTRY = {
    'level': 'proof',
    'technique': 'Coq proof over transition systems (slots semaphore, producer/queue/worker pipeline, locked finalisation) for all step sequences + C01 order-independence theorems + AST source facts (slot bracketing, no nesting, release in finally, exit test, decision under lock) + gated-backend / lock-rendezvous schedule exploration on the real code',
    'design_ref': 'DESIGN.md section 4 C09',
    'text': ('C09_slots_bounded/_restored/_no_deadlock: in every reachable state of the slot system outstanding transfers <= N, tokens are conserved, '
             'all N are back when nothing is outstanding (success or failure), a blocked acquire always has a holder that can release. '
             'C09_pipe_exactly_once/_no_early_exit/_progress: for every schedule of producer, bounded queue and workers every produced chunk is processed '
             'exactly once, no worker leaves while a chunk is queued or to be produced, and a step is always enabled. C09_finalise_once/'
             '_after_all_writes: for every order in which loaders finish chunks each file is finalised exactly once, after its last pending chunk. '
             'C09_result_schedule_free (from C01): manifest and restored bytes do not depend on completion order or write order. The facts tying these '
             'systems to the code (every backend transfer lexically inside a slot block, no nested acquisition, release in finally, N tokens, worker '
             'exit test, emptiness test and pop inside one glock section, per-file write lock) are re-derived from the AST on every run. On the '
             'implementation, completion orders of pending backend calls are chosen by the harness (exhaustive scripts for a tiny configuration, '
             'seeded otherwise), coroutine and plain backends, locks rendezvous at release to force the double-finalisation schedule, failures are injected.'),
    'note': ('Models are hand-written abstractions tied by source facts and by checking their consequences on real runs (not a step-by-step trace refinement: '
             'internal steps of the event loop and thread pools are not observable without hooks). Not exhibited: pre-emption between two bytecodes of one '
             'un-instrumented statement (GIL-atomic container operations assumed), OS/event-loop hangs, fairness (liveness is stated as progress). '
             'Observed and not claimed: after a FAILED restore, loader threads waiting for a slot on the closed event loop can block interpreter exit.'),
    'trusted_base': COMMON_TB + ['gated backends, scheduler driver and lock proxy of harness/c09.py'],
    'assumptions': ['backend calls eventually return', 'individual dict/set/list operations are atomic under the GIL', 'fair scheduling for termination'],
}
