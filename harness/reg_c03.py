from harness.reg_c02 import ENTRY as _E
ENTRY = dict(_E)
ENTRY['design_ref'] = 'DESIGN.md section 4 C03, section 3.4'
ENTRY['technique'] = ('Coq proof (crash steps are steps of the interleaving relation whose every step preserves the invariant; clean after any '
                      'history is exact) + source-order facts + exhaustive fault enumeration over the mutation sequence of sampled commands on the '
                      'real code (kill at every prefix, every single permanent failure) + local backend temp-file stage injection')
ENTRY['text'] = ('C03_every_prefix_consistent: every state reachable by any interleaving with crashes of snapshot instances (S_crash) and of delete/clean '
                 '(S_des_crash) at any point keeps every visible snapshot complete; C03_clean_collects_orphans: from any such state a clean by a family '
                 'member leaves exactly the referenced chunks of the family; C03_source_order_facts ties the model\'s step order to the code (snapshot object '
                 'last; delete removes snapshot objects before chunks). On the implementation the mutation sequence of a sampled snapshot/delete/clean is '
                 'enumerated exhaustively (kill at every prefix, each single call failing for good) and the property\'s consequences are checked directly '
                 '(restore of every visible snapshot, listing, new snapshot, clean exactness, model prediction of the clean); local uploads are interrupted '
                 'at every temp-file stage and list/exists/download must never expose a partial object.')
ENTRY['note'] = ENTRY['note'] + (' Not exhibited: a kill inside a single POSIX syscall (rename atomicity assumed), power loss without fsync; in-flight calls at '
                                 'the kill are allowed to land or not.')
