"""C10 - chunker: correspondence (Gallina model by vm_compute vs the Python adapter over the C++
recompiled from the working tree) + model-free oracles.  DESIGN.md section 4, C10."""
from __future__ import annotations

import json
import os
import random
import subprocess

from harness import core
from harness.core import Report


# --------------------------------------------------------------------------- implementation side
def impl_chunks(params, mn, mx, pieces, guard):
    """Chunk list produced by the real adapter; guard = byte value placed behind every buffer."""
    import _replicat_adapters as A
    from replicat.utils.adapters import gclmulchunker
    A.GUARD = bytes([guard]) if guard is not None else None
    try:
        ch = gclmulchunker(min_length=mn, max_length=mx)
        return [bytes(c) for c in ch(iter(pieces), params=params)]
    finally:
        A.GUARD = None


def impl_chunks_reused_buffer(params, mn, mx, pieces):
    """the same stream handed over by a producer that REUSES one buffer (the readinto pattern): every piece is a memoryview of a
    bytearray the producer overwrites as soon as it is resumed.  What a piece holds at hand-over time is what counts."""
    from replicat.utils.adapters import gclmulchunker
    size = max([len(p) for p in pieces] + [1])
    buf = bytearray(size)

    def producer():
        for p in pieces:
            buf[:len(p)] = p
            yield memoryview(buf)[:len(p)]
            buf[:] = b'\xEE' * size          # resumed: the buffer is refilled (here: scribbled over) before the next hand-over
    ch = gclmulchunker(min_length=mn, max_length=mx)
    return [bytes(c) for c in ch(producer(), params=params)]


def align4(n):
    return (n + 3) & -4


def oracle(params, mn, mx, pieces, runs):
    """Model-free checks of the property statement on the outputs.  runs: dict label -> chunks.
    Returns list of (what, signature-kind)."""
    bad = []
    data = b''.join(pieces)
    ref = None
    for label, chunks in runs.items():
        if b''.join(chunks) != data:
            bad.append((f'concatenation of chunks differs from the stream ({label})', 'lossless'))
        if any(len(c) == 0 for c in chunks):
            bad.append((f'empty chunk produced ({label})', 'nonempty'))
        pos = 0
        for c in chunks:
            if len(data) - pos >= 2 * mx:
                if not (mn <= len(c) <= mx) or len(c) % 4:
                    bad.append((f'chunk of length {len(c)} at offset {pos} outside [{mn},{mx}] or unaligned ({label})', 'bounds'))
                    break
            pos += len(c)
        if ref is None:
            ref = (label, chunks)
    return bad


def reuse_probe(case):
    """'never by earlier calls': one adapter object used again after an abandoned run, and two runs consumed alternately,
    must give what a fresh adapter gives."""
    from replicat.utils.adapters import gclmulchunker
    key = bytes.fromhex(case['key']) or None
    pieces = [bytes.fromhex(p) for p in case['pieces']]
    pieces2 = [bytes.fromhex(p) for p in case['pieces2']]
    mn, mx = case['mn'], case['mx']
    fresh = [bytes(c) for c in gclmulchunker(min_length=mn, max_length=mx)(iter(pieces2), params=key)]
    ch = gclmulchunker(min_length=mn, max_length=mx)
    g = ch(iter(pieces), params=key)
    for _ in range(2):
        if next(g, None) is None:
            break
    g.close()
    again = [bytes(c) for c in ch(iter(pieces2), params=key)]
    if again != fresh:
        return 'the same adapter object used again after an abandoned run cuts differently from a fresh adapter'
    ch2 = gclmulchunker(min_length=mn, max_length=mx)
    g1, g2 = ch2(iter(pieces), params=key), ch2(iter(pieces2), params=key)
    o1, o2 = [], []
    while True:
        a, b = next(g1, None), next(g2, None)
        if a is None and b is None:
            break
        if a is not None:
            o1.append(bytes(a))
        if b is not None:
            o2.append(bytes(b))
    if o2 != fresh or b''.join(o1) != b''.join(pieces):
        return 'two runs on one adapter object consumed alternately interfere with each other'
    # ... and neither by the KEY of an earlier call on the same adapter object
    import hashlib
    key2 = hashlib.sha256(bytes.fromhex(case['key']) + b'other').digest()[:16]
    fresh2 = [bytes(c) for c in gclmulchunker(min_length=mn, max_length=mx)(iter(pieces2), params=key2)]
    ch3 = gclmulchunker(min_length=mn, max_length=mx)
    list(ch3(iter(pieces), params=key))
    if [bytes(c) for c in ch3(iter(pieces2), params=key2)] != fresh2:
        return 'an adapter object that has chunked under one key cuts a later stream under another key differently from a fresh adapter'
    # ... nor by another chunker that is ALIVE at the same time (another adapter object, another key), started in the middle of this run
    solo = [bytes(c) for c in gclmulchunker(min_length=mn, max_length=mx)(iter(pieces), params=key)]
    a = gclmulchunker(min_length=mn, max_length=mx)(iter(pieces), params=key)
    first = next(a, None)
    other = [bytes(c) for c in gclmulchunker(min_length=mn, max_length=mx)(iter(pieces2), params=key2)]
    rest = [bytes(c) for c in a]
    mine = ([bytes(first)] if first is not None else []) + rest
    if mine != solo or other != fresh2:
        return 'a run is cut differently when another chunker (another adapter object, another key) is created and used while it is in progress'
    return None


def source_size_constants():
    """integer constants >= 1 MiB in the chunker adapter and the repository module (read blocks, feed lengths, ...)"""
    import ast
    out = set()
    for rel in ('replicat/utils/adapters.py', 'replicat/repository.py'):
        try:
            tree = ast.parse((core.REPO / rel).read_text())
        except Exception:
            continue
        for n in ast.walk(tree):
            if isinstance(n, ast.Constant) and isinstance(n.value, int) and not isinstance(n.value, bool) and (1 << 20) <= n.value <= (96 << 20):
                out.add(n.value)
    return sorted(out)


def huge_piece_probe(ctx, rep):
    """pieces larger than every size constant in the source: one piece vs. 16 MiB pieces vs. 1 MiB pieces must be cut alike outside
    the tail zone, lossless, aligned, within bounds"""
    from replicat.utils.adapters import gclmulchunker
    consts = source_size_constants()
    size = 2 * (max(consts) if consts else (16 << 20)) + (1 << 20) + ctx.rng.randrange(1, 4096)
    data = ctx.rng.randbytes(1 << 20) * (size // (1 << 20)) + ctx.rng.randbytes(size % (1 << 20))
    # make it high-entropy enough: xor a counter into the first bytes of every MiB block
    data = bytearray(data)
    for i in range(0, len(data), 1 << 20):
        data[i:i + 8] = i.to_bytes(8, 'little')
    data = bytes(data)
    mn, mx = 4096, 65536
    key = ctx.rng.randbytes(16)

    class TooMuch(Exception):
        pass

    def cut(pieces):
        out, total, pos = [], 0, 0
        for c in gclmulchunker(min_length=mn, max_length=mx)(iter(pieces), params=key):
            # every chunk is the next bytes of the stream (checked as it comes: a chunker that emits data again never ends in time)
            if data[pos:pos + len(c)] != c:
                raise TooMuch(f'chunk #{len(out)} ({len(c)} bytes) is not the {len(c)} bytes of the stream at offset {pos}')
            pos += len(c)
            out.append(len(c))
        return out
    rep.case(('huge-piece', len(data)), nontrivial=True)
    rep.count('huge_piece_bytes', len(data))
    step = 16 << 20
    try:
        whole = cut([data])
        by16 = cut([data[i:i + step] for i in range(0, len(data), step)])
        by1 = cut([data[i:i + (1 << 20)] for i in range(0, len(data), 1 << 20)])
        # pieces that are not multiples of anything: 8 MiB + 1 byte
        by8 = cut([data[i:i + (8 << 20) + 1] for i in range(0, len(data), (8 << 20) + 1)])
    except TooMuch as e:
        rep.violations.append({'what': f'a stream of {len(data)} bytes (min {mn}, max {mx}) handed over in large pieces: {e}',
                               'signature': {'kind': 'lossless', 'probe': 'huge'}, 'replay': {'probe': 'huge'}})
        return

    def head(lengths):
        out, pos = [], 0
        for n in lengths:
            if len(data) - pos >= 2 * mx:
                out.append(n)
            pos += n
        return out
    for name, other in (('16 MiB pieces', by16), ('1 MiB pieces', by1), ('pieces of 8 MiB + 1 byte', by8)):
        if sum(whole) != len(data) or sum(other) != len(data):
            rep.violations.append({'what': f'a stream of {len(data)} bytes handed over as one piece / {name}: chunks do not add up to the stream',
                                   'signature': {'kind': 'lossless', 'probe': 'huge'}, 'replay': {'probe': 'huge'}})
            return
        h1, h2 = head(whole), head(other)
        if h1 != h2:
            k = next(i for i, (a, b) in enumerate(zip(h1 + [0], h2 + [0])) if a != b)
            rep.violations.append({'what': f'a stream of {len(data)} bytes (min {mn}, max {mx}) handed over as ONE piece and as {name} is cut differently outside the tail zone: '
                                           f'chunk #{k} at offset {sum(h1[:k])} has length {h1[k] if k < len(h1) else None} vs {h2[k] if k < len(h2) else None}',
                                   'signature': {'kind': 'segmentation', 'probe': 'huge'}, 'replay': {'probe': 'huge'}})
            return
    bad = [n for n in head(whole) if n % 4 or not (mn <= n <= mx)]
    if bad:
        rep.violations.append({'what': f'one piece of {len(data)} bytes: chunk of length {bad[0]} outside [min, max] or unaligned far from the tail',
                               'signature': {'kind': 'bounds', 'probe': 'huge'}, 'replay': {'probe': 'huge'}})


def huge_bounds_probe(ctx, rep):
    """chunk lengths at and above 2**32 (valid: any maximum the platform can address is accepted): the native scan is asked once per
    case, in a child process, on an anonymous mapping of zero pages.  Far from the end of a stream a cut lies within [min, max] and on
    the alignment; with less than the look-ahead buffered and more to come the answer is 'need more data' (0)."""
    import subprocess
    import sys
    G = 1 << 32
    cases = [(G + 4, G + 8, G + 8, 0, 'cut'), (1000, G + 8, 6000, 0, 'wait'), (128000, 2 * G, 600000, 0, 'wait'), (G - 4, G, G, 0, 'cut')]
    for mn, mx, n, final, want in cases:
        env = dict(os.environ)
        try:
            p = subprocess.run([sys.executable, '-m', 'harness.hugebounds_child', str(mn), str(mx), str(n), str(final)], env=env, cwd=str(core.ROOT),
                               stdout=subprocess.PIPE, stderr=subprocess.PIPE, timeout=600)
            rc, out = p.returncode, p.stdout.decode(errors='replace').strip()
        except subprocess.TimeoutExpired:
            rc, out = -100, ''
        rep.case(('huge-bounds', mn, mx, n), nontrivial=True)
        rep.count('huge_bounds_cases')
        what = None
        if rc != 0:
            what = (f'the native scan with min {mn}, max {mx} on {n} buffered bytes (more to come) ends the process with status {rc}' if rc != -100 else
                    f'the native scan with min {mn}, max {mx} on {n} buffered bytes does not return within 600 s')
        else:
            cut = json.loads(out.splitlines()[-1])['cut']
            if want == 'wait' and cut != 0:
                what = f'min {mn}, max {mx}: {n} bytes buffered and more to come (less than the look-ahead): the scan cuts at {cut} instead of asking for more data'
            if want == 'cut' and not (mn <= cut <= mx and cut % 4 == 0):
                what = f'min {mn}, max {mx}: {n} bytes buffered, far from the end of the stream: cut at {cut}, outside [min, max] or off the alignment'
        if what:
            rep.violations.append({'what': what, 'signature': {'kind': 'bounds', 'probe': 'huge_bounds'}, 'replay': {'probe': 'huge_bounds'}})


def head_part(chunks, total, mx):
    out, pos = [], 0
    for c in chunks:
        if total - pos >= 2 * mx:
            out.append(len(c))
        pos += len(c)
    return out


# --------------------------------------------------------------------------- generators
def gen_params(rng):
    kind = rng.random()
    if kind < 0.25:
        mn = rng.choice([1, 2, 3, 4]); mx = rng.choice([4, 5, 6, 7, 8, 9, 12, 13])
    elif kind < 0.5:
        mx = rng.choice([8, 12, 16, 20, 24, 32, 48, 64]); mn = rng.randint(1, mx)
    elif kind < 0.75:
        mx = rng.choice([9, 10, 11, 13, 14, 15, 17, 18, 19, 21, 27, 33, 45, 63]); mn = rng.randint(1, mx)
    else:
        mx = rng.randint(4, 80); mn = rng.choice([1, max(1, mx // 16), max(1, mx // 4), mx])
    mx = max(mx, 4)
    mn = max(1, min(mn, mx))
    while align4(mn) > mx:
        mn -= 1
    return mn, mx


def gen_data(rng, n):
    k = rng.random()
    if k < 0.55:
        return rng.randbytes(n)
    if k < 0.7:
        return bytes(n)
    if k < 0.85:
        pat = rng.randbytes(rng.choice([1, 3, 4, 8, 12]))
        return (pat * (n // len(pat) + 1))[:n]
    return bytes((i * 7 + 3) % 256 for i in range(n))


def gen_pieces(rng, data, mx):
    k = rng.random()
    if k < 0.15:
        return [data]
    cuts = set()
    if k < 0.4:
        for _ in range(rng.randint(1, 6)):
            cuts.add(rng.randint(0, len(data)))
    elif k < 0.6:   # buffers of size around mx, 2*mx
        p = 0
        while p < len(data):
            p += rng.choice([mx - 1, mx, mx + 1, mx + 2, mx + 3, 2 * mx - 1, 2 * mx, 2 * mx + 1, 1, align4(mx)])
            cuts.add(min(p, len(data)))
    elif k < 0.75:  # one-byte pieces
        cuts = set(range(len(data) + 1)) if len(data) <= 200 else set(range(0, len(data), 3))
    else:
        p = 0
        while p < len(data):
            p += rng.randint(0, 3 * mx)
            cuts.add(min(p, len(data)))
    pts = sorted(cuts | {0, len(data)})
    pieces = [data[a:b] for a, b in zip(pts, pts[1:])]
    # sprinkle empty pieces
    if rng.random() < 0.4:
        for _ in range(rng.randint(1, 3)):
            pieces.insert(rng.randint(0, len(pieces)), b'')
    return pieces or [b'']


def gen_key(rng):
    k = rng.random()
    if k < 0.15:
        return b''            # unencrypted repository: params None/empty -> 0xFF * 16
    if k < 0.3:
        return rng.randbytes(rng.choice([1, 2, 3, 5, 8, 15]))   # repeated up to 16
    if k < 0.42:
        # keys with structure: one half zero / all ones / a single bit (window values that are all equal or all zero then)
        half = rng.choice([bytes(8), b'\xff' * 8, (1 << rng.randrange(64)).to_bytes(8, 'little')])
        return rng.randbytes(8) + half if rng.random() < 0.7 else half + rng.randbytes(8)
    return rng.randbytes(16)


def gen_case(rng, maxlen):
    mn, mx = gen_params(rng)
    r = rng.random()
    if r < 0.3:
        n = rng.choice([0, 1, mx - 1, mx, mx + 1, mx + mn - 1, mx + mn, 2 * mx - 1, 2 * mx, 2 * mx + 1, 3 * mx, align4(mx) + 1])
    else:
        n = rng.randint(0, maxlen)
    n = max(0, min(n, maxlen))
    data = gen_data(rng, n)
    key = gen_key(rng)
    if key and int.from_bytes(((key * 16)[:16] if len(key) < 16 else key)[:8], 'little') == 0:
        key = b'\x01' + key[1:]
    return {'key': key.hex(), 'mn': mn, 'mx': mx, 'pieces': [p.hex() for p in gen_pieces(rng, data, mx)],
            'pieces2': [p.hex() for p in gen_pieces(rng, data, mx)]}


def case_nontrivial(case, chunks):
    return len(chunks) >= 2


# --------------------------------------------------------------------------- model side
def model_file(cases, guards):
    lines = ['From Coq Require Import List NArith Bool.',
             'From Replicat Require Import Model.Chunker Model.Clmul.',
             'Import ListNotations.', 'Local Open Scope N_scope.',
             'Definition run (c : list N * nat * nat * list (list N) * N) : list nat :=',
             "  let '(k, mn, mx, ps, g) := c in map (@length N) (gchunkify k mn mx ps (fun _ => repeat g 64)).",
             'Definition cases : list (list N * nat * nat * list (list N) * N) := [']
    items = []
    for case, g in zip(cases, guards):
        key = bytes.fromhex(case['key'])
        ps = '[' + '; '.join(core.coq_bytes(bytes.fromhex(p)).replace('%N', '') for p in case['pieces']) + ']'
        items.append(f"  ({core.coq_bytes(key).replace('%N', '')}, {case['mn']}%nat, {case['mx']}%nat, {ps}, {g})")
    lines.append(';\n'.join(items))
    lines.append('].')
    lines.append('Eval vm_compute in map run cases.')
    return '\n'.join(lines) + '\n'


def run_model(cases, guards, per_file=40):
    jobs = []
    for i in range(0, len(cases), per_file):
        jobs.append((f'c10_{i // per_file}', model_file(cases[i:i + per_file], guards[i:i + per_file])))
    res = core.coq_eval_files(jobs)
    out = []
    for name, _ in jobs:
        rc, text = res[name]
        if rc != 0:
            return None, text[-1500:]
        vals = core.parse_coq_values(text)
        out += core.parse_coq_term(vals[-1])
    return out, ''


# --------------------------------------------------------------------------- the check
def check_cases(cases, rep: Report, with_model=True):
    guards = []
    impl = []
    for idx, case in enumerate(cases):
        key = bytes.fromhex(case['key']) or None
        pieces = [bytes.fromhex(p) for p in case['pieces']]
        pieces2 = [bytes.fromhex(p) for p in case['pieces2']]
        mn, mx = case['mn'], case['mx']
        total = sum(map(len, pieces))
        g1, g2 = 0x00, 0xFF
        runs = {
            'guard00': impl_chunks(key, mn, mx, pieces, g1),
            'guardff': impl_chunks(key, mn, mx, pieces, g2),
            'inplace': impl_chunks(key, mn, mx, pieces, None),
            'seg2': impl_chunks(key, mn, mx, pieces2, 0xA5),
        }
        guards.append(g2)
        impl.append([len(c) for c in runs['guardff']])
        rep.case((case['key'], mn, mx, case['pieces']), nontrivial=len(runs['guard00']) >= 2)
        rep.count(f'mx%4={mx % 4}')
        rep.count('pieces=1' if len(pieces) == 1 else ('pieces<=4' if len(pieces) <= 4 else 'pieces>4'))
        rep.count('len<2mx' if total < 2 * mx else 'len>=2mx')
        if any(len(p) == 0 for p in pieces):
            rep.count('has_empty_piece')
        rep.sample({'key': case['key'], 'min': mn, 'max': mx, 'piece_lengths': [len(p) for p in pieces],
                    'chunk_lengths': impl[-1]})
        sig = {'mx_mod4': mx % 4}
        for what, kind in oracle(key, mn, mx, pieces, {k: runs[k] for k in ('guard00', 'guardff', 'inplace')}):
            rep.violations.append({'what': what, 'signature': dict(sig, kind=kind), 'replay': case})
        if runs['guard00'] != runs['guardff'] or runs['guard00'] != runs['inplace']:
            rep.violations.append({'what': 'chunk boundaries depend on memory behind the buffer '
                                   f'(min {mn}, max {mx}, {total} bytes): guard 0x00 -> {[len(c) for c in runs["guard00"]]}, '
                                   f'guard 0xff -> {[len(c) for c in runs["guardff"]]}',
                                   'signature': dict(sig, kind='junk'), 'replay': case})
        if idx % 3 == 0:
            try:
                reused = impl_chunks_reused_buffer(key, mn, mx, pieces)
            except Exception as e:
                reused = f'{type(e).__name__}: {str(e)[:80]}'
            if reused != runs['inplace']:
                rep.violations.append({'what': f'the same stream handed over through a reused buffer (memoryviews of one bytearray the producer overwrites when resumed) '
                                               f'is cut differently (min {mn}, max {mx}): ' + (reused if isinstance(reused, str) else
                                               f'{[len(c) for c in reused][:12]} / lossless={b"".join(reused) == b"".join(pieces)} vs {[len(c) for c in runs["inplace"]][:12]}'),
                                       'signature': dict(sig, kind='reused_buffer'), 'replay': case})
        if idx % 4 == 0:
            msg = reuse_probe(case)
            if msg:
                rep.violations.append({'what': msg + f' (min {mn}, max {mx})', 'signature': dict(sig, kind='earlier_calls'), 'replay': case})
        h1, h2 = head_part(runs['guard00'], total, mx), head_part(runs['seg2'], total, mx)
        if h1 != h2 or b''.join(runs['seg2']) != b''.join(pieces):
            rep.violations.append({'what': f'chunks outside the tail zone depend on the segmentation (min {mn}, max {mx}): {h1} vs {h2}',
                                   'signature': dict(sig, kind='segmentation'), 'replay': case})
    if with_model and cases:
        model, err = run_model(cases, guards)
        if model is None:
            rep.disagreements.append({'what': 'the model could not be evaluated: ' + err, 'replay': None})
        else:
            for case, m, i in zip(cases, model, impl):
                rep.traces_validated += 1
                if m != i:
                    rep.disagreements.append({'what': f'chunk lengths differ (min {case["mn"]}, max {case["mx"]}): model {m} implementation {i}',
                                              'replay': dict(case, model=m, implementation=i)})


def stale_binary_note():
    """Does the prebuilt extension in /repo still agree with src/adapters.cpp (as rebuilt)?  Informational."""
    code = r'''
import sys, random, json
sys.path.insert(0, "/repo")
import _replicat_adapters as A
r = random.Random(5); out = []
for _ in range(300):
    mx = r.choice([8, 16, 64, 13, 20]); mn = r.randint(1, mx // 2)
    c = A._gclmulchunker(mn, mx, bytes(range(1, 17)))
    n = r.choice([mx, mx + 1, 2 * mx, 3 * mx]); buf = bytes((i * 31 + 7) % 256 for i in range(n)) + b"\0" * 8
    out.append(c.next_cut(buf[:n], r.random() < 0.5))
print(json.dumps(out))
'''
    try:
        a = subprocess.run([core.PY, '-c', code], capture_output=True, text=True, timeout=60, cwd='/var/tmp',
                           env={'PATH': '/usr/bin:/bin'}).stdout
        b = subprocess.run([core.PY, '-c', code.replace('sys.path.insert(0, "/repo")', 'sys.path.insert(0, "/verif/native/pyshim")')],
                           capture_output=True, text=True, timeout=60, cwd='/var/tmp', env={'PATH': '/usr/bin:/bin'}).stdout
        return 'prebuilt extension agrees with src/adapters.cpp on 300 probe calls' if a == b and a else \
               'prebuilt extension in /repo is STALE relative to src/adapters.cpp (informational; checks use the rebuilt source)'
    except Exception as e:  # pragma: no cover
        return f'stale-binary probe not run: {e}'


RULE = ('cases = (key, min, max, segmentation, second segmentation) drawn from one PRNG: parameter corners (max<8, min=max, '
        'max mod 4 in 0..3), stream lengths around max, max+min, 2*max, data random/zero/periodic, pieces incl. empty and '
        'one-byte; each run 4 times (guard bytes 0x00/0xff behind the buffer, in place, other segmentation); '
        'non-trivial = at least 2 chunks; distinct = distinct (key, min, max, pieces)')


def corpus_cases():
    import json
    out = []
    for p in sorted((core.ROOT / 'corpus' / 'C10').glob('*.json')):
        out.append(json.loads(p.read_text()))
    return out


def run(ctx) -> Report:
    rep = Report(rule=RULE)
    n = ctx.scale(320, 4000)
    maxlen = ctx.scale(420, 700)
    cases = corpus_cases() + [gen_case(ctx.rng, maxlen) for _ in range(n)]
    check_cases(cases, rep)
    huge_piece_probe(ctx, rep)
    if ctx.tier == 'thorough':
        huge_bounds_probe(ctx, rep)
    rep.notes.append(stale_binary_note())
    return rep


def search(ctx, broken) -> Report:
    """Large model-free search (oracles only) when a proof or the correspondence broke."""
    rep = Report(rule=RULE)
    rng = ctx.rng
    seeds = [b['case'] for b in broken if isinstance(b.get('case'), dict) and 'pieces' in b['case']]
    cases = [{k: c[k] for k in ('key', 'mn', 'mx', 'pieces', 'pieces2')} for c in seeds]
    cases += [gen_case(rng, 900) for _ in range(6000)]
    check_cases(cases, rep, with_model=False)
    huge_piece_probe(ctx, rep)
    huge_bounds_probe(ctx, rep)
    return rep


def replay(ctx, obj):
    rep = Report(rule=RULE)
    case = obj.get('replay') or {}
    if case.get('probe') == 'huge':
        huge_piece_probe(ctx, rep)
        for v in rep.violations:
            print('VIOLATION-REPRODUCED', v['what'])
        return 1 if rep.violations else 0
    if 'pieces' not in case:
        print('replay file does not carry a chunker case:', obj.get('kind'))
        return 0
    check_cases([{k: case[k] for k in ('key', 'mn', 'mx', 'pieces', 'pieces2')}], rep)
    for v in rep.violations:
        print('VIOLATION-REPRODUCED', v['what'])
    for d in rep.disagreements:
        print('DISAGREEMENT-REPRODUCED', d['what'])
    return 1 if rep.violations or rep.disagreements else 0
